from checks.livewindow import run


def main(tier_: str) -> int:
    return run('C01', tier_)
