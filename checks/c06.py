"""C06 - static manifests describe the stored media completely and exactly.
(A) TLC: LiveWindowMC static instance (C06_* invariants over all layouts);
(B) each layout replayed on the real pure layer in vod mode;
(C) every static-capable template x option vector over HTTP: every enumerated segment,
    one past the end, SegmentList byte ranges; all validated by LiveWindowHttpTrace."""
from __future__ import annotations

import datetime
import random
from typing import Any

from harness.core import MachineryFailure, Outcome, Violation, run_tlc, scratch, seed, tlc_must_pass, validate_trace

VOD_TEMPLATES = ['hand_made.mpd', 'manifest_a.mpd', 'manifest_b.mpd', 'manifest_e.mpd', 'manifest_h.mpd',
                 'manifest_i.mpd', 'manifest_n.mpd', 'manifest_ef.mpd']
OD_TEMPLATES = ['hand_made.mpd', 'manifest_vod_aiv.mpd']
TIMELINE_TEMPLATES = {'hand_made.mpd', 'manifest_a.mpd', 'manifest_n.mpd'}


def main(tier_: str) -> int:
    out = Outcome('C06', tier_)
    out.assumptions = [
        'N in "startNumber..startNumber+N-1" is read as the number of stored media segments (the least demanding reading; '
        'the DASH ceil(duration/segment duration) count is not demanded)',
        'declared duration equals the reference duration "to the millisecond": the declared value must lie between floor and ceil '
        'of the exact reference duration in ms',
        'stored layout comes from an independent scan of the file (harness/stored.py); shims and clock as for C01',
    ]
    from harness.app import DashApp
    from harness.httplive import StaticDriver
    from harness.purelayer import PureLayer, static_lines
    import logging
    with scratch() as d:
        ra = run_tlc('LiveWindowMC', 'LiveWindowMC_static.cfg', workdir=d, workers=1, timeout=600)
        tlc_must_pass(ra, 'LiveWindowMC static (A)')
        sts = ra.tagged('T')
        if len(sts) < 6:
            raise MachineryFailure('static layouts not emitted')
        logging.disable(logging.CRITICAL)
        pl = PureLayer({}, 40)
        lines: list[dict[str, Any]] = []
        for i, s in enumerate(sts):
            lines.extend(static_lines(pl, i + 1, s))
        npure = len(lines)
        rng = random.Random(seed() * 31 + 6)
        now = datetime.datetime(2024, 3, 5, 12, 0, 0, tzinfo=datetime.timezone.utc)
        vecs: list[tuple[str, str, str, str]] = []
        extras = ['', 'abr=0', 'base=0', 'acodec=mp4a', 'drm=all', 'drm=playready', 'drm=clearkey', 'events=ping',
                  'bugs=saio&drm=all', 'abr=0&base=0']
        for stream in ('bbb', 'tears'):
            for tmpl in VOD_TEMPLATES:
                picks = extras if tier_ == 'thorough' else ([''] + rng.sample(extras[1:], 2))
                for x in picks:
                    if stream == 'tears' and 'drm' in x:
                        continue
                    for tl in ((0, 1) if tmpl in TIMELINE_TEMPLATES else (0,)):
                        q = x + ('&timeline=1' if tl and x else ('timeline=1' if tl else ''))
                        vecs.append((stream, tmpl, 'vod', q))
            for tmpl in OD_TEMPLATES:
                for x in ['', 'abr=0', 'base=0']:
                    vecs.append((stream, tmpl, 'odvod', x))
        # a stream whose text track is stored without tfdt boxes and with fragments of unequal duration
        # (tests/fixtures/webvtt.mp4): the server has to synthesise the decode times
        for tmpl in ('hand_made.mpd', 'manifest_n.mpd'):
            for q in ('', 'timeline=1'):
                vecs.append(('vtt', tmpl, 'vod', q))
        vecs.append(('vtt', 'hand_made.mpd', 'odvod', ''))
        # a stream whose timing reference (its audio file, 39.98 s) is not a whole number of seconds
        for q in ('', 'timeline=1'):
            vecs.append(('aref', 'hand_made.mpd', 'vod', q))
        vecs.append(('aref', 'hand_made.mpd', 'odvod', ''))
        # a video track (the timing reference) with a short last fragment: 10 x 4 s + 0.5 s = 40.5 s
        for q in ('', 'timeline=1'):
            vecs.append(('tail', 'hand_made.mpd', 'vod', q))
        vecs.append(('tail', 'manifest_n.mpd', 'vod', 'timeline=1'))
        vecs.append(('tail', 'hand_made.mpd', 'odvod', ''))
        # media stored with top-level `free` padding after moov, between fragments and at the end of the file
        for tmpl in OD_TEMPLATES:
            vecs.append(('pad', tmpl, 'odvod', ''))
        for q in ('', 'timeline=1'):
            vecs.append(('pad', 'hand_made.mpd', 'vod', q))
        # media whose last mdat is written with size 0 ("to the end of the file")
        for tmpl, mode in (('hand_made.mpd', 'odvod'), ('hand_made.mpd', 'vod'), ('manifest_a.mpd', 'vod')):
            vecs.append(('eof', tmpl, mode, ''))
        # media stored as styp + moof + mdat per fragment, without segment indexes (spec/Indexer.tla, check X03)
        for tmpl in OD_TEMPLATES:
            vecs.append(('nsx', tmpl, 'odvod', ''))
        vecs.append(('nsx', 'hand_made.mpd', 'vod', ''))
        with DashApp(d / 'app', fixtures=('bbb', 'tears')) as da:
            from harness.core import REPO
            from harness.synth import strip_sidx
            nsx = []
            for stem in ('bbb_v7', 'bbb_a1'):
                nf = d / f'nsx_{stem[4:]}.mp4'
                nf.write_bytes(strip_sidx((REPO / 'tests' / 'fixtures' / 'bbb' / f'{stem}.mp4').read_bytes()))
                nsx.append((nf, f'nsx_{stem[4:]}'))
            da.add_fixture('bbb', directory='nsx', title='stored without segment indexes', only=set(), extra=nsx)
            da.add_fixture('bbb', directory='vtt', title='stored without tfdt', only={'bbb_v7', 'bbb_a1'},
                           extra=[(REPO / 'tests' / 'fixtures' / 'webvtt.mp4', 'vtt_t2')])
            da.add_fixture('bbb', directory='aref', title='audio is the timing reference', only={'bbb_v7', 'bbb_a1'}, ref_stem='bbb_a1')
            from harness.synth import append_short_fragment
            tailf = d / 'tail_v7.mp4'
            tailf.write_bytes(append_short_fragment((REPO / 'tests' / 'fixtures' / 'bbb' / 'bbb_v7.mp4').read_bytes(), 12))
            da.add_fixture('bbb', directory='tail', title='short last fragment', only={'bbb_a1'}, extra=[(tailf, 'tail_v7')])
            from harness.synth import pad_with_free
            padded = []
            for stem in ('bbb_v6', 'bbb_t1'):
                pf = d / f'pad_{stem[4:]}.mp4'
                pf.write_bytes(pad_with_free((REPO / 'tests' / 'fixtures' / 'bbb' / f'{stem}.mp4').read_bytes()))
                padded.append((pf, f'pad_{stem[4:]}'))
            da.add_fixture('bbb', directory='pad', title='stored with free padding', only={'bbb_v7', 'bbb_a1'}, extra=padded)
            from harness.synth import open_ended_last_box
            eof = []
            for stem in ('bbb_v7', 'bbb_a1'):
                ef = d / f'eof_{stem[4:]}.mp4'
                ef.write_bytes(open_ended_last_box((REPO / 'tests' / 'fixtures' / 'bbb' / f'{stem}.mp4').read_bytes()))
                eof.append((ef, f'eof_{stem[4:]}'))
            try:
                da.add_fixture('bbb', directory='eof', title='last mdat extends to the end of the file', only=set(), extra=eof)
            except Exception as err:
                vecs[:] = [v for v in vecs if v[0] != 'eof']
                lines.append({'tid': 999, 'ev': 'index_failed', 'file': 'eof_v7 / eof_a1', 'shape': 'last top-level mdat written with size 0',
                              'error': f'{type(err).__name__}: {str(err)[:160]}', 'url': 'index:eof', 'rep': 'eof'})
            drv = StaticDriver(da)
            for i, (stream, tmpl, mode, q) in enumerate(vecs):
                lines.extend(drv.static_manifest(1000 + i, stream, tmpl, mode, q, now))
            nreq = drv.requests
        walks = [x for x in lines if x['ev'] in ('rep', 'ondemand')]
        refused = [x for x in lines if x['ev'] not in ('rep', 'ondemand')]
        vs, st = validate_trace('LiveWindowHttpTrace', lines, workdir=d, chunk=300, parallel=12)
        for v in vs:
            if not v['clause'].startswith('C06_'):
                continue
            lo = v['lineobj']
            case = {'url': lo.get('url'), 'rep': lo.get('rep'), 'by': lo.get('by'), 'mode': lo.get('mode'),
                    'detail': v['detail'], 'nsegs': len(lo.get('durs', [])), 'sample_url': lo.get('sample_url'),
                    'past_url': lo.get('past_url'),
                    'shorter_than_ref_by': (lo['R'] - sum(lo['durs'])) if 'R' in lo and 'durs' in lo else None,
                    # the last stored fragment is shorter than three quarters of the first one
                    'last_fragment_short': 1 if lo.get('durs') and 4 * lo['durs'][-1] < 3 * lo['durs'][0] else 0,
                    'gap_kinds': lo.get('gap_kinds', []), 'gap_bytes': lo.get('gap_bytes', 0), 'gap_box_bytes': lo.get('gap_box_bytes', 0)}
            out.add(Violation('C06', v['clause'], case))
        n200 = sum(1 for x in walks for s in x.get('serve', []) if s['status'] == 200) + \
            sum(1 for x in walks for s in x.get('fetched', []) if s['status'] == 206)
        out.coverage.update({
            'states': ra.distinct, 'transitions': max(1, ra.generated),
            'traces_validated_against_impl': len(walks),
            'evaluations': n200 + len(walks),
            'distinct_nontrivial': len({(x.get('url'), x.get('rep')) for x in walks}),
            'rule': 'one evaluation per fetched segment / byte range plus one per representation walk; distinct = distinct '
                    '(manifest URL, representation) walks, each of which fetched every enumerated segment and one past the end',
            'exhaustive': False, 'pure_layer_lines': npure, 'http_manifests': len(vecs), 'http_requests': nreq,
            'refused_or_unsupported': len(refused),
            'samples': [{k: walks[npure][k] for k in ('url', 'rep', 'by', 'keys', 'past', 'sample_url')},
                        {k: walks[-1][k] for k in walks[-1] if k not in ('fetched', 'seg_pos', 'seg_end', 'media_ranges')}],
            'bounds': 'fixture streams bbb and tears, plus bbb video/audio with the tfdt-less webvtt.mp4 as text track, plus copies of bbb_v6 / bbb_t1 with top-level free padding; all vod templates and both odvod templates; tier ' + tier_,
        })
        if refused:
            out.notes.append('refused/unsupported: ' + '; '.join(sorted({str(x.get('url')) + ' ' + x['ev'] for x in refused})[:6]))
    return out.finish('model_checking')
