"""C12 - multi-period presentations tile the timeline and play the right media.
(A) TLC MultiPeriodMC: period tiling (vod / live loop) and period-relative segment mapping of the
    implementation-shaped model; (C) multi-period streams created over the fixture streams
    (period starts on and off segment boundaries), real manifests and /mps/... init / media responses
    compared with the stored files; validated by TLC (MultiPeriodTrace)."""
from __future__ import annotations

import datetime
import random
from typing import Any
from urllib.parse import urljoin

from harness.core import MachineryFailure, Outcome, Violation, run_tlc, scratch, seed, tlc_must_pass, validate_trace
from harness import mpd as M

MPS_DEFS = {
    'mpsa': [dict(pid='p1', stream='bbb', start_s=4, duration_s=32, tracks=[('video', 1, 'MAIN'), ('audio', 2, 'MAIN')]),
             dict(pid='p2', stream='tears', start_s=8, duration_s=44, tracks=[('video', 1, 'MAIN'), ('audio', 2, 'MAIN')])],
    'mpsb': [dict(pid='q1', stream='tears', start_s=0, duration_s=64, tracks=[('video', 1, 'MAIN'), ('audio', 2, 'MAIN')])],
    'mpsc': [dict(pid='r1', stream='bbb', start_s=6, duration_s=10, tracks=[('video', 1, 'MAIN'), ('audio', 2, 'MAIN')]),
             dict(pid='r2', stream='bbb', start_s=21, duration_s=15, tracks=[('video', 1, 'MAIN')]),
             dict(pid='r3', stream='tears', start_s=33, duration_s=23, tracks=[('video', 1, 'MAIN'), ('audio', 2, 'MAIN')])],
    # a period over a stream whose text track is stored without tfdt boxes and with fragments of unequal duration
    # period durations with fractional seconds (the editing API accepts PT10.5S)
    'mpsf': [dict(pid='f1', stream='bbb', start_s=4, duration_s=10.5, tracks=[('video', 1, 'MAIN'), ('audio', 2, 'MAIN')]),
             dict(pid='f2', stream='tears', start_s=8, duration_s=8, tracks=[('video', 1, 'MAIN'), ('audio', 2, 'MAIN')])],
    # a period over a stream whose stored fragments are numbered from 5 (the manifest advertises startNumber from the index)
    'mpsr': [dict(pid='n1', stream='rn5', start_s=8, duration_s=20, tracks=[('video', 1, 'MAIN')])],
    # ... and from 0 (a legal mfhd sequence number, and a falsy one)
    'mpsz': [dict(pid='z1', stream='rn0', start_s=8, duration_s=20, tracks=[('video', 1, 'MAIN')])],
    'mpsv': [dict(pid='v1', stream='vtt', start_s=10, duration_s=24, tracks=[('video', 1, 'MAIN'), ('text', 4, 'MAIN')]),
             dict(pid='v2', stream='bbb', start_s=0, duration_s=12, tracks=[('video', 1, 'MAIN')])],
}


def main(tier_: str) -> int:
    out = Outcome('C12', tier_)
    out.assumptions = [
        'the property is about $Number$ addressing; SegmentTimeline content inside Periods is not constrained by it',
        '"every segment number the Period\'s duration admits": numbers whose whole nominal interval lies inside the Period duration '
        '(floor(duration * timescale / @duration)), limited to what the source still has',
        'period definitions are created through the models with whole-second starts (on and off segment boundaries) that do not fall '
        'into the last half of the last source segment (the implementation\'s nearest-start walk wraps to the next loop there)',
    ]
    from harness.app import DashApp
    from harness.httplive import HttpDriver, path_of
    from harness.stored import stored, project_media
    rng = random.Random(seed() * 83 + 12)
    with scratch() as d:
        ra = run_tlc('MultiPeriodMC', 'MultiPeriodMC.cfg', workdir=d, workers=16, timeout=1200)
        tlc_must_pass(ra, 'MultiPeriodMC (A)')
        lines: list[dict[str, Any]] = []
        with DashApp(d / 'app', fixtures=('bbb', 'tears')) as da:
            from harness.core import REPO
            da.add_fixture('bbb', directory='vtt', title='stored without tfdt', only={'bbb_v7', 'bbb_a1'},
                           extra=[(REPO / 'tests' / 'fixtures' / 'webvtt.mp4', 'vtt_t2')])
            from harness.synth import renumber_mfhd
            rn5 = d / 'rn5_v7.mp4'
            rn5.write_bytes(renumber_mfhd((REPO / 'tests' / 'fixtures' / 'bbb' / 'bbb_v7.mp4').read_bytes(), first=5, step=1))
            da.add_fixture('bbb', directory='rn5', title='fragments numbered from 5', only={'bbb_a1'}, extra=[(rn5, 'rn5_v7')])
            rn0 = d / 'rn0_v7.mp4'
            rn0.write_bytes(renumber_mfhd((REPO / 'tests' / 'fixtures' / 'bbb' / 'bbb_v7.mp4').read_bytes(), first=0, step=1))
            da.add_fixture('bbb', directory='rn0', title='fragments numbered from 0', only={'bbb_a1'}, extra=[(rn0, 'rn0_v7')])
            for name, periods in MPS_DEFS.items():
                da.add_mps(name=name, title=f'MPS {name}', periods=periods)
            drv = HttpDriver(da)
            c = drv.client
            nows = [datetime.datetime(2024, 3, 5, 12, 0, 0, tzinfo=datetime.timezone.utc) + datetime.timedelta(seconds=x)
                    for x in ([0, 31.5, 76, 77.25, 200.0] if tier_ == 'quick' else [0, 1, 31.5, 32, 44, 75.999, 76, 76.001, 77.25, 120, 152, 200, 3000.5])]
            tid = 0
            # second pass: the Period definitions are edited (new source offsets for the same rows) after their segments have been
            # served once - what number n delivers depends on the definition in force, not on what the process served before
            import copy
            edited = {k: copy.deepcopy(v) for k, v in MPS_DEFS.items() if k in ('mpsa', 'mpsc')}
            for k, v in edited.items():
                for pd_ in v:
                    pd_['start_s'] = pd_['start_s'] + 8

            def apply_edit() -> None:
                from dashlive.server import models
                with da.app.app_context():
                    for k, v in edited.items():
                        mps = models.MultiPeriodStream.get(name=k)
                        for prd in mps.periods:
                            pd_ = next(x for x in v if x['pid'] == prd.pid)
                            prd.start = datetime.timedelta(seconds=pd_['start_s'])
                    models.db.session.commit()
            for rnd, defs in enumerate((MPS_DEFS, edited)):
              if rnd == 1:
                  apply_edit()
              for name, periods in defs.items():
                for mode in (('vod', 'live') if rnd == 0 else ('vod',)):
                      # with a DRM selection a Period over a stream without encrypted files (tears) falls back to its clear files
                      for qs in (['depth=60'] + (['depth=60&drm=playready'] if name in ('mpsa', 'mpsc') else []) if tier_ == 'quick'
                                 else ['depth=60', 'depth=20&abr=0', 'depth=100&base=0', 'depth=60&drm=playready', 'depth=60&drm=all']):
                          for now in (nows if mode == 'live' else nows[:1]):
                              tid += 1
                              da.clock.set(now)
                              ast = now - datetime.timedelta(seconds=rng.choice([300, 1000, 86400 + 7]))
                              q = qs + (f'&start={ast.strftime("%Y-%m-%dT%H:%M:%SZ")}' if mode == 'live' else '')
                              url = f'http://localhost/mps/{mode}/{name}/hand_made.mpd?{q}'
                              r = c.get(path_of(url))
                              if r.status_code != 200:
                                  lines.append({'tid': tid, 'ev': 'refused', 'url': url, 'status': r.status_code,
                                                'exc': da.exceptions[-1] if da.exceptions else {}})
                                  continue
                              proj = M.project(r.data, url)
                              listed = []
                              pids = [p['id'] for p in proj['periods']]
                              base_ms = None
                              for i, p in enumerate(proj['periods']):
                                  st = (p['start'] or 0) // 1000
                                  if base_ms is None:
                                      base_ms = st
                                  dur = (p['duration'] // 1000) if p['duration'] is not None else 10**6
                                  listed.append({'idx': i, 'loop': 0, 'start': st - base_ms, 'dur': dur})
                              e_ms = fta_ms = 0
                              if mode == 'live':
                                  el = now - proj['availabilityStartTime']
                                  e_ms = int(el.total_seconds() * 1000) - base_ms
                                  fta_ms = e_ms - (proj['timeShiftBufferDepth'] or 0) // 1000
                              mpd_dur = (proj['mediaPresentationDuration'] or 0) // 1000
                              lines.append({'tid': tid, 'ev': 'mpd', 'mode': mode, 'url': url, 'now': now.isoformat(), 'listed': listed,
                                            'mpd_dur': mpd_dur, 'e': e_ms, 'fta': fta_ms,
                                            'ids_unique': 1 if len(set(pids)) == len(pids) else 0, 'pids': pids})
                              # media inside each listed period
                              for p in proj['periods']:
                                  pid0 = (p['id'] or '').split('_')[0]
                                  pdef = next((x for x in periods if x['pid'] == pid0), None)
                                  if pdef is None:
                                      lines.append({'tid': tid, 'ev': 'unknown_period', 'url': url, 'pid': p['id']})
                                      continue
                                  for adp in p['adaptation_sets']:
                                      for rep in adp['representations'][:1 if tier_ == 'quick' else 3]:
                                          tm = rep['template']
                                          if not (da.blob_folder / pdef['stream'] / f"{rep['id']}.mp4").exists():
                                              ri0 = c.get(path_of(urljoin(rep['base'], M.fill_template(tm['initialization'], rep['id'], rep['bandwidth'])))) if tm else None
                                              lines.append({'tid': tid, 'ev': 'foreign_rep', 'url': url, 'period': p['id'], 'rep': rep['id'], 'mode': mode,
                                                            'stream': pdef['stream'], 'init': ri0.status_code if ri0 is not None else 0})
                                              continue
                                          sf = stored(da.blob_folder / pdef['stream'] / f"{rep['id']}.mp4")
                                          if tm is None or '$Number$' not in (tm.get('media') or ''):
                                              continue
                                          ts, sn, D = int(tm['timescale']), int(tm['startNumber'] or 1), int(tm['duration'])
                                          offset = pdef['start_s'] * ts
                                          pdur = p['duration'] if p['duration'] is not None else int(pdef['duration_s'] * 10**6)
                                          admitted = (pdur * ts // 10**6) // D
                                          # nearest stored segment -> what the source still has
                                          starts = [s.tfdt - sf.segments[0].tfdt for s in sf.segments]
                                          m0 = min(range(len(starts)), key=lambda k: abs(starts[k] - offset)) + 1
                                          avail = len(sf.segments) - m0 + 1
                                          nlast = sn + min(admitted, avail) - 1
                                          ri = c.get(path_of(urljoin(rep['base'], M.fill_template(tm['initialization'], rep['id'], rep['bandwidth']))))
                                          keys, serve = [], []
                                          for n in range(sn, sn + min(admitted, avail) + 1):
                                              rr = c.get(path_of(urljoin(rep['base'], M.fill_template(tm['media'], rep['id'], rep['bandwidth'], number=n))))
                                              sv = {'status': rr.status_code, 'tfdt': 0, 'dur': 0, 'mod': 0, 'mods': [], 'payload_ok': 0, 'wf': 0}
                                              if rr.status_code == 200:
                                                  pm = project_media(rr.data, sf)
                                                  sv.update({'tfdt': pm['tfdt'], 'dur': pm['dur'], 'mod': pm['mod'], 'mods': pm['mods'],
                                                             'payload_ok': pm['payload_ok'], 'wf': pm['wf']})
                                              keys.append(n)
                                              serve.append(sv)
                                          nb = sn + avail
                                          rb = c.get(path_of(urljoin(rep['base'], M.fill_template(tm['media'], rep['id'], rep['bandwidth'], number=nb))))
                                          lines.append({'tid': tid, 'ev': 'rep', 'url': url, 'period': p['id'], 'rep': rep['id'], 'mode': mode, 'ts': ts,
                                                        'durs': sf.durs, 'sn': sn, 'D': D, 'offset': offset, 'nlast': nlast, 'init': ri.status_code,
                                                        'keys': keys, 'serve': serve, 'beyond': {'n': nb, 'status': rb.status_code}})
        vs, st = validate_trace('MultiPeriodTrace', lines, workdir=d, chunk=300, parallel=12)
        seen: set[str] = set()
        for v in vs:
            lo = v['lineobj']
            if not v['clause'].startswith('C12_'):
                continue
            case = {k: lo.get(k) for k in ('ev', 'mode', 'url', 'now', 'period', 'rep', 'offset', 'nlast', 'pids')}
            case['detail'] = v['detail']
            key = f"{v['clause']}|{lo.get('mode')}|{(lo.get('url') or '').split('?')[0]}|{lo.get('rep')}"
            if key in seen:
                continue
            seen.add(key)
            out.add(Violation('C12', v['clause'], case))
        reps = [x for x in lines if x['ev'] == 'rep']
        mpds = [x for x in lines if x['ev'] == 'mpd']
        other = [x for x in lines if x['ev'] not in ('rep', 'mpd', 'foreign_rep')]
        if len(reps) < 10 or len(mpds) < 6:
            raise MachineryFailure(f'too few walks: {len(reps)} reps, {len(mpds)} manifests; {other[:3]}')
        out.coverage.update({
            'states': ra.distinct, 'transitions': ra.generated, 'traces_validated_against_impl': len(reps) + len(mpds),
            'evaluations': sum(len(x['serve']) for x in reps) + len(mpds),
            'distinct_nontrivial': len({(x['rep'], x['period'], x['offset'], n) for x in reps for n in x['keys']}),
            'rule': 'one evaluation per segment request inside a Period plus one per manifest; distinct = distinct (representation, period, '
                    'source offset, number)',
            'exhaustive': False, 'manifests': len(mpds), 'period_rep_walks': len(reps), 'refused': len(other),
            'samples': [mpds[0], {k: reps[0][k] for k in reps[0] if k != 'serve'}],
            'bounds': f'3 multi-period definitions (1..3 periods over bbb/tears, starts on and off segment boundaries), vod + live at {len(nows)} clocks',
        })
        if other:
            out.notes.append('skipped: ' + '; '.join(sorted({f"{x['ev']} {x.get('status', '')} {x.get('url', '')[:70]} {(x.get('exc') or {}).get('type', '')}" for x in other})[:6]))
    return out.finish('model_checking')
