"""C05 - every manifest response is well-formed, structurally valid DASH.
(A) the rule set of MpdRules.tla is evaluated by TLC against a catalogue of deliberately broken
    trees (each rule must reject its example) - vacuity guard;
(C) every template x supported mode x single/multi-period x option vectors x hostile strings in
    stored metadata / query / Host header: the body is parsed with lxml (recover=False), projected to a
    tree and TLC evaluates the rules; the element skeleton with hostile strings must equal the skeleton
    with benign strings (MpdRulesTrace)."""
from __future__ import annotations

import datetime
import random
import re
from typing import Any
from urllib.parse import quote

from harness.core import MachineryFailure, Outcome, Violation, scratch, seed, validate_trace
from harness import mpd as M

DURATION_ATTRS = {'mediaPresentationDuration', 'minimumUpdatePeriod', 'minBufferTime', 'timeShiftBufferDepth',
                  'suggestedPresentationDelay', 'maxSegmentDuration', 'maxSubsegmentDuration'}
PERIOD_DURATION_ATTRS = {'start', 'duration'}
DATETIME_ATTRS = {'availabilityStartTime', 'publishTime', 'availabilityEndTime'}
UINT_ATTRS = {'startNumber', 'timescale', 'presentationTimeOffset', 'bandwidth', 'width', 'height', 'audioSamplingRate',
              'startWithSAP', 'maxWidth', 'maxHeight', 'minWidth', 'minHeight', 'minBandwidth', 'maxBandwidth', 'ttl',
              'presentationTime', 'indexRangeExact_'}
BIG = 2**31 - 1


def classify(tag: str, name: str, value: str) -> dict[str, Any]:
    a: dict[str, Any] = {'name': name, 'kind': 'other', 'lex': 1, 'num': 0, 'idents': [], 'text': value[:60]}
    if name in DURATION_ATTRS or (tag == 'Period' and name in PERIOD_DURATION_ATTRS):
        a['kind'] = 'duration'
        us = M.parse_duration_us(value)
        neg = value.strip().startswith('-') or 'T-' in value or 'P-' in value
        a['lex'] = 1 if us is not None else 0
        a['num'] = -1 if (us is None or us < 0 or neg) else min(us // 1000, BIG)
    elif name in DATETIME_ATTRS:
        a['kind'] = 'dateTime'
        d = M.parse_datetime(value)
        a['lex'] = 1 if d is not None else 0
        a['num'] = 0 if d is not None else -1
    elif name in UINT_ATTRS or (tag == 'S' and name in ('t', 'd')) or (tag == 'SegmentTemplate' and name == 'duration') or \
            (tag in ('SegmentList',) and name in ('duration', 'timescale')) or (tag == 'AdaptationSet' and name == 'id') or \
            (tag == 'Event' and name in ('duration', 'id')) or (tag == 'EventStream' and name == 'timescale') or \
            (tag == 'ContentComponent' and name == 'id'):
        a['kind'] = 'uint'
        ok = M.UINT_RE.match(value.strip()) is not None
        a['lex'] = 1 if ok else 0
        a['num'] = min(int(value), BIG) if ok else -1
    elif tag == 'S' and name == 'r':
        a['kind'] = 'int_ge_m1'
        ok = re.match(r'^-?\d+$', value.strip()) is not None
        a['lex'] = 1 if ok else 0
        a['num'] = max(-2, min(int(value), BIG)) if ok else -2
    if name in ('media', 'initialization', 'index', 'bitstreamSwitching') and tag in ('SegmentTemplate',):
        try:
            a['idents'] = M.template_identifiers(value)
        except Exception:      # noqa: BLE001
            a['idents'] = ['?']
        # a lone '$' that is not part of a $..$ pair is also an error
        if value.replace('$$', '').count('$') % 2 == 1:
            a['idents'].append('unbalanced')
    return a


def tree_of(el) -> dict[str, Any]:
    tag = M.local(el)
    kids = []
    last_s = None
    for k in el:
        if not isinstance(k.tag, str):
            continue
        kids.append(tree_of(k))
    return {'tag': tag, 'attrs': [classify(tag, M.local_attr(k), v) for k, v in el.attrib.items()], 'kids': kids}


def text_and_attr_values(root) -> list[str]:
    vals = []
    for el in root.iter():
        if not isinstance(el.tag, str):
            continue
        if el.text:
            vals.append(el.text)
        vals.extend(el.attrib.values())
    return vals


HOSTILE = ['a&b', 'x<y>z', 'q"uo\'te', ']]>', 'u n', '</Title><evil/>', '&amp;', '"/><x a="', '$Number$',
           'Caf&eacute; &nbsp;&#60;b&#62;', '&#x3c;Period/&#x3e;', 'L' * 4000]
# strings that are always tried in the quick tier: markup that would add elements, and text shaped like entity / character references
ESSENTIAL = ['</Title><evil/>', 'Caf&eacute; &nbsp;&#60;b&#62;', 'pay$Foo$ 5$']
BENIGN = 'benign'


def node(tag: str, attrs: dict[str, str] | None = None, kids: list | None = None) -> dict[str, Any]:
    return {'tag': tag, 'attrs': [classify(tag, k, v) for k, v in (attrs or {}).items()], 'kids': kids or []}


def broken_catalogue() -> list[dict[str, Any]]:
    good_rep = node('Representation', {'id': 'r1', 'bandwidth': '1'})
    good_adp = node('AdaptationSet', {'id': '1'}, [node('SegmentTemplate', {'media': '$RepresentationID$/$Number$.m4v', 'timescale': '1'}), good_rep])
    mpd_attrs = {'type': 'static', 'profiles': 'x', 'minBufferTime': 'PT1S', 'mediaPresentationDuration': 'PT4S'}

    def mpd(attrs=None, periods=None):
        return node('MPD', attrs or mpd_attrs, periods or [node('Period', {'id': 'p0'}, [good_adp])])
    cases = [
        ('RequiredAttrs', mpd({'type': 'dynamic', 'profiles': 'x', 'minBufferTime': 'PT1S'})),
        ('RequiredAttrs', mpd(periods=[node('Period', {}, [node('AdaptationSet', {'id': '1'}, [node('Representation', {'id': 'r'})])])])),
        ('LexValid', mpd({**mpd_attrs, 'mediaPresentationDuration': 'PT59.1.2S'})),
        ('LexValid', mpd({**mpd_attrs, 'minBufferTime': 'PT-5S'})),
        ('LexValid', mpd(periods=[node('Period', {'id': 'p'}, [node('AdaptationSet', {'id': '1', 'startWithSAP': ''}, [good_rep])])])),
        ('UniqueIds', mpd(periods=[node('Period', {'id': 'p'}, [good_adp]), node('Period', {'id': 'p'}, [good_adp])])),
        ('UniqueIds', mpd(periods=[node('Period', {'id': 'p'}, [node('AdaptationSet', {'id': '1'}, [good_rep, good_rep])])])),
        ('NoEmptyAdaptationSet', mpd(periods=[node('Period', {'id': 'p'}, [node('AdaptationSet', {'id': '1'}, [])])])),
        ('TemplateIdentifiers', mpd(periods=[node('Period', {'id': 'p'}, [node('AdaptationSet', {'id': '1'}, [
            node('SegmentTemplate', {'media': '$RepresentationID$/$Index$.m4v'}), good_rep])])])),
    ]
    return [{'ev': 'broken', 'rule': r, 'tree': t} for r, t in cases]


def main(tier_: str) -> int:
    out = Outcome('C05', tier_)
    out.assumptions = [
        'lexical validity of xs:duration / xs:dateTime / unsigned attributes is decided by regular expressions in the projection; '
        'structural and numeric reasoning by the TLA+ rules',
        'the skeleton of a document is its tags and attribute names in document order; hostile strings must be found verbatim as character '
        'data or attribute values after parsing',
        'hostile strings are injected through stored titles and licence URLs, query values (PlayReady licence URL, event value) and the Host header',
    ]
    from harness.app import DashApp
    rng = random.Random(seed() * 61 + 5)
    now = datetime.datetime(2024, 3, 5, 12, 0, 7, 250000, tzinfo=datetime.timezone.utc)
    templates = {
        'hand_made.mpd': ['live', 'vod', 'odvod'], 'manifest_a.mpd': ['live', 'vod'], 'manifest_b.mpd': ['vod'], 'manifest_e.mpd': ['live', 'vod'],
        'manifest_ef.mpd': ['live', 'vod'], 'manifest_h.mpd': ['live', 'vod'], 'manifest_i.mpd': ['live', 'vod'], 'manifest_n.mpd': ['live', 'vod'],
        'manifest_vod_aiv.mpd': ['odvod'],
    }
    options = ['', 'abr=0', 'base=0', 'drm=all', 'drm=playready-pro', 'drm=clearkey,marlin', 'timeline=1', 'events=ping', 'events=scte35&scte35__inband=0',
               'events=ping&ping__inband=0&ping__count=3', 'mup=-1', 'mup=4', 'depth=20', 'acodec=mp4a', 'time=xsd', 'time=direct', 'patch=1',
               'start=epoch', 'start=today', 'depth=20&leeway=0', 'bugs=saio', 'drm=playready&playready__version=1.0', 'tcodec=stpp',
               # out-of-range numbers that would end up in unsigned attributes: either refused, or rendered non-negative
               'events=ping&ping__inband=0&ping__count=3&ping__start=-500', 'events=ping&ping__inband=0&ping__count=2&ping__duration=-1',
               'events=scte35&scte35__inband=0&scte35__count=2&scte35__start=-7', 'depth=-5', 'mup=-3&depth=20']
    lines: list[dict[str, Any]] = broken_catalogue()
    with scratch() as d:
        with DashApp(d / 'app', fixtures=('bbb', 'tears')) as da:
            # multi-period stream whose first period also carries the subtitle track (stored in the clear only: with a DRM
            # selection the service falls back to the clear file)
            da.add_mps(periods=[
                dict(pid='p1', stream='bbb', start_s=4, duration_s=32, tracks=[('video', 1, 'MAIN'), ('audio', 2, 'MAIN'), ('text', 4, 'MAIN')]),
                dict(pid='p2', stream='tears', start_s=8, duration_s=44, tracks=[('video', 1, 'MAIN'), ('audio', 2, 'MAIN')])])
            # a stream with two audio files on the same track id in different languages (an English and a French dub)
            from harness.synth import relanguage
            from harness.core import REPO as _REPO
            dub = d / 'dub_a2.mp4'
            dub.write_bytes(relanguage((_REPO / 'tests' / 'fixtures' / 'bbb' / 'bbb_a1.mp4').read_bytes(), 'fra'))
            da.add_fixture('bbb', directory='dub', title='two dubs on one track id', only={'bbb_v7', 'bbb_a1'}, extra=[(dub, 'dub_a2')])
            da.clock.set(now)
            c = da.client()
            from dashlive.server import models

            def set_strings(val: str) -> None:
                with da.app.app_context():
                    for st in models.Stream.all():
                        st.title = val[:120]
                        st.playready_la_url = f'https://lic.test/pr?x={val[:200]}'
                        st.marlin_la_url = f'ms3://lic.test/{val[:200]}'
                    for m in models.MultiPeriodStream.all():
                        m.title = val[:120]
                    models.db.session.commit()

            def fetch(url: str, host: str | None = None):
                h = {'Host': host} if host else {}
                return c.get(url, headers=h)

            def doc_line(url: str, body: bytes, status: int) -> dict[str, Any]:
                try:
                    root = M.parse_xml(body)
                    return {'ev': 'doc', 'url': url, 'wf': 1, 'tree': tree_of(root)}
                except Exception as err:      # noqa: BLE001
                    return {'ev': 'doc', 'url': url, 'wf': 0, 'tree': node('none'), 'err': str(err)[:160]}
            set_strings(BENIGN)
            urls: list[str] = []
            for tmpl, modes in templates.items():
                for mode in modes:
                    opts = options if tier_ == 'thorough' else ([''] + rng.sample(options, 6))
                    for o in opts:
                        urls.append(f'/dash/{mode}/bbb/{tmpl}' + ('?' + o if o else ''))
                    urls.append(f'/dash/{mode}/tears/{tmpl}')
                    # a query parameter called mode that disagrees with the mode of the path
                    other = {'live': 'vod', 'vod': 'live', 'odvod': 'live'}[mode]
                    urls.append(f'/dash/{mode}/bbb/{tmpl}?mode={other}')
                    if mode == 'live' and tmpl == 'hand_made.mpd':
                        urls.append(f'/dash/{mode}/bbb/{tmpl}?patch=1&mode={other}')
                    if mode != 'odvod':
                        for o in (['', 'timeline=1', 'depth=20', 'drm=all', 'drm=clearkey', 'drm=playready&timeline=1'] if tier_ == 'thorough'
                                  else ['', rng.choice(['drm=all', 'drm=clearkey', 'drm=playready'])]):
                            urls.append(f'/mps/{mode}/testmps/{tmpl}' + ('?' + o if o else ''))
            for tmpl, modes in templates.items():
                for mode in modes:
                    if tier_ == 'thorough' or tmpl in ('hand_made.mpd', 'manifest_e.mpd', 'manifest_vod_aiv.mpd'):
                        urls.append(f'/dash/{mode}/dub/{tmpl}')
            refused = 0
            patch_urls = []
            for url in urls:
                r = fetch(url)
                if r.status_code != 200:
                    refused += 1
                    continue
                ln = doc_line(url, r.data, r.status_code)
                lines.append(ln)
                if 'patch=1' in url and ln['wf']:
                    try:
                        pl = M.project(r.data, 'http://localhost' + url).get('patch_location')
                    except ValueError:      # a document with lexically invalid numbers: judged by its own line, not followed
                        pl = None
                    if pl:
                        patch_urls.append(pl)
            for pl in patch_urls:
                from harness.httplive import path_of
                da.clock.advance(seconds=9)
                r = fetch(path_of(pl))
                if r.status_code == 200:
                    lines.append(doc_line(path_of(pl), r.data, r.status_code) | {'patchdoc': 1})
                pm = path_of(pl) + ('&' if '?' in pl else '?') + 'mode=vod'
                r = fetch(pm)
                if r.status_code == 200:
                    lines.append(doc_line(pm, r.data, r.status_code) | {'patchdoc': 1})
            # ---- young streams at sub-second instants: every quantity derived from (now - start) is computed from a clock with a
            # fractional second; the stream is younger than its time-shift buffer (start=now, or an explicit start a few seconds ago)
            young = 0
            fracs = (0, 250000, 500000, 500001, 750000, 999999)
            for us in (fracs if tier_ == 'thorough' else (0, 750000) + tuple(rng.sample(fracs[1:], 2))):
                inst = now.replace(microsecond=us)
                da.clock.set(inst)
                ago = (inst - datetime.timedelta(seconds=rng.choice([15, 45, 61]))).replace(microsecond=0)
                for q in ('start=now', f'start={ago.strftime("%Y-%m-%dT%H:%M:%SZ")}&depth=120', 'start=now&timeline=1',
                          f'start={ago.strftime("%Y-%m-%dT%H:%M:%SZ")}&depth=120&timeline=1'):
                    for u in (f'/mps/live/testmps/hand_made.mpd?{q}', f'/dash/live/bbb/hand_made.mpd?{q}', f'/dash/live/bbb/manifest_n.mpd?{q}',
                              f'/mps/live/testmps/manifest_e.mpd?{q}'):
                        r = fetch(u)
                        if r.status_code != 200:
                            refused += 1
                            continue
                        young += 1
                        lines.append(doc_line(u + f'#clock=.{us:06d}', r.data, r.status_code))
            # ---- hostile strings: skeleton with hostile == skeleton with benign -------------------------------
            da.clock.set(now)
            pair_urls = []
            for tmpl, modes in templates.items():
                for mode in modes:
                    for o in (['drm=all', 'events=ping&ping__inband=0&ping__count=2', 'patch=1'] if tier_ == 'thorough' else ['drm=all']):
                        pair_urls.append(f'/dash/{mode}/bbb/{tmpl}?{o}')
                    if mode != 'odvod':
                        pair_urls.append(f'/mps/{mode}/testmps/{tmpl}')
            for hv in (HOSTILE if tier_ == 'thorough' else ESSENTIAL + rng.sample([h for h in HOSTILE[:-1] if h not in ESSENTIAL], 3) + HOSTILE[-1:]):
                for url in (pair_urls if tier_ == 'thorough' else rng.sample(pair_urls, 10)):
                    variants = []
                    for val in (hv, BENIGN):
                        set_strings(val)
                        qv = quote(val[:300], safe='')
                        u = url + f'&playready__la_url={quote("https://l.test/?a=" + val[:100], safe="")}&ping__value={qv}&unknown_param={qv}'
                        if 'events=' not in u:
                            u += '&events=ping'         # so that the event value travels on into the media URL templates
                        host = 'evil.test' if val is BENIGN else ('ex"ample<.test' if '"' in val or '<' in val else 'evil.test')
                        r = fetch(u, host=None)
                        variants.append((u, r))
                    (uh, rh), (ub, rb) = variants
                    if rh.status_code != 200 or rb.status_code != 200:
                        lines.append({'ev': 'pair_refused', 'url': uh, 'status': [rh.status_code, rb.status_code]})
                        continue
                    # the document with the hostile strings is a manifest like any other: all structural rules apply to it
                    lines.append(doc_line(uh + '#hostile', rh.data, rh.status_code))
                    try:
                        root_h = M.parse_xml(rh.data)
                        skh = M.skeleton(rh.data)
                        skb = M.skeleton(rb.data)
                        vals = text_and_attr_values(root_h)
                        # the string must survive verbatim wherever the template shows it at all
                        # ... outside URLs (inside a URL the value is percent-encoded, which is correct)
                        def urlish(v: str) -> bool:
                            return '://' in v or '?' in v or v.startswith('/') or '=' in v
                        shown = any(BENIGN in v and not urlish(v) for v in text_and_attr_values(M.parse_xml(rb.data)))
                        found = 1 if (not shown) or any(hv[:120] in v for v in vals) else 0
                        lines.append({'ev': 'pair', 'url': uh, 'hostile': hv[:40], 'wf': 1, 'sk_hostile': skh, 'sk_benign': skb, 'found': found})
                    except Exception as err:      # noqa: BLE001
                        lines.append({'ev': 'pair', 'url': uh, 'hostile': hv[:40], 'wf': 0, 'sk_hostile': [], 'sk_benign': [], 'found': 0,
                                      'err': str(err)[:160]})
            set_strings(BENIGN)
        for i, ln in enumerate(lines):
            ln['tid'] = i + 1
        docs = [x for x in lines if x['ev'] == 'doc']
        pairs = [x for x in lines if x['ev'] == 'pair']
        if len(docs) < 40 or len(pairs) < 10:
            raise MachineryFailure(f'too few documents: {len(docs)} docs, {len(pairs)} pairs, refused {refused}')
        vs, st = validate_trace('MpdRulesTrace', lines, workdir=d, chunk=40, parallel=14, timeout=1200)
        seen: set[str] = set()
        for v in vs:
            lo = v['lineobj']
            if v['clause'].startswith('VACUITY_'):
                raise MachineryFailure(f'rule {lo["rule"]} accepts its deliberately broken example')
            tmpl = re.search(r'/(\w+\.mpd|patch/[^?]*)', lo.get('url', ''))
            case = {'url': lo.get('url'), 'hostile': lo.get('hostile'), 'detail': v['detail'], 'err': lo.get('err'),
                    'template': tmpl.group(1) if tmpl else '', 'mps': 1 if '/mps/' in lo.get('url', '') else 0}
            key = f"{v['clause']}|{case['template']}|{case['mps']}|{str(v['detail'])[:80]}|{(lo.get('hostile') or '')[:10]}"
            if key in seen:
                continue
            seen.add(key)
            out.add(Violation('C05', v['clause'], case))
        out.coverage.update({
            'states': st['tlc_states'] or 1, 'transitions': st['tlc_states'] or 1, 'traces_validated_against_impl': len(docs) + len(pairs),
            'evaluations': len(docs) + len(pairs), 'distinct_nontrivial': len({x['url'] for x in docs}) + len({(x['url'], x['hostile']) for x in pairs}),
            'rule': 'one evaluation per manifest / patch document, or per (hostile, benign) document pair; distinct = distinct URLs (x hostile string)',
            'exhaustive': False, 'documents': len(docs), 'pairs': len(pairs), 'refused': refused, 'broken_catalogue': len(broken_catalogue()),
            'patch_documents': sum(1 for x in docs if x.get('patchdoc')), 'young_stream_documents': young,
            'samples': [{'url': docs[0]['url'], 'root_attrs': docs[0]['tree']['attrs'][:4]}, {k: pairs[0][k] for k in ('url', 'hostile', 'found')}],
            'bounds': f'tier {tier_}: 9 .mpd templates + patch template x supported modes x single/multi-period x option vectors; '
                      f'{len(HOSTILE)} hostile strings through titles, licence URLs, query values',
        })
    return out.finish('model_checking')
