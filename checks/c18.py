"""C18 - the bundled validator accepts what the server generates and flags injected corruptions.

(A) TLC ValidatorFaultsMC: the session protocol (load / validate / sleep / refresh) with an adversary
    that rewrites exactly one response; design properties (single fault, reported <=> applied at the
    end, termination) and vacuity witnesses.  The same model emits the abstract session grid
    (configuration class x fault family x occurrence).
(B) every abstract case is instantiated with concrete templates / option vectors / byte- or
    text-level patchers (harness/faults.py) and run as a real DashValidator session against the real
    application through an in-process HTTP adapter (harness/validator.py); pristine sessions
    additionally sweep the option vectors the registry declares for every template x mode.
(C) every session's observable steps are logged and replayed by TLC through the model's actions
    (ValidatorFaultsTrace): adversary schedule and protocol order must be the model's, and the
    verdict clauses C18_Terminates / NoFalsePositive / Detects / Located are evaluated on the
    observed outcome."""
from __future__ import annotations

import hashlib
import json
import os
import random
import re
from concurrent.futures import ProcessPoolExecutor
from pathlib import Path
from typing import Any

from harness.core import MachineryFailure, Outcome, Violation, run_tlc, scratch, seed, tlc_must_pass, validate_trace

NOWS = ['2023-01-01T12:00:00Z', '2024-02-29T23:59:30Z', '2023-06-15T03:04:05.25Z']

NAME_WORDS = {
    'decode_time': ['tfdt', 'decode time', 'decode_time', 'basemediadecodetime', 'decodetime'],
    'sequence_number': ['mfhd', 'sequence'],
    'trun_offset': ['trun', 'mdat', 'data_offset', 'data offset'],
    'saio_offset': ['saio', 'senc', 'auxiliary', 'cenc'],
    'timeline_gap': ['timeline', 'gap', 's@t', 'discontinuity', 'start time'],
    'ast_changed': ['availabilitystarttime'],
    'patch_attr': ['patch'],
}

# abstract configuration class -> concrete (template, mode, query fragments)
TIMELINE_TEMPLATES = ['hand_made.mpd', 'manifest_a.mpd', 'manifest_n.mpd']
DRM_TEMPLATES = ['hand_made.mpd', 'manifest_e.mpd', 'manifest_h.mpd', 'manifest_i.mpd', 'manifest_ef.mpd', 'manifest_n.mpd',
                 'manifest_b.mpd']
DRMS = ['all', 'playready', 'clearkey', 'marlin', 'playready-cenc', 'clearkey-moov', 'playready-pro', 'all-cenc-moov']


def instantiate(case: dict, rng: random.Random, supported: dict[str, set[str]]) -> dict | None:
    """one concrete session for an abstract case of the model's grid"""
    live, enc, tl, patch = case['live'], case['encrypted'], case['timeline'], case['patch']
    mode = 'live' if live else rng.choice(['vod', 'vod', 'odvod'])
    cands = [t for t, modes in supported.items() if mode in modes]
    if patch:
        cands = [t for t in cands if t == 'hand_made.mpd']
    if tl:
        cands = [t for t in cands if t in TIMELINE_TEMPLATES]
    if enc:
        cands = [t for t in cands if t in DRM_TEMPLATES]
    if mode == 'odvod' and (enc or tl):
        cands = [t for t in cands if t == 'hand_made.mpd']
    if not cands:
        return None
    tmpl = rng.choice(sorted(cands))
    q: list[str] = []
    if enc:
        drm = rng.choice(DRMS)
        if mode == 'odvod':
            drm = rng.choice(['all', 'playready', 'clearkey', 'marlin', 'playready-cenc'])
        q.append(f'drm={drm}')
    if tl:
        q.append('timeline=1')
    if patch:
        q.append('patch=1')
    fam = case['family']
    needs_refresh = live and (fam == 'ast_changed' or (fam in ('timeline_gap', 'mpd_attr') and case['nth'] >= 1) or patch)
    duration = 16
    if live:
        if needs_refresh:
            q.append('depth=30')
            duration = 30 + 16 * (case['nth'] + 1)
            # with and without MPD@minimumUpdatePeriod (mup=-1 omits it): the cross-refresh checks must not depend on it
            mup = rng.choice(['', '', 'mup=-1', 'mup=4'])
            if mup and not patch:
                q.append(mup)
        elif rng.random() < 0.3:
            q.append(f'depth={rng.choice([30, 40, 120])}')
    return {'tmpl': tmpl, 'mode': mode, 'query': '&'.join(q), 'encrypted': bool(enc), 'duration': duration,
            'now': rng.choice(NOWS), 'live': live, 'timeline': tl, 'patch': patch}


def fault_names(family: str) -> list[str]:
    from harness.faults import CATALOGUE
    return sorted(n for n, v in CATALOGUE.items() if v['family'] == family)


TRACK_FILTERS = {'video': r'bbb_v\d', 'audio': r'bbb_a\d', 'text': r'bbb_t\d'}


def make_fault(name: str, nth: int, track: str | None = None, after_refresh: int = 0):
    from harness.faults import CATALOGUE
    from harness.validator import Fault
    ent = CATALOGUE[name]
    return Fault(name=name, target=ent['target'], rewrite=ent['patch'], nth=nth, family=ent['family'],
                 min_occ=1 if 'refresh' in ent.get('needs', ()) else 0,
                 url_filter=TRACK_FILTERS.get(track) if ent['target'] in ('init', 'media') else None,
                 # segment faults may be armed only after a number of refreshes: the nth segment served from then on is
                 # the first (second, ...) segment that is new in the refreshed manifest
                 min_manifests=(1 + after_refresh) if after_refresh and ent['target'] == 'media' else 0)


# ---- locating errors -----------------------------------------------------------------------
def _ranges_for_rep(manifests: list[bytes], lines_final: list[str], rep_id: str, filename: str) -> list[tuple[int, int]]:
    from lxml import etree
    out = []
    docs = list(manifests)
    if lines_final:
        docs.append('\n'.join(lines_final).encode('utf-8'))
    for doc in docs:
        try:
            root = etree.fromstring(doc)
        except Exception:
            continue

        def maxline(e, cur):
            if e.sourceline is not None:
                cur = max(cur, e.sourceline)
            for c in e:
                cur = maxline(c, cur)
            return cur
        for aset in root.iter('{*}AdaptationSet'):
            hit = False
            for rep in aset.iter('{*}Representation'):
                if rep.get('id') == rep_id:
                    hit = True
                for b in rep.iter('{*}BaseURL'):
                    if b.text and (filename in b.text or rep_id in b.text):
                        hit = True
            if hit:
                out.append((aset.sourceline, maxline(aset, aset.sourceline)))
    return out


def _elt_lines(doc: bytes, elt_line: int, element: str) -> tuple[int, int]:
    """(sourceline of the corrupted element, sourceline of its parent) as lxml numbers them (the
    validator uses lxml too: for a start tag spanning several lines that is the line it ends on)"""
    from lxml import etree
    try:
        root = etree.fromstring(doc)
    except Exception:
        return elt_line, elt_line
    best = None
    for e in root.iter('{*}' + element):
        if e.sourceline is not None and e.sourceline >= elt_line:
            if best is None or e.sourceline < best.sourceline:
                best = e
    if best is None:
        return elt_line, elt_line
    par = best.getparent()
    return best.sourceline, (par.sourceline if par is not None and par.sourceline else best.sourceline)


def locate(res: dict) -> list[dict]:
    """project every reported error to (at_elt, at_url, names) relative to the injected fault"""
    f = res.get('fault')
    errs = res['errors']
    if not f or not f['applied']:
        return [{'at_elt': 0, 'at_url': 0, 'names': 0} for _ in errs]
    info = f['info']
    url = f['url']
    path = url.split('?')[0]
    filename = path.rsplit('/', 1)[-1]
    fam = f['family']
    words = list(NAME_WORDS.get(fam, []))
    if 'box' in info:
        words.append(info['box'].lower())
    if 'attr' in info:
        a = info['attr'].lower()
        words.append('@' + a)
        if len(a) >= 6:
            words.append(a)
    ranges: list[tuple[int, int]] = []
    parent_line = None
    elt_sl = None
    if f['target'] in ('init', 'media'):
        parts = path.rstrip('/').split('/')
        rep_id = parts[-2] if len(parts) >= 2 else ''
        stem = filename.rsplit('.', 1)[0]
        if res['mode'] == 'odvod':
            rep_id = stem
        ranges = _ranges_for_rep(res['manifests'], res['manifest_lines'], rep_id, filename)
    else:
        elt_sl, parent_line = _elt_lines(res.get('faulted_doc') or b'', info.get('elt_line', -1), info.get('element', 'MPD'))
    out = []
    for e in errs:
        msg = e['msg'].lower()
        loc = e['location']
        s, t = (loc + [None, None])[:2]
        at_elt = 0
        if s is not None:
            if ranges:
                at_elt = 1 if any(a <= s <= b for a, b in ranges) else 0
            elif parent_line is not None:
                # the element itself, its parent, or a range inside the parent that covers the element
                if s in (elt_sl, parent_line) or (t is not None and s <= elt_sl <= t and s >= parent_line):
                    at_elt = 1
        at_url = 1 if (filename and filename.lower() in msg) or url.lower() in msg else 0
        # a word names the box / attribute only as a whole token: '@d' is not found in 'SegmentTemplate@duration'
        names = 1 if any(re.search(r'(?<![a-z0-9_])' + re.escape(w) + r'(?![a-z0-9_])', msg) for w in words) else 0
        out.append({'at_elt': at_elt, 'at_url': at_url, 'names': names})
    return out


# ---- worker --------------------------------------------------------------------------------
def run_batch(args: tuple[str, list[dict]]) -> list[dict]:
    workdir, sessions = args
    import logging
    logging.disable(logging.CRITICAL)
    from harness.app import DashApp
    from harness import validator as V
    results = []
    with DashApp(Path(workdir), fixtures=('bbb',)) as da:
        for s in sessions:
            da.clock.set(s['now'])
            fault = make_fault(s['fault'], s['nth'], s.get('track'), s.get('after_refresh', 0)) if s.get('fault') else None
            url = f"http://unit.test/dash/{s['mode']}/bbb/{s['tmpl']}" + (('?' + s['query']) if s['query'] else '')
            n_exc = len(da.exceptions)
            res = V.run_session(da, url, s['mode'], s['encrypted'], s['duration'], fault=fault,
                                max_loops=s.get('max_loops', 30), representation_info=s.get('repinfo', True))
            res['server_exceptions'] = [str(x)[:200] for x in da.exceptions[n_exc:]][:3]
            if fault is not None and fault.applied_url and fault.target in ('manifest', 'patch'):
                res['faulted_doc'] = fault.rewritten
            loc = locate(res)
            lines: list[dict[str, Any]] = [{
                'ev': 'begin', 'live': int(s['live']), 'encrypted': int(s['encrypted']), 'timeline': int(s['timeline']),
                'patch': int(s['patch']), 'family': s.get('family', 'none'), 'nth': s['nth'], 'fault': s.get('fault') or '',
                'url': url, 'now': s['now'], 'duration': s['duration']}]
            for ev in res['events']:
                lines.append(dict(ev))
            applied = 1 if res['fault'] and res['fault']['applied'] else 0
            # has an earlier media segment of the same Representation been fetched in this session?
            pred = 0
            if res['fault'] and res['fault']['applied'] and res['fault']['target'] == 'media':
                furl = res['fault']['url'].split('?')[0]
                fdir = furl.rsplit('/time/', 1)[0] if '/time/' in furl else furl.rsplit('/', 1)[0]
                for fe in res['fetches']:
                    u0 = fe['url'].split('?')[0]
                    if u0 == furl:
                        break
                    if fe['kind'] == 'media' and fe['status'] in (200, 206) and s['mode'] != 'odvod' and \
                            (u0.rsplit('/time/', 1)[0] if '/time/' in u0 else u0.rsplit('/', 1)[0]) == fdir:
                        pred = 1
            lines.append({'ev': 'end', 'target': (res['fault'] or {}).get('target') or 'none', 'pred': pred,
                          'finished': 1 if res.get('finished') else 0, 'crash': 1 if res['crash'] else 0,
                          'crash_text': res['crash'], 'applied': applied, 'nerr': len(res['errors']),
                          'errors': loc[:40], 'loops': res['loops'],
                          'messages': [f"{e['msg'][:160]} [{e['file']}:{e['line']}] @{e['location']}" for e in res['errors'][:6]],
                          'fault_info': {k: str(v)[:120] for k, v in (res['fault']['info'] if res['fault'] else {}).items()},
                          'server_exceptions': res['server_exceptions']})
            results.append({'session': s, 'lines': lines,
                            'nfetch': len(res['fetches']), 'loops': res['loops'], 'applied': applied})
    return results


def main(tier_: str) -> int:
    out = Outcome('C18', tier_)
    out.assumptions = [
        'the validator is driven as upstream drives it (tests/mixins/check_manifest.py): load, then validate / sleep / refresh until finished(), '
        'with the database\'s representation info handed to it after every load; unlike upstream the loop does not stop at the first error',
        'asyncio.sleep is virtual: it advances the application clock; the worker pool runs tasks inline, so a session is one deterministic schedule',
        'an error is "located at the corrupted element": for a media segment that follows an already fetched segment of the same '
        'Representation, when its message quotes the segment\'s own name (every MediaSegment error is prefixed with it; an error about a '
        'neighbouring segment does not count); for the first segment of a Representation, init segments and manifests, when '
        'its line range lies in the owning AdaptationSet/Representation (or is the corrupted element / its parent), or its message quotes the '
        'URL / file name, or names the corrupted box / attribute - the weakest reading',
        'a session whose fault never found an applicable response (occurrence beyond the session) is a pristine session: no errors expected',
        'termination is judged within 30 validate loops (upstream allows 100 for live, 2 otherwise)',
    ]
    rng = random.Random(seed() * 131 + 18)
    with scratch() as d:
        ra = run_tlc('ValidatorFaultsMC', 'ValidatorFaultsMC.cfg', workdir=d, workers=16, timeout=900)
        tlc_must_pass(ra, 'ValidatorFaultsMC (A)')
        for w in ('SomeAppliedDone', 'SomeCleanDone', 'SomeUnappliedFault'):
            rw = run_tlc('ValidatorFaultsMC', f'ValidatorFaultsMC_{w}.cfg', workdir=d, workers=4, timeout=300)
            if rw.invariant_violated() != w:
                raise MachineryFailure(f'vacuity witness {w} not reachable in the model')
        re_ = run_tlc('ValidatorFaultsMC', 'ValidatorFaultsMC_emit.cfg', workdir=d, workers=1, timeout=300)
        tlc_must_pass(re_, 'case emission')
        cases = re_.tagged('CASE')
        if len(cases) < 200:
            raise MachineryFailure(f'only {len(cases)} cases emitted')
        # registry
        import logging
        logging.disable(logging.CRITICAL)
        from harness.app import DashApp
        with DashApp(d / 'probe', fixtures=()) as da:
            from dashlive.server.manifests import manifest_map
            supported = {name: set(m.supported_modes()) for name, m in manifest_map.items()}
            combos: dict[tuple[str, str], list[str]] = {}
            combos_full: dict[tuple[str, str], list[str]] = {}
            with da.app.app_context():
                for name, m in manifest_map.items():
                    for mode in sorted(m.supported_modes()):
                        combos[(name, mode)] = list(m.get_supported_dash_options(mode, simplified=True).cgi_query_combinations())
                        if tier_ == 'thorough':
                            full = m.get_supported_dash_options(mode, simplified=False)
                            it = full.cgi_query_combinations()
                            acc = []
                            for i, c in enumerate(it):
                                acc.append(c)
                                if i >= 4000:
                                    break
                            combos_full[(name, mode)] = acc
        sessions: list[dict] = []
        reps = 1 if tier_ == 'quick' else 4
        skipped = 0
        for case in cases:
            names = fault_names(case['family']) if case['family'] != 'none' else [None]
            for _ in range(reps):
                conc = instantiate(case, rng, supported)
                if conc is None:
                    skipped += 1
                    continue
                picks = names if tier_ == 'thorough' else [rng.choice(names)]
                for nm in picks:
                    s = dict(conc)
                    s.update(family=case['family'], nth=case['nth'], fault=nm)
                    if nm:
                        from harness.faults import CATALOGUE
                        needs = CATALOGUE[nm].get('needs', ())
                        if 'live' in needs and not s['live']:
                            continue
                        if CATALOGUE[nm]['target'] in ('init', 'media'):
                            # the order in which the validator fetches the tracks of a period is not
                            # deterministic (sets of awaitables): the track is part of the schedule instead
                            tracks = ['video', 'audio'] if case['family'] == 'saio_offset' else ['video', 'audio', 'text']
                            for tr in (tracks if tier_ == 'thorough' else [rng.choice(tracks)]):
                                s2 = dict(s)
                                s2['track'] = tr
                                sessions.append(s2)
                                if s['live'] and CATALOGUE[nm]['target'] == 'media' and case['nth'] <= 1 and (tier_ == 'thorough' or rng.random() < 0.5):
                                    # the same fault in the first / second segment that is new after a refresh
                                    s3 = dict(s2)
                                    s3['after_refresh'] = 1
                                    q3 = [x for x in s3['query'].split('&') if x and not x.startswith('depth=')] + ['depth=30']
                                    s3['query'] = '&'.join(q3)
                                    s3['duration'] = 62
                                    sessions.append(s3)
                            continue
                    sessions.append(s)
        # refresh-edge sessions (both tiers): the corruption sits in the first / second segment that is new after a refresh,
        # where only the history of the session tells the validator what to expect
        for tmpl, q, fault_nm in (('hand_made.mpd', 'depth=30', 'tfdt_plus3'), ('hand_made.mpd', 'depth=30', 'tfdt_minus2'),
                                  ('manifest_n.mpd', 'timeline=1&depth=30', 'mfhd_plus7'), ('manifest_a.mpd', 'depth=30', 'mfhd_minus1'),
                                  ('manifest_e.mpd', 'depth=30', 'tfdt_plus3'), ('hand_made.mpd', 'timeline=1&depth=30', 'mfhd_plus7')):
            for track in ('video', 'audio'):
                for nth in (0, 1):
                    from harness.faults import CATALOGUE as _CAT
                    sessions.append({'tmpl': tmpl, 'mode': 'live', 'query': q, 'encrypted': False, 'duration': 62, 'now': NOWS[(nth + len(track)) % len(NOWS)],
                                     'live': True, 'timeline': 'timeline=1' in q or tmpl in ('manifest_a.mpd', 'manifest_n.mpd') and False,
                                     'patch': False, 'family': _CAT[fault_nm]['family'], 'nth': nth, 'fault': fault_nm, 'track': track,
                                     'after_refresh': 1})
        # occurrences deep into the session (thorough): the model's nth is unbounded in the trace spec
        if tier_ == 'thorough':
            for fam in ('decode_time', 'sequence_number', 'trun_offset', 'init_box'):
                for nth in (3, 5, 8):
                    for case in [c for c in cases if c['family'] == fam and c['nth'] == 0]:
                        conc = instantiate(case, rng, supported)
                        if conc:
                            s = dict(conc)
                            s.update(family=fam, nth=nth, fault=rng.choice(fault_names(fam)), track=rng.choice(['video', 'audio', 'text']))
                            sessions.append(s)
        # pristine sweep over the registry's option vectors
        per = 3 if tier_ == 'quick' else 60
        for (name, mode), cs in sorted(combos.items()):
            pool = list(cs)
            pick = [pool[0]] + rng.sample(pool, min(per, len(pool)))
            if tier_ == 'thorough':
                fl = combos_full.get((name, mode), [])
                pick += rng.sample(fl, min(per, len(fl)))
            for qs in dict.fromkeys(pick):
                query = qs.lstrip('?')
                enc = 'drm=' in query and 'drm=none' not in query
                extra = []
                if mode == 'live' and rng.random() < 0.5:
                    extra.append(f'depth={rng.choice([24, 30, 60, 90])}')
                if mode == 'live' and rng.random() < 0.3:
                    extra.append(f'mup={rng.choice([4, 8, 30])}')
                if rng.random() < 0.3 and mode == 'live':
                    extra.append(f'start={rng.choice(["today", "epoch", "month", "year"])}')
                query = '&'.join([x for x in [query] + extra if x])
                sessions.append({'tmpl': name, 'mode': mode, 'query': query, 'encrypted': enc,
                                 'duration': rng.choice([8, 16, 40]) if mode == 'live' else 16,
                                 'now': rng.choice(NOWS), 'live': mode == 'live', 'timeline': 'timeline=1' in query,
                                 'patch': 'patch=1' in query, 'family': 'none', 'nth': 0, 'fault': None})
        for i, s in enumerate(sessions):
            s['sid'] = i + 1
        # ---- run (process pool, one application instance per worker) ---------------------------
        nw = min(14, max(1, (os.cpu_count() or 2) - 2))
        chunks: list[list[dict]] = [[] for _ in range(nw * 4)]
        for i, s in enumerate(sessions):
            chunks[i % len(chunks)].append(s)
        jobs = [(str(d / f'w{i}'), ch) for i, ch in enumerate(chunks) if ch]
        if os.environ.get('VERIF_KEEP'):
            (Path(os.environ['VERIF_KEEP']) / f'c18-plan-{tier_}.json').write_text(json.dumps(chunks))
        results: list[dict] = []
        import multiprocessing as mp
        with ProcessPoolExecutor(max_workers=nw, mp_context=mp.get_context('fork')) as ex:
            for part in ex.map(run_batch, jobs):
                results.extend(part)
        results.sort(key=lambda r: r['session']['sid'])
        lines: list[dict] = []
        for r in results:
            for ln in r['lines']:
                ln['tid'] = r['session']['sid']
                lines.append(ln)
        vs, st = validate_trace('ValidatorFaultsTrace', lines, workdir=d, chunk=4000, parallel=12)
        by_sid = {r['session']['sid']: r for r in results}
        seen: set[str] = set()
        drift: dict[str, int] = {}
        drift_samples: list[dict] = []
        for v in vs:
            lo = v['lineobj']
            r = by_sid[lo['tid']]
            s = r['session']
            if v['clause'].startswith('DRIFT_'):
                drift[v['clause']] = drift.get(v['clause'], 0) + 1
                if len(drift_samples) < 6:
                    drift_samples.append({'clause': v['clause'], 'detail': v['detail'], 'line': {k: lo.get(k) for k in ('ev', 'kind', 'url', 'offers', 'faulted')},
                                          'session': {k: s.get(k) for k in ('tmpl', 'mode', 'query', 'fault', 'nth')}})
                continue
            end = r['lines'][-1]
            sig_msgs = sorted({re.sub(r'\d+', 'N', m)[:70] for m in end['messages']})[:3]
            case = {'template': s['tmpl'], 'mode': s['mode'], 'query': s['query'], 'now': s['now'], 'duration': s['duration'],
                    'track': s.get('track') or '', 'after_refresh': s.get('after_refresh', 0), 'fault': s.get('fault') or 'none', 'family': s.get('family', 'none'), 'nth': s['nth'],
                    'finished': end['finished'], 'crash': end['crash_text'], 'nerr': end['nerr'], 'messages': end['messages'],
                    'fault_info': end['fault_info'], 'applied': end['applied'], 'loops': end['loops'],
                    'server_exceptions': end['server_exceptions'], 'detail': v['detail']}
            key = f"{v['clause']}|{s.get('fault')}|{s.get('track')}|{s['mode']}|{s['tmpl']}|{end['crash_text'][:60]}|{sig_msgs}"
            if key in seen:
                continue
            seen.add(key)
            out.add(Violation('C18', v['clause'], case))
        if drift:
            raise MachineryFailure(f'model and harness disagree on the session protocol / fault schedule: {drift} {json.dumps(drift_samples)[:3000]}')
        faulted = [r for r in results if r['session'].get('fault')]
        applied = [r for r in faulted if r['applied']]
        fams_applied = sorted({r['session']['family'] for r in applied})
        from harness.faults import FAMILIES
        missing = sorted(set(FAMILIES) - set(fams_applied))
        if missing:
            raise MachineryFailure(f'fault families never applied in any session: {missing}')
        multi = [r for r in results if r['loops'] >= 2]
        if not multi:
            raise MachineryFailure('no session needed a refresh')
        out.coverage.update({
            'states': ra.distinct, 'transitions': ra.generated, 'traces_validated_against_impl': len(results),
            'evaluations': len(results), 'distinct_nontrivial': len({(r['session']['tmpl'], r['session']['mode'], r['session']['query'], r['session'].get('fault'), r['session']['nth']) for r in results}),
            'rule': 'one evaluation per validator session (template, mode, option vector, clock, fault, occurrence)',
            'exhaustive': False, 'abstract_cases': len(cases), 'abstract_cases_without_concrete_template': skipped,
            'pristine_sessions': len(results) - len(faulted), 'faulted_sessions': len(faulted), 'fault_applied': len(applied),
            'fault_never_offered': len(faulted) - len(applied),
            'applied_by_fault': {n: sum(1 for r in applied if r['session']['fault'] == n) for n in sorted({r['session']['fault'] for r in faulted})},
            'sessions_with_refresh': len(multi), 'responses_fetched': sum(r['nfetch'] for r in results),
            'trace_lines': len(lines),
            'templates': sorted({r['session']['tmpl'] for r in results}),
            'bounds': f'tier {tier_}: {len(results)} sessions; occurrences 0..2 from the model' + (' plus 3, 5, 8' if tier_ == 'thorough' else ''),
        })
    return out.finish('fault_enumeration')
