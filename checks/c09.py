"""C09 - successive manifests and MPD patches evolve consistently.
(A) TLC RefreshMC: timelines of the implementation-shaped model at e and e + delta;
(B) the same pairs on the real Representation.generateSegmentTimeline;
(C) pairs / chains of real manifests and patches at controlled clocks; the patch is applied to the
    T1 document by the harness's own minimal XML-patch implementation; TLC validates (RefreshTrace)."""
from __future__ import annotations

import copy
import datetime
import random
import re
from typing import Any

from lxml import etree

from harness.core import MachineryFailure, Outcome, Violation, run_tlc, scratch, seed, tlc_must_pass, validate_trace
from harness import mpd as M

EPOCH = datetime.datetime(1970, 1, 1, tzinfo=datetime.timezone.utc)
PNS = 'urn:mpeg:dash:schema:mpd-patch:2020'


def inst(d: datetime.datetime | None) -> dict[str, int]:
    if d is None:
        return {'d': -1, 's': 0, 'u': 0}
    x = d - EPOCH
    return {'d': x.days, 's': x.seconds, 'u': x.microseconds}


def rebase(tl1, tl2):
    ts = [x['t'] for x in tl1] + [x['t'] for x in tl2]
    b = min(ts) if ts else 0
    return [{'t': x['t'] - b, 'd': x['d']} for x in tl1], [{'t': x['t'] - b, 'd': x['d']} for x in tl2]


def resolve(root, sel: str):
    """tiny XPath subset: /A/B[@id='x']/C[1] and a trailing /@attr"""
    parts = [p for p in sel.strip().split('/') if p]
    attr = None
    if parts and parts[-1].startswith('@'):
        attr = parts.pop()[1:]
    cur = [None]
    first = True
    for p in parts:
        m = re.match(r"^([\w:]+)(?:\[@(\w+)='([^']*)'\])?(?:\[(\d+)\])?$", p)
        if not m:
            raise MachineryFailure(f'unsupported selector step {p!r} in {sel!r}')
        name, an, av, idx = m.groups()
        nxt = []
        for c in cur:
            cands = [root] if first else [k for k in c if isinstance(k.tag, str)]
            hits = [k for k in cands if M.local(k) == name and (an is None or k.get(an) == av)]
            if idx is not None:
                hits = hits[int(idx) - 1:int(idx)]
            nxt.extend(hits)
        cur = nxt
        first = False
    return cur, attr


def apply_patch(doc_bytes: bytes, patch_bytes: bytes) -> tuple[bytes, dict[str, Any]]:
    root = M.parse_xml(doc_bytes)
    patch = M.parse_xml(patch_bytes)
    info = {'mpdId': patch.get('mpdId'), 'originalPublishTime': patch.get('originalPublishTime'), 'publishTime': patch.get('publishTime'),
            'ops': 0, 'unresolved': 0}
    for op in patch:
        if not isinstance(op.tag, str) or M.local(op) != 'replace':
            continue
        targets, attr = resolve(root, op.get('sel'))
        if len(targets) != 1:
            info['unresolved'] += 1
            continue
        info['ops'] += 1
        t = targets[0]
        if attr is not None:
            t.set(attr, (op.text or '').strip())
        else:
            new = [k for k in op if isinstance(k.tag, str)]
            if len(new) != 1:
                info['unresolved'] += 1
                continue
            # the replacement arrives in the patch namespace: rebuild it in the MPD namespace (by local name)
            def rebuild(src):
                e = etree.Element(M.q(M.local(src)), nsmap={None: M.NS})
                for ak, av in src.attrib.items():
                    e.set(ak, av)
                e.text = src.text
                for k in src:
                    if isinstance(k.tag, str):
                        ch = rebuild(k)
                        ch.tail = k.tail
                        e.append(ch)
                return e
            n = rebuild(new[0])
            n.tail = t.tail
            t.getparent().replace(t, n)
    return etree.tostring(root), info


def timelines(proj) -> list[list[dict[str, int]]]:
    out = []
    for p in proj['periods']:
        for a in p['adaptation_sets']:
            if a['representations']:
                out.append(a['representations'][0]['timeline'] or [])
    return out


def main(tier_: str) -> int:
    out = Outcome('C09', tier_)
    out.assumptions = [
        'two manifests "agree" when every start they both list has the same duration and neither lists a start strictly inside a '
        'segment of the other',
        'patches are applied by the harness\'s own replace-only XML-patch applier (XPath subset: child steps, [@id=..], [n], /@attr); replaced '
        'SegmentTimeline elements are compared by local name',
        'AdaptationSet order identifies timelines when comparing the patched and the full document',
    ]
    from harness.app import DashApp
    from harness.purelayer import PureLayer
    rng = random.Random(seed() * 71 + 9)
    with scratch() as d:
        ra = run_tlc('RefreshMC', f'RefreshMC_{tier_}.cfg', workdir=d, workers=16, timeout=1800)
        tlc_must_pass(ra, 'RefreshMC (A)')
        re_ = run_tlc('LiveWindowMC', 'LiveWindowMC_quick_emit.cfg', workdir=d, workers=16, timeout=900, heap='8g')
        tlc_must_pass(re_, 'layout emission')
        L = re_.tagged('L')[0]
        import logging
        logging.disable(logging.CRITICAL)
        pl = PureLayer(L['layouts'], L['q'])
        q = L['q']
        lines: list[dict[str, Any]] = []
        deltas = [1, 2, q - 1, q, 4 * q - 1, 4 * q, 4 * q + 1, 8 * q, 20 * q - 1, 20 * q, 20 * q + 1, 33 * q, 61 * q]
        npairs = 2500 if tier_ == 'quick' else 40000
        for _ in range(npairs):
            lay = rng.choice(sorted(L['layouts']))
            e = rng.randrange(1, 47 * q)
            o = {'depth': rng.choice([5, 12, 30, 0]), 'leeway': 0}
            dl = rng.choice(deltas)
            obs = []
            for ee in (e, e + dl):
                ref, timing, rep = pl.make(lay, ee, o)
                obs.append((pl.expand(rep.generateSegmentTimeline()), timing.publishTime, timing.availabilityStartTime))
            t1, t2 = rebase(obs[0][0], obs[1][0])
            lines.append({'ev': 'pair', 'layer': 'pure', 'lay': lay, 'e': e, 'dl': dl, 'o': o, 'tl1': t1, 'tl2': t2,
                          'pub1': inst(obs[0][1]), 'pub2': inst(obs[1][1]), 'ast1': inst(obs[0][2]), 'ast2': inst(obs[1][2])})
        npure = len(lines)
        # ---- HTTP ------------------------------------------------------------------------------
        base = datetime.datetime(2024, 2, 29, 23, 57, 0, tzinfo=datetime.timezone.utc)
        dsecs = [0.001, 0.5, 1, 3.999, 4, 7.9, 8, 8.001, 16, 29, 30, 31, 39.98, 40, 40.5, 120, 200, 1199, 1201, 3601]
        vecs = []
        for tmpl in ('hand_made.mpd', 'manifest_a.mpd', 'manifest_n.mpd'):
            for start in ('2024-02-29T23:50:00Z', 'epoch', 'today', 'year', '2024-02-29T23:50:00.500Z', '2024-02-29T20:20:00-03:30'):
                for opts in ('depth=30', 'depth=20&mup=4', 'depth=60&mup=-1', 'depth=30&abr=0'):
                    vecs.append((tmpl, f'start={start}&{opts}&timeline=1'))
        if tier_ == 'quick':
            vecs = rng.sample(vecs, 14)
        with DashApp(d / 'app', fixtures=('bbb',)) as da:
            c = da.client()
            for tmpl, qs in vecs:
                for ds in (rng.sample(dsecs, 5) if tier_ == 'quick' else dsecs):
                    t1 = base + datetime.timedelta(seconds=rng.choice([0, 0.25, 2.0, 3.5, 180.75]))
                    t2 = t1 + datetime.timedelta(seconds=ds)
                    docs = []
                    for tt in (t1, t2):
                        da.clock.set(tt)
                        url = f'/dash/live/bbb/{tmpl}?{qs}'
                        r = c.get(url)
                        docs.append(r)
                    if docs[0].status_code != 200 or docs[1].status_code != 200:
                        lines.append({'ev': 'refused', 'url': url})
                        continue
                    p1 = M.project(docs[0].data, 'http://localhost' + url)
                    p2 = M.project(docs[1].data, 'http://localhost' + url)
                    tss = [int(a['representations'][0]['template']['timescale']) for p in p1['periods'] for a in p['adaptation_sets'] if a['representations']]
                    shift_s = int((p2['availabilityStartTime'] - p1['availabilityStartTime']).total_seconds())
                    for a, b, ts in zip(timelines(p1), timelines(p2), tss):
                        # S@t is relative to availabilityStartTime: when the (symbolic) start moved between the two
                        # requests, the later list is expressed on the time axis of the earlier one
                        b = [{'t': x['t'] + shift_s * ts, 'd': x['d']} for x in b]
                        x1, x2 = rebase(a, b)
                        lines.append({'ev': 'pair', 'layer': 'http', 'url': url, 't1': t1.isoformat(), 't2': t2.isoformat(), 'tl1': x1, 'tl2': x2,
                                      'pub1': inst(p1['publishTime']), 'pub2': inst(p2['publishTime']),
                                      'ast1': inst(p1['availabilityStartTime']), 'ast2': inst(p2['availabilityStartTime'])})
            # symbolic starts away from midnight: pairs across the edges of an hour and of a minute in the middle of the day
            # (what a symbolic start resolves to must not depend on the minute or the hour of the request)
            noon = datetime.datetime(2024, 3, 5, 13, 59, 58, 250000, tzinfo=datetime.timezone.utc)
            hv = [(st, o) for st in ('today', 'month', 'year', 'epoch') for o in ('depth=30', 'depth=20&mup=4')]
            for st, o in (hv if tier_ == 'thorough' else [('today', 'depth=30')] + rng.sample(hv, 3)):
                for back, ds in (((0, 4.5), (90, 95.25), (0, 3600 + 5), (3400, 3404.5)) if tier_ == 'thorough' else ((0, 4.5), rng.choice([(90, 95.25), (0, 3605)]))):
                    t1 = noon - datetime.timedelta(seconds=back)
                    t2 = t1 + datetime.timedelta(seconds=ds)
                    url = f'/dash/live/bbb/hand_made.mpd?start={st}&{o}&timeline=1'
                    docs = []
                    for tt in (t1, t2):
                        da.clock.set(tt)
                        docs.append(c.get(url))
                    if docs[0].status_code != 200 or docs[1].status_code != 200:
                        lines.append({'ev': 'refused', 'url': url})
                        continue
                    p1 = M.project(docs[0].data, 'http://localhost' + url)
                    p2 = M.project(docs[1].data, 'http://localhost' + url)
                    tss = [int(a['representations'][0]['template']['timescale']) for p in p1['periods'] for a in p['adaptation_sets'] if a['representations']]
                    shift_s = int((p2['availabilityStartTime'] - p1['availabilityStartTime']).total_seconds())
                    for a, b, ts in zip(timelines(p1), timelines(p2), tss):
                        b = [{'t': x['t'] + shift_s * ts, 'd': x['d']} for x in b]
                        x1, x2 = rebase(a, b)
                        lines.append({'ev': 'pair', 'layer': 'http', 'url': url, 't1': t1.isoformat(), 't2': t2.isoformat(), 'tl1': x1, 'tl2': x2,
                                      'pub1': inst(p1['publishTime']), 'pub2': inst(p2['publishTime']),
                                      'ast1': inst(p1['availabilityStartTime']), 'ast2': inst(p2['availabilityStartTime'])})
            # patches (hand_made only): T1 manifest with patch=1, its PatchLocation fetched at T2
            pv = [f'start={s}&{o}&patch=1' for s in ('2024-02-29T23:50:00Z', 'epoch', 'today', '2024-02-29T23:50:00.500Z', '2024-02-29T22:10:07.250Z',
                                                              '2024-02-29T20:20:00-03:30', '2024-03-01T05:20:00%2B05:30')
                  for o in ('depth=30', 'depth=20&mup=4', 'depth=45&drm=all')]
            # the manifest reload counter a player sends when it follows the MPD's own <Location> (update=<n>)
            pv_upd = ['start=2024-02-29T23:50:00Z&depth=30&patch=1&update=1', 'start=epoch&depth=20&mup=4&patch=1&update=7']
            # a stream with option defaults of its own (time-shift buffer 60 s, update period 6 s): options a request spells out - also
            # with the value of the global default - are the options of the manifest, hence of the patch its PatchLocation names
            da.add_fixture('bbb', directory='sdef', title='stream with its own option defaults', only={'bbb_v7', 'bbb_a1'},
                           defaults={'timeShiftBufferDepth': 60, 'minimumUpdatePeriod': 6})
            pv_def = [('sdef', 'start=2024-02-29T23:50:00Z&depth=1800&patch=1'), ('sdef', 'start=2024-02-29T23:50:00Z&patch=1'),
                      ('sdef', 'start=2024-02-29T23:50:00Z&depth=1800&mup=8&patch=1'), ('sdef', 'start=epoch&depth=40&patch=1')]
            pvs = [('bbb', x) for x in (pv + pv_upd if tier_ == 'thorough' else
                                        rng.sample(pv[:9], 3) + rng.sample(pv[9:15], 2) + rng.sample(pv[15:], 2) + pv_upd[:1])]
            pvs += pv_def if tier_ == 'thorough' else pv_def[:2] + rng.sample(pv_def[2:], 1)
            for stream_p, qs in pvs:
                for ds in (rng.sample(dsecs, 6 if stream_p == 'bbb' else 3) if tier_ == 'quick' else dsecs):
                    t1 = base + datetime.timedelta(seconds=rng.choice([0, 0.25, 2.0, 3.5, 180.75]))
                    t2 = t1 + datetime.timedelta(seconds=ds)
                    url = f'/dash/live/{stream_p}/hand_made.mpd?{qs}'
                    da.clock.set(t1)
                    r1 = c.get(url)
                    if r1.status_code != 200:
                        lines.append({'ev': 'refused', 'url': url})
                        continue
                    p1 = M.project(r1.data, 'http://localhost' + url)
                    if not p1['patch_location']:
                        lines.append({'ev': 'nopatch', 'url': url})
                        continue
                    from harness.httplive import path_of
                    # a patch session: the PatchLocation of the document the client holds is fetched, the patch applied, and the
                    # patched document is the one the next patch applies to (chain of up to three patches, each compared with the
                    # full manifest of its instant)
                    doc, pd, ta, tb = r1.data, p1, t1, t2
                    for chain in (1, 2, 3):
                        da.clock.set(tb)
                        rp = c.get(path_of(pd['patch_location']))
                        r2 = c.get(url)
                        if rp.status_code != 200 or r2.status_code != 200:
                            lines.append({'ev': 'patch_refused', 'url': url, 'patch_url': pd['patch_location'], 'status': rp.status_code, 'chain': chain,
                                          'full_status': r2.status_code, 't1': ta.isoformat(), 't2': tb.isoformat(),
                                          'exc': da.exceptions[-1] if da.exceptions else {}})
                            break
                        patched, info = apply_patch(doc, rp.data)
                        pp = M.project(patched, 'http://localhost' + url)
                        p2 = M.project(r2.data, 'http://localhost' + url)
                        tp, tf = timelines(pp), timelines(p2)
                        allt = [x['t'] for tl in tp + tf for x in tl]
                        b = min(allt) if allt else 0
                        rb = lambda tls: [[{'t': x['t'] - b, 'd': x['d']} for x in tl] for tl in tls]    # noqa: E731
                        lines.append({'ev': 'patch', 'url': url, 't1': ta.isoformat(), 't2': tb.isoformat(), 'patch_url': pd['patch_location'], 'chain': chain,
                                      'id_eq': 1 if info['mpdId'] == pd['id'] else 0,
                                      'orig_pub': inst(M.parse_datetime(info['originalPublishTime'] or '')), 'pub1': inst(pd['publishTime']),
                                      'pub_patched': inst(pp['publishTime']), 'pub_full': inst(p2['publishTime']),
                                      'loc_eq': 1 if pp['patch_location'] == p2['patch_location'] and pp['patch_ttl'] == p2['patch_ttl'] else 0,
                                      'tls_patched': rb(tp), 'tls_full': rb(tf), 'ops': info['ops'], 'unresolved': info['unresolved'],
                                      'ast_moved': 0 if pd['availabilityStartTime'] == p2['availabilityStartTime'] else 1})
                        if not pp['patch_location'] or pp['publishTime'] != p2['publishTime']:
                            break        # the session has already parted from the full manifests: later steps would repeat the report
                        doc, pd, ta = patched, pp, tb
                        tb = tb + datetime.timedelta(seconds=rng.choice([2, 4.5, 8, 13, 29]))
            # ---- (D) player sessions: chains of refreshes and in-order fetches through time ------------------------
            from harness.httplive import HttpDriver
            from harness.session import play
            rps = run_tlc('PlayerSessionMC', 'PlayerSessionMC.cfg', workdir=d, workers=8, timeout=600)
            tlc_must_pass(rps, 'PlayerSessionMC')
            for w in ('SomeLate404', 'SomeSkip'):
                rw = run_tlc('PlayerSessionMC', f'PlayerSessionMC_{w}.cfg', workdir=d, workers=4, timeout=300)
                if rw.invariant_violated() != w:
                    raise MachineryFailure(f'player session witness {w} not reachable')
            drv = HttpDriver(da)
            slines: list[dict[str, Any]] = []
            starts = [datetime.datetime(2024, 2, 29, 23, 58, 40, tzinfo=datetime.timezone.utc),        # across a day boundary
                      datetime.datetime(2024, 3, 5, 12, 0, 21, 500000, tzinfo=datetime.timezone.utc)]  # across a loop seam of the source
            scfgs = [('hand_made.mpd', 'timeline=1&depth=30&start=2024-02-29T20:00:00Z'), ('manifest_n.mpd', 'depth=20&start=today'),
                     ('manifest_a.mpd', 'depth=45&start=epoch'), ('hand_made.mpd', 'timeline=1&depth=30&drm=all&start=2024-02-29T23:50:00.500Z'),
                     ('hand_made.mpd', 'timeline=1&depth=20&mup=4&start=year')]
            nsess = 0
            for tmpl_s, qs_s in (scfgs if tier_ == 'thorough' else rng.sample(scfgs, 3)):
                for t0 in starts:
                    nsess += 1
                    slines += play(drv, 10**6 + nsess, 'bbb', tmpl_s, qs_s, t0, 30 if tier_ == 'quick' else 120, rng)
        for i, ln in enumerate(lines):
            ln['tid'] = i + 1
        svs, sst = validate_trace('PlayerSessionTrace', slines, workdir=d, chunk=1500, parallel=8)
        for v in svs:
            lo = v['lineobj']
            case = {'ev': 'session', 'layer': 'session', 'url': lo.get('url'), 't1': lo.get('now'), 'rep': lo.get('rep'), 'step': lo['ev'],
                    'detail': v['detail']}
            out.add(Violation('C09', v['clause'], case))
        out.coverage['player_sessions'] = {'sessions': nsess, 'lines': len(slines), 'manifests': sum(1 for x in slines if x['ev'] == 'manifest'),
                                           'fetches': sum(1 for x in slines if x['ev'] == 'fetch'),
                                           'fetches_200': sum(1 for x in slines if x['ev'] == 'fetch' and x['status'] == 200),
                                           'late_fetches': sum(1 for x in slines if x['ev'] == 'fetch' and not x['same_instant']),
                                           'skips': sum(1 for x in slines if x['ev'] == 'fetch' and x['skipped']),
                                           'model_states': rps.distinct}
        if not any(x['ev'] == 'fetch' and x['status'] == 200 for x in slines):
            raise MachineryFailure('player sessions fetched nothing')
        vs, st = validate_trace('RefreshTrace', lines, workdir=d, chunk=1500, parallel=12)
        seen: set[str] = set()
        for v in vs:
            lo = v['lineobj']
            case = {k: lo.get(k) for k in ('ev', 'layer', 'lay', 'e', 'dl', 'o', 'url', 't1', 't2', 'patch_url', 'ops', 'unresolved', 'ast_moved', 'chain')}
            case['detail'] = v['detail']
            key = f"{v['clause']}|{lo.get('layer')}|{lo.get('lay')}|{(lo.get('url') or '')[:60]}"
            if key in seen:
                continue
            seen.add(key)
            out.add(Violation('C09', v['clause'], case))
        patches = [x for x in lines if x['ev'] == 'patch']
        pairs = [x for x in lines if x['ev'] == 'pair']
        other = [x for x in lines if x['ev'] not in ('pair', 'patch')]
        if not patches:
            raise MachineryFailure(f'no patch could be exercised: {other[:3]}')
        out.coverage.update({
            'states': ra.distinct, 'transitions': ra.generated, 'traces_validated_against_impl': len(lines),
            'evaluations': len(lines), 'distinct_nontrivial': len({(str(x['tl1'][:2]), str(x['tl2'][:2]), len(x['tl1']), len(x['tl2'])) for x in pairs if x['tl1'] and x['tl2']}),
            'rule': 'one evaluation per (T1, T2) pair of one Representation, or per patch; distinct = distinct pairs of (first entries, lengths) of the two timelines',
            'exhaustive': False, 'pure_pairs': npure, 'http_pairs': len(pairs) - npure, 'patches': len(patches), 'patch_chain_steps': {str(k): sum(1 for x in patches if x.get('chain') == k) for k in (1, 2, 3)},
            'patch_ops_applied': sum(x['ops'] for x in patches), 'patch_unresolved': sum(x['unresolved'] for x in patches),
            'refused_or_skipped': len(other),
            'samples': [pairs[0], {k: patches[0][k] for k in patches[0] if k not in ('tls_patched', 'tls_full')}],
            'bounds': f'tier {tier_}: deltas from 1/40 s to 61 s (pure layer), 1 ms to 1 h incl. a loop of the source, a day boundary and the patch ttl (HTTP)',
        })
        if other:
            out.notes.append('skipped: ' + '; '.join(sorted({f"{x['ev']} {x.get('url', '')[:80]} {x.get('status', '')} {(x.get('exc') or {}).get('type', '')}" for x in other})[:8]))
    return out.finish('model_checking')
