"""C13 - byte-range requests return exactly the requested bytes.
(A) TLC HttpRangeMC (exhaustive small scope); (B) the emitted table on the real
get_http_range in a Flask request context; (C) every range-capable URL kind x header
families around the real length + malformed strings; validated by HttpRangeTrace."""
from __future__ import annotations

import datetime
import io
import random
import re
from typing import Any

from harness.core import MachineryFailure, Outcome, Violation, run_tlc, scratch, seed, tlc_must_pass, validate_trace

RFC_SINGLE = re.compile(r'^bytes=([0-9]+)-([0-9]+)$')
RFC_FROM = re.compile(r'^bytes=([0-9]+)-$')
RFC_SUFFIX = re.compile(r'^bytes=-([0-9]+)$')
CR = re.compile(r'^bytes (\d+)-(\d+)/(\d+)$')
CR_STAR = re.compile(r'^bytes \*/(\d+)$')
BIG = 2**31 - 1


def classify(raw: str | None) -> dict[str, Any]:
    """RFC 7233 grammar (case-insensitive unit, no white space, ASCII digits)."""
    z = {'kind': 'other', 'a': 0, 'b': 0, 'n': 0}
    if raw is None:
        return {**z, 'kind': 'absent'}
    s = raw
    low = s[:6].lower() + s[6:]
    m = RFC_SINGLE.match(low)
    if m and m.group(1).isascii() and m.group(2).isascii():
        return {**z, 'kind': 'single', 'a': min(int(m.group(1)), BIG), 'b': min(int(m.group(2)), BIG)}
    m = RFC_FROM.match(low)
    if m and m.group(1).isascii():
        return {**z, 'kind': 'from', 'a': min(int(m.group(1)), BIG)}
    m = RFC_SUFFIX.match(low)
    if m and m.group(1).isascii():
        return {**z, 'kind': 'suffix', 'n': min(int(m.group(1)), BIG)}
    return z


def header_text(h: dict[str, Any]) -> str | None:
    k = h['kind']
    if k == 'absent':
        return None
    if k == 'single':
        return f"bytes={h['a']}-{h['b']}"
    if k == 'from':
        return f"bytes={h['a']}-"
    if k == 'suffix':
        return f"bytes=-{h['n']}"
    return 'items=0-1'


def project(status: int, headers: dict[str, str], body: bytes, full: bytes | None, L: int) -> dict[str, Any]:
    r = {'status': status, 'cr': 'none', 'first': 0, 'last': 0, 'clen': 0, 'blen': len(body), 'slice_ok': 0,
         'full_ok': 1 if full is not None and body == full else 0}
    cr = headers.get('Content-Range')
    if cr:
        m = CR.match(cr)
        if m:
            r['cr'] = 'range'
            a, b, n = (int(x) for x in m.groups())
            r['first'], r['last'], r['clen'] = min(a, BIG), min(b, BIG), min(n, BIG)
            if full is not None and 0 <= a <= b and body == full[a:b + 1]:
                r['slice_ok'] = 1
        else:
            m = CR_STAR.match(cr)
            if m:
                r['cr'] = 'star'
                r['clen'] = min(int(m.group(1)), BIG)
            else:
                r['cr'] = 'bad'
    return r


MALFORMED = ['bytes=', 'bytes=-', 'bytes=--5', 'bytes=5--', 'bytes=a-b', 'bytes=1-2x', 'bytes=1-2,4-5', 'bytes=0-0,-1',
             'items=0-5', 'bytes 0-5', 'bytes=0x10-0x20', 'bytes=1.5-3', 'bytes= 1 - 2', 'bytes=+1-+3', 'bytes=1_0-2_0',
             'bytes=٣-٥', 'BYTES=0-3', 'bytes=0-3 ', ' bytes=0-3', 'bytes=0-99999999999999999999999',
             'bytes=99999999999999999999-', 'bytes=-99999999999999999999999', 'bytes=1-2-3', 'bytes==1-2', 'none',
             '', 'bytes=-0', 'bytes=5-2', 'bytes=\t1-2', 'bytes=1;2', 'bytes=٣-']


def main(tier_: str) -> int:
    out = Outcome('C13', tier_)
    out.assumptions = [
        'a Range header is classified by the projection with the strict RFC 7233 grammar; anything else is "other" (non-single)',
        'for non-single headers 400, 416 with bytes */L, 200 with the full body, or a self-consistent 206 are all accepted',
        'initialization segments are outside the property ("media segments and on-demand media files"): they ignore Range, which RFC 7233 permits',
        'the body of a 416 response is not constrained (the statement only requires `bytes */length`)',
    ]
    from harness.app import DashApp
    with scratch() as d:
        ra = run_tlc('HttpRangeMC', 'HttpRangeMC.cfg', workdir=d, workers=1, timeout=600)
        tlc_must_pass(ra, 'HttpRangeMC (A)')
        # the same invariants over unbounded integers (SMT): every header integer / length, resp. every whole-second part
        from harness.core import run_apalache, apalache_must_not_refute
        apa = run_apalache('HttpRangeApa', workdir=d)
        apalache_must_not_refute(apa, 'HttpRangeApa')
        out.coverage['apalache_unbounded'] = {k: v for k, v in apa.items() if k != 'tail'}
        table = ra.tagged('S')
        lines: list[dict[str, Any]] = []
        rng = random.Random(seed() * 13 + 13)
        with DashApp(d / 'app', fixtures=('bbb',)) as da:
            from dashlive.server.requesthandler.base import RequestHandlerBase
            hb = RequestHandlerBase()
            tid = 0
            # (B) pure layer: the exhaustive table + the same header shapes at large lengths
            big = []
            for L in (1000, 65536, 2**31 - 10):
                for kind, vals in (('single', [(0, 0), (0, L - 1), (0, L), (L - 1, L - 1), (L - 1, L + 5), (L, L), (L, L + 1), (5, 2), (L - 2, 2 * L)]),
                                   ('from', [(0, 0), (L - 1, 0), (L, 0), (L + 1, 0)]),
                                   ('suffix', [(0, 0), (1, 0), (L - 1, 0), (L, 0), (L + 1, 0), (2 * L, 0)])):
                    for a, b in vals:
                        h = {'kind': kind, 'a': 0, 'b': 0, 'n': 0}
                        if kind == 'suffix':
                            h['n'] = a
                        else:
                            h['a'], h['b'] = a, b
                        big.append({'h': h, 'L': L})
            for row in table + big:
                tid += 1
                h, L = row['h'], row['L']
                txt = header_text(h)
                hdrs = {} if txt is None else {'Range': txt}
                with da.app.test_request_context('/x', headers=hdrs):
                    try:
                        start, end, status, rh = hb.get_http_range(L)
                        if start is None:
                            r = {'status': 200, 'cr': 'none', 'first': 0, 'last': 0, 'clen': L, 'blen': L, 'slice_ok': 0, 'full_ok': 1}
                        else:
                            r = project(status, rh, b'', None, L)
                            if status == 206:
                                # the callers return full[start:end+1]; at this layer the slice is
                                # judged arithmetically
                                ok = 0 <= start <= end < L and r['first'] == start and r['last'] == end
                                r['blen'] = (end - start + 1) if ok else 0
                                r['slice_ok'] = 1 if ok else 0
                                r['full_ok'] = 1 if ok and start == 0 and end == L - 1 else 0
                    except ValueError:
                        r = {'status': 400, 'cr': 'none', 'first': 0, 'last': 0, 'clen': 0, 'blen': 0, 'slice_ok': 0, 'full_ok': 0}
                    except Exception as err:
                        r = {'status': 500, 'cr': 'none', 'first': 0, 'last': 0, 'clen': 0, 'blen': 0, 'slice_ok': 0, 'full_ok': 0,
                             'exc': type(err).__name__}
                hc = {k: (min(v, BIG) if isinstance(v, int) else v) for k, v in h.items()}
                lines.append({'tid': tid, 'layer': 'pure', 'h': hc, 'L': L, 'mandatory': 0, 'raw': txt or '', 'r': r})
            npure = len(lines)
            # (C) HTTP
            da.clock.set(datetime.datetime(2024, 3, 5, 12, 0, 0, tzinfo=datetime.timezone.utc))
            da.add_fixture('tears')
            da.add_mps()
            c = da.client()
            live_n = int(datetime.datetime(2024, 3, 5, 12, 0, 0, tzinfo=datetime.timezone.utc).timestamp()) // 4 - 3     # 4 s segments since the epoch
            urls = [('/dash/vod/bbb/bbb_v7/3.m4v', 0), ('/dash/vod/bbb/bbb_a1/time/352256.m4a', 0),
                    ('/dash/vod/bbb/bbb_t1/2.mp4', 0), (f'/dash/live/bbb/bbb_v7/{live_n}.m4v?start=epoch&depth=60', 0),
                    ('/dash/vod/bbb/bbb_v7_enc/2.m4v?drm=all', 0),
                    ('/dash/vod/bbb/bbb_v7/2.m4v?vcorrupt=2', 0),      # the body is rewritten in place (corrupted NAL units) before it is sliced
                    ('/dash/odvod/bbb/bbb_a1.m4a', 1), ('/dash/odvod/bbb/bbb_t1.mp4', 1),
                    ('/dash/odvod/bbb/bbb_v6.m4v', 1)]        # 1.8 MB: slices of more than a megabyte
            with da.app.app_context():
                from dashlive.server import models
                ppk = models.db.session.query(models.Period).first().pk
            urls.append((f'/mps/vod/testmps/{ppk}/bbb_v7/2.m4v', 0))
            usable = 0
            for url, mandatory in urls:
                if mandatory:
                    # the reference bytes of an on-demand resource are the stored file itself, not a response
                    fr = c.get(url, headers={'Range': 'bytes=0-'})
                    stem = url.rsplit('/', 1)[-1].split('.')[0]
                    disk = da.blob_folder / 'bbb' / f'{stem}.mp4'
                    full = disk.read_bytes() if fr.status_code == 206 and disk.exists() else None
                else:
                    fr = c.get(url)
                    full = fr.data if fr.status_code == 200 else None
                if full is None:
                    out.notes.append(f'range URL not usable: {url} -> {fr.status_code}')
                    continue
                usable += 1
                L = len(full)
                accepts = fr.headers.get('Accept-Ranges') == 'bytes' or mandatory
                if not accepts:
                    out.notes.append(f'{url}: no Accept-Ranges header; checked anyway')
                pts = sorted({0, 1, 2, L // 2, L - 2, L - 1, L, L + 1, 2 * L})
                raws: list[str | None] = [None]
                fam = [(a, b) for a in pts for b in pts]
                if tier_ == 'quick':
                    fam = rng.sample(fam, 30) + [(0, L - 1), (0, L), (L - 1, L + 100), (L - 5, L + 100), (L, L), (1, 0)]
                raws += [f'bytes={a}-{b}' for a, b in fam]
                raws += [f'bytes={a}-' for a in pts] + [f'bytes=-{a}' for a in pts + [L + 50, 10 * L]]
                raws += MALFORMED
                for _ in range(10 if tier_ == 'quick' else 200):
                    raws.append(''.join(rng.choice('bytes=-0123456789, ;xX+') for _ in range(rng.randrange(1, 16))))
                for raw in raws:
                    tid += 1
                    hdrs = {} if raw is None else {'Range': raw}
                    try:
                        rr = c.get(url, headers=hdrs)
                        r = project(rr.status_code, dict(rr.headers), rr.data, full, L)
                    except Exception as err:     # the test client re-raises only with PROPAGATE; defensive
                        r = {'status': 500, 'cr': 'none', 'first': 0, 'last': 0, 'clen': 0, 'blen': 0, 'slice_ok': 0, 'full_ok': 0,
                             'exc': type(err).__name__}
                    lines.append({'tid': tid, 'layer': 'http', 'h': classify(raw), 'L': L, 'mandatory': mandatory,
                                  'raw': raw if raw is not None else '(absent)', 'url': url, 'r': r})
            if usable < 9:
                raise MachineryFailure(f'only {usable} range-capable URLs usable: {out.notes}')
            # ---- a file that is replaced under the same name by one of another size: the length every Range decision and the
            # Content-Range header depend on is the length of the file that is stored now
            from harness.mgmt import Session, ids
            ms = Session(da, 'media')
            spk = ids(da)['streams']['bbb']
            fx = da.blob_folder / 'bbb'
            for gen, content in enumerate(((fx / 'bbb_t1.mp4').read_bytes(), (fx / 'bbb_a2.mp4').read_bytes(), (fx / 'bbb_t1.mp4').read_bytes()[:5000] +
                                           (fx / 'bbb_t1.mp4').read_bytes())):
                if gen == 2:
                    break       # two generations are enough; the third (not a valid file) is not uploaded
                tok = ms.harvest(spk).get('upload', '')
                ur = ms.request('POST', f'/media/{spk}/blob?ajax=1', data={'csrf_token': tok, 'file': (io.BytesIO(content), 'swap_t9.mp4')},
                                content_type='multipart/form-data')
                mfid = (ur.get_json(silent=True) or {}).get('pk')
                if not mfid:
                    raise MachineryFailure(f'upload of the replaceable file failed: {ur.status_code}')
                ms.request('GET', f'/media/index/{mfid}?csrf_token={ms.mint("files")}&ajax=1')
                url = '/dash/odvod/bbb/swap_t9.mp4'
                L = len(content)
                for raw in ['bytes=0-', 'bytes=-100', f'bytes={L}-', f'bytes={L - 1}-', f'bytes=0-{L - 1}', f'bytes=-{L + 1}', 'bytes=600-', 'bytes=10-19',
                            f'bytes={L - 10}-{L + 10}', 'bytes=6757-', 'bytes=6000-7000']:
                    tid += 1
                    rr = c.get(url, headers={'Range': raw})
                    lines.append({'tid': tid, 'layer': 'http', 'h': classify(raw), 'L': L, 'mandatory': 1, 'raw': raw, 'url': f'{url} (generation {gen + 1})',
                                  'r': project(rr.status_code, dict(rr.headers), rr.data, content, L)})
            # ---- a file that the service re-writes itself (edit of track id / language: every fragment is parsed, changed and written
            # to a new blob): the ranges of the re-written file are those of the bytes now on disk
            content = (fx / 'bbb_t1.mp4').read_bytes()
            tok = ms.harvest(spk).get('upload', '')
            ur = ms.request('POST', f'/media/{spk}/blob?ajax=1', data={'csrf_token': tok, 'file': (io.BytesIO(content), 'edit_t8.mp4')},
                            content_type='multipart/form-data')
            mfid = (ur.get_json(silent=True) or {}).get('pk')
            if not mfid:
                raise MachineryFailure(f'upload of the editable file failed: {ur.status_code}')
            ms.request('GET', f'/media/index/{mfid}?csrf_token={ms.mint("files")}&ajax=1')
            before = {p.name for p in fx.iterdir()}
            er = ms.request('POST', f'/stream/{spk}/{mfid}/edit', data={'csrf_token': ms.mint('files'), 'track_id': '9', 'lang': 'deu'})
            newf = sorted(p for p in fx.iterdir() if p.name not in before)
            if er.status_code >= 400 or len(newf) != 1:
                raise MachineryFailure(f'edit of the media file did not produce one new blob: {er.status_code} {[p.name for p in newf]}')
            content = newf[0].read_bytes()
            L = len(content)
            url = '/dash/odvod/bbb/edit_t8.mp4'
            for raw in ['bytes=0-', 'bytes=-100', f'bytes={L}-', f'bytes={L - 1}-', f'bytes=0-{L - 1}', f'bytes=-{L + 1}', 'bytes=600-', 'bytes=10-19',
                        f'bytes={L - 10}-{L + 10}', f'bytes={L - 50}-', f'bytes={L // 2}-{L - 1}']:
                tid += 1
                rr = c.get(url, headers={'Range': raw})
                lines.append({'tid': tid, 'layer': 'http', 'h': classify(raw), 'L': L, 'mandatory': 1, 'raw': raw, 'url': f'{url} (re-written by an edit)',
                              'r': project(rr.status_code, dict(rr.headers), rr.data, content, L)})
        vs, st = validate_trace('HttpRangeTrace', lines, workdir=d, chunk=5000, parallel=4)
        drift = 0
        for v in vs:
            lo = v['lineobj']
            if v['clause'].startswith('DRIFT_'):
                drift += 1
                continue
            out.add(Violation('C13', v['clause'], {'layer': lo['layer'], 'url': lo.get('url'), 'range': lo['raw'], 'h': lo['h'],
                                                   'L': lo['L'], 'r': lo['r']}))
        out.coverage.update({
            'states': ra.distinct, 'transitions': max(1, ra.generated), 'traces_validated_against_impl': len(lines),
            'evaluations': len(lines), 'distinct_nontrivial': len({(x['h']['kind'], x['r']['status'], x.get('url'), x['raw']) for x in lines}),
            'rule': 'one evaluation per (resource or length, Range header) request; distinct = distinct (header kind, status, URL, header text)',
            'exhaustive': True, 'model_drift': drift, 'pure_rows': npure, 'http_requests': len(lines) - npure, 'urls': usable,
            'samples': [lines[5], lines[npure + 3], lines[-1]],
            'bounds': 'small scope L in 1..6, integers 0..8 in every position (exhaustive); plus boundary rows at L = 1000, 65536, 2^31-10; '
                      'HTTP: 9 URL kinds x header families around 0, L/2, L-1, L, L+1, 2L + malformed strings',
        })
    return out.finish('model_checking')
