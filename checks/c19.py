"""C19 - ISO-8601 time text is faithful to the value it encodes.
(A) TLC IsoTimeMC: the integer reference (round half up to ms with carry) and the
implementation-shaped model agree and satisfy the clauses for every fraction in scope;
(B) the same values through the real toIsoDuration / from_isodatetime / to_iso_datetime /
timecode helpers; the text is tokenised and TLC judges every line (IsoTimeTrace)."""
from __future__ import annotations

import datetime
import random
import re
from typing import Any

from harness.core import MachineryFailure, Outcome, Violation, REPO, run_tlc, scratch, seed, tlc_must_pass, validate_trace
from harness import mpd as M

DUR_TOK = re.compile(r'^PT(?:(\d+)H)?(?:(\d+)M)?(?:(\d+)(?:\.(\d+))?S)?$')
EPOCH = datetime.datetime(1970, 1, 1, tzinfo=datetime.timezone.utc)
BIG = 2**31 - 1


def tok_duration(text: str) -> dict[str, int]:
    f = {'h': 0, 'm': 0, 's': 0, 'ms': 0, 'lex': 0}
    if M.DUR_RE.match(text) and not text.endswith('T') and text != 'P':
        m = DUR_TOK.match(text)
        if m:
            f['lex'] = 1
            f['h'] = min(int(m.group(1) or 0), BIG)
            f['m'] = min(int(m.group(2) or 0), BIG)
            f['s'] = min(int(m.group(3) or 0), BIG)
            frac = m.group(4) or ''
            f['ms'] = int((frac + '000')[:3]) if frac else 0
    return f


def dur_of(td: datetime.timedelta) -> dict[str, int]:
    return {'s': td.days * 86400 + td.seconds, 'u': td.microseconds}


def inst_of(dt_: datetime.datetime) -> dict[str, int]:
    d = dt_ - EPOCH
    return {'d': d.days, 's': d.seconds, 'u': d.microseconds}


def main(tier_: str) -> int:
    import sys
    sys.path.insert(0, str(REPO))
    from dashlive.utils.date_time import (toIsoDuration, from_isodatetime, to_iso_datetime,
                                          timecode_to_timedelta, timedelta_to_timecode)
    from dashlive.utils.timezone import UTC, FixedOffsetTimeZone
    out = Outcome('C19', tier_)
    out.assumptions = [
        'durations are >= 0; float inputs are built as s + u/1e6 and compared against the intended [s, u] value',
        'lexical validity of xs:duration / xs:dateTime is decided by regular expressions in the projection; numeric reasoning by the spec',
        'date-times carry an explicit tzinfo (UTC or a fixed offset); years 1970..2100',
    ]
    rng = random.Random(seed() * 19 + 19)
    lines: list[dict[str, Any]] = []
    tid = 0

    def add(ln: dict[str, Any]) -> None:
        nonlocal tid
        tid += 1
        ln['tid'] = tid
        lines.append(ln)

    with scratch() as d:
        ra = run_tlc('IsoTimeMC', f'IsoTimeMC_{tier_}.cfg', workdir=d, workers=16, timeout=1800, heap='8g')
        tlc_must_pass(ra, 'IsoTimeMC (A)')
        # the same invariants over unbounded integers (SMT): every header integer / length, resp. every whole-second part
        from harness.core import run_apalache, apalache_must_not_refute
        apa = run_apalache('IsoDurationApa', workdir=d)
        apalache_must_not_refute(apa, 'IsoDurationApa')
        out.coverage['apalache_unbounded'] = {k: v for k, v in apa.items() if k != 'tail'}
        # ---- durations ----------------------------------------------------------------------
        secs = [0, 1, 59, 60, 3599, 3600, 86399, 86400, 360000]
        if tier_ == 'quick':
            micros = sorted({k * 1000 + e for k in range(1000) for e in (0, 1, 499, 500, 501, 999)})
            grid = [(s, u) for s in secs for u in micros]
        else:
            micros = sorted({k * 1000 + e for k in range(1000) for e in (0, 1, 499, 500, 501, 999)})
            grid = [(s, u) for s in secs for u in micros] + [(s, u) for s in (59, 3599) for u in range(10**6)]
        for _ in range(2000 if tier_ == 'quick' else 50000):
            grid.append((rng.randrange(0, 3 * 365 * 86400), rng.choice([rng.randrange(10**6), 999500 + rng.randrange(500), 0])))
        for n, (s, u) in enumerate(grid):
            kinds = ('td', 'float', 'str') if n < 60000 else ('td',)
            for kind in kinds:
                if kind == 'td':
                    arg: Any = datetime.timedelta(seconds=s, microseconds=u)
                elif kind == 'float':
                    arg = s + u / 1e6
                else:
                    arg = f'{s}.{u:06d}'
                ln = {'ev': 'dur', 'x': {'s': s, 'u': u}, 'kind': kind, 'text': '', 'f': tok_duration(''),
                      'parsed': {'s': 0, 'u': 0}, 'parse_ok': 0}
                try:
                    text = toIsoDuration(arg)
                    ln['text'] = text
                    ln['f'] = tok_duration(text)
                    back = from_isodatetime(text)
                    if isinstance(back, datetime.timedelta):
                        ln['parsed'] = dur_of(back)
                        ln['parse_ok'] = 1
                except Exception as err:
                    ln['exc'] = type(err).__name__
                add(ln)
        # ---- the same values through the template filters that render them into manifests (server/template_tags.py) ----------
        try:
            import sys as _sys
            from harness.core import VERIF as _VERIF
            if str(_VERIF / 'shims') not in _sys.path:
                _sys.path.insert(0, str(_VERIF / 'shims'))
            from dashlive.server.template_tags import isoDuration as f_dur, isoDateTime as f_dt
        except Exception as err:      # noqa: BLE001
            raise MachineryFailure(f'template filters not importable: {type(err).__name__}: {err}')
        fgrid = [(0, 0), (0, 1), (0, 500), (0, 999500), (1, 0), (59, 999999), (60, 0), (3600, 0), (86400, 0), (360000, 250000), (4000000, 0)]
        fgrid += [(rng.randrange(0, 10**6), rng.choice([0, rng.randrange(10**6)])) for _ in range(30)]
        for s, u in fgrid:
            for kind in ('filter:td', 'filter:float') + (('filter:int',) if u == 0 else ()):
                arg = datetime.timedelta(seconds=s, microseconds=u) if kind == 'filter:td' else (s + u / 1e6 if kind == 'filter:float' else s)
                ln = {'ev': 'dur', 'x': {'s': s, 'u': u}, 'kind': kind, 'text': '', 'f': tok_duration(''), 'parsed': {'s': 0, 'u': 0}, 'parse_ok': 0}
                try:
                    text = f_dur(arg)
                    ln['text'] = text
                    ln['f'] = tok_duration(text)
                    back = from_isodatetime(text)
                    if isinstance(back, datetime.timedelta):
                        ln['parsed'] = dur_of(back)
                        ln['parse_ok'] = 1
                except Exception as err:      # noqa: BLE001
                    ln['exc'] = type(err).__name__
                add(ln)
        ndur = len(lines)
        # ---- date-times ---------------------------------------------------------------------
        days = [datetime.date(1970, 1, 1), datetime.date(1999, 12, 31), datetime.date(2024, 2, 29), datetime.date(2024, 3, 1),
                datetime.date(2024, 12, 31), datetime.date(2038, 1, 19), datetime.date(2100, 2, 28), datetime.date(2100, 3, 1)]
        sods = [0, 1, 59, 3599, 43200, 86399]
        uss = [0, 1, 9, 10, 99, 1000, 100000, 123456, 500000, 999999, 7, 70, 700001]
        offs = [0, 60, -300, 330, 345, -720, 840, 1, -1]
        combos = [(dd, sod, us, off) for dd in days for sod in sods for us in uss for off in offs
                  if not (tier_ == 'quick' and rng.random() < 0.6)]
        # the microsecond field on its own: every value below 3000, every millisecond boundary +-1 and a seeded sample (quick);
        # all 10^6 values (thorough) - one day / second / offset each
        sweep = set(range(3000)) | {k * 1000 + e for k in range(1000) for e in (0, 1, 999)} | {rng.randrange(10**6) for _ in range(3000)}
        if tier_ == 'thorough':
            sweep = set(range(10**6))
        for us in sorted(sweep):
            combos.append((days[us % len(days)], sods[us % len(sods)], us, offs[us % len(offs)]))
        if True:
            if True:
                if True:
                    from dashlive.utils.objects import flatten
                    for dd, sod, us, off, via_flatten in [c + (0,) for c in combos] + [c + (1,) for c in combos[::7]]:
                        local = datetime.datetime(dd.year, dd.month, dd.day) + datetime.timedelta(seconds=sod, microseconds=us)
                        if off == 0:
                            tz: Any = UTC()
                        else:
                            sign = '+' if off > 0 else '-'
                            tz = FixedOffsetTimeZone(f'{sign}{abs(off) // 60:02d}:{abs(off) % 60:02d}')
                        val = local.replace(tzinfo=tz)
                        inst = inst_of(val.astimezone(datetime.timezone.utc))
                        ln = {'ev': 'dt', 'inst': inst, 'off': off, 'text': '', 'parse_ok': 0,
                              'f': {'y': 0, 'mo': 0, 'd': 0, 'h': 0, 'mi': 0, 's': 0, 'us': 0, 'off': 0, 'lex': 0},
                              'pinst': {'d': 0, 's': 0, 'u': 0}, 'poff': 0}
                        try:
                            # two renderers of the same value: to_iso_datetime, and objects.flatten (JSON forms, the toJson filter)
                            text = flatten(val) if via_flatten else to_iso_datetime(val)
                            if not isinstance(text, str):
                                raise TypeError(f'flatten returned {type(text).__name__}')
                            ln['text'] = text
                            ln['renderer'] = 'flatten' if via_flatten else 'to_iso_datetime'
                            m = M.DT_RE.match(text)
                            if m:
                                y, mo, d_, h, mi, s_, frac, tzs = m.groups()
                                o = 0
                                if tzs not in (None, 'Z'):
                                    o = (1 if tzs[0] == '+' else -1) * (int(tzs[1:3]) * 60 + int(tzs[4:6]))
                                ln['f'] = {'y': int(y), 'mo': int(mo), 'd': int(d_), 'h': int(h), 'mi': int(mi), 's': int(s_),
                                           'us': int((frac or '0').ljust(6, '0')[:6]), 'off': o, 'lex': 1 if tzs is not None else 0}
                            back = from_isodatetime(text)
                            if isinstance(back, datetime.datetime) and back.tzinfo is not None:
                                ln['pinst'] = inst_of(back.astimezone(datetime.timezone.utc))
                                ln['poff'] = int(back.utcoffset().total_seconds() // 60)
                                ln['parse_ok'] = 1
                        except Exception as err:
                            ln['exc'] = type(err).__name__
                        add(ln)
        ndt = len(lines) - ndur
        # ---- timecodes ----------------------------------------------------------------------
        tss = [1, 2, 3, 4, 5, 6, 7, 8, 9, 10, 240, 25, 30000, 44100, 48000, 90000, 10**7]
        for ts in tss:
            lim = (2**31 - 1) // 2
            tcs = list(range(0, 301)) + [ts - 1, ts, ts + 1, 2 * ts + 1, lim - 1, lim]
            tcs += [rng.randrange(0, lim) for _ in range(100 if tier_ == 'quick' else 3000)]
            tcs = sorted(set(t for t in tcs if t >= 0))
            prev = None
            for tc in tcs:
                try:
                    td = timecode_to_timedelta(tc, ts)
                    back = timedelta_to_timecode(td, ts)
                    dd_ = dur_of(td)
                    add({'ev': 'tc', 'tc': tc, 'ts': ts, 'dur': dd_, 'back': int(back)})
                    if prev is not None:
                        add({'ev': 'mono', 'ts': ts, 'tc1': prev[0], 'tc2': tc, 'd1': prev[1], 'd2': dd_})
                    prev = (tc, dd_)
                except Exception as err:
                    add({'ev': 'tc', 'tc': tc, 'ts': ts, 'dur': {'s': -1, 'u': 0}, 'back': -5, 'exc': type(err).__name__})
            maxs = (2**31 - 1) // ts - 1
            for _ in range(150 if tier_ == 'quick' else 3000):
                s = rng.randrange(0, max(1, min(maxs, 10**6)))
                u = rng.choice([0, 1, 999999, 500000, rng.randrange(10**6)])
                x = datetime.timedelta(seconds=s, microseconds=u)
                tc = timedelta_to_timecode(x, ts)
                td = timecode_to_timedelta(tc, ts)
                add({'ev': 'td', 'x': {'s': s, 'u': u}, 'ts': ts, 'tc': int(tc), 'dur': dur_of(td)})
        # ---- scale_timedelta: deltas from microseconds to weeks (the days field of a timedelta matters from 24 hours on) ----
        from dashlive.utils.date_time import scale_timedelta
        nscale = 0
        for num, denom in ((1, 1), (25, 1), (240, 960), (1000, 1), (1000, 3997), (240, 1), (25, 48)):
            lim_s = (2**31 - 1) // num - 2
            xs = [(0, 0), (0, 1), (0, 999999), (1, 0), (59, 500000), (3600, 0), (86399, 999999), (86400, 0), (86400, 1), (86401, 0),
                  (2 * 86400 - 1, 999999), (2 * 86400, 0), (7 * 86400 + 3, 250000), (31 * 86400, 0), (400 * 86400 + 17, 5)]
            xs += [(rng.randrange(0, 60 * 86400), rng.randrange(10**6)) for _ in range(40 if tier_ == 'quick' else 1500)]
            xs = sorted({(s_, u_) for s_, u_ in xs if s_ <= lim_s})
            prev_got = None
            for s_, u_ in xs:
                ln = {'ev': 'scale', 'x': {'s': s_, 'u': u_}, 'num': num, 'denom': denom, 'got': 0, 'ok': 0,
                      'has_prev': 0 if prev_got is None else 1, 'prev_got': prev_got or 0}
                try:
                    g = scale_timedelta(datetime.timedelta(seconds=s_, microseconds=u_), num, denom)
                    ln['got'] = int(g)
                    ln['ok'] = 1 if abs(g) < 2**31 else 0
                    if not ln['ok']:
                        ln['got'] = 0
                    prev_got = ln['got'] if ln['ok'] else prev_got
                except Exception as err:      # noqa: BLE001
                    ln['exc'] = type(err).__name__
                add(ln)
                nscale += 1
        out.coverage['scale_timedelta_lines'] = nscale
        vs, st = validate_trace('IsoTimeTrace', lines, workdir=d, chunk=60000, parallel=12, timeout=1800)
        drift = 0
        seen: set[tuple] = set()
        for v in vs:
            lo = v['lineobj']
            if v['clause'].startswith('DRIFT_'):
                drift += 1
                continue
            case = {k: lo[k] for k in lo if k != 'tid'}
            key = (v['clause'], lo['ev'], lo.get('text'), lo.get('num'), lo.get('denom'))
            if key in seen:
                continue
            seen.add(key)
            out.add(Violation('C19', v['clause'], case))
        out.coverage.update({
            'states': ra.distinct, 'transitions': max(1, ra.generated), 'traces_validated_against_impl': len(lines),
            'evaluations': len(lines), 'distinct_nontrivial': len({(x['ev'], x.get('text') or (x.get('tc'), x.get('ts'), str(x.get('x')))) for x in lines}),
            'rule': 'one evaluation per rendered value; distinct = distinct rendered texts / (timecode, timescale) pairs',
            'exhaustive': tier_ == 'thorough', 'model_drift': drift, 'durations': ndur, 'datetimes': ndt,
            'timecode_lines': len(lines) - ndur - ndt,
            'samples': [lines[3], lines[ndur + 5], lines[-1]],
            'bounds': 'durations: every millisecond boundary +-1 us (and +-500) x 9 whole-second parts, as timedelta/float/str; thorough adds all '
                      '10^6 fractions x 2 parts and 50k random values up to 3 years; date-times: 8 days x 6 seconds x 13 microseconds x 9 offsets plus a sweep of the microsecond field (quick: <3000, ms boundaries, 3000 random; thorough: all 10^6); '
                      'timecodes: 17 timescales 1..10^7',
        })
    return out.finish('model_checking')
