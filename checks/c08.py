"""C08 - live timing parameters are coherent for every clock and option.
(A) TLC: LiveParamsMC over the calendar grid; (B) every model state on the real DashTiming;
(C) the same clocks through rendered live manifests; TLC validates both logs (LiveParamsTrace)."""
from __future__ import annotations

import datetime
import random
from typing import Any

from harness.core import MachineryFailure, Outcome, Violation, run_tlc, scratch, seed, tlc_must_pass, validate_trace

EPOCH = datetime.datetime(1970, 1, 1, tzinfo=datetime.timezone.utc)
ABSENT = -99


def to_dt(t: dict[str, int]) -> datetime.datetime:
    return EPOCH + datetime.timedelta(days=t['d'], seconds=t['s'], microseconds=t['u'])


def to_inst(d: datetime.datetime) -> dict[str, int]:
    delta = d - EPOCH.replace(tzinfo=d.tzinfo) if d.tzinfo is None else d - EPOCH
    return {'d': delta.days, 's': delta.seconds, 'u': delta.microseconds}


def dur(td: datetime.timedelta) -> dict[str, int]:
    return {'s': td.days * 86400 + td.seconds, 'u': td.microseconds}


def start_arg(s: dict[str, Any], now: datetime.datetime, with_offset: random.Random | None = None) -> str:
    if not s['start'].startswith('x'):
        return s['start']
    ast = now.replace(microsecond=0) - datetime.timedelta(seconds=s['xk'])
    if with_offset is not None:
        off = with_offset.choice([0, 60, -330, 840, -720])
        tz = datetime.timezone(datetime.timedelta(minutes=off))
        loc = ast.astimezone(tz)
        txt = loc.strftime('%Y-%m-%dT%H:%M:%S')
        if off == 0:
            return txt + 'Z'
        sign = '+' if off > 0 else '-'
        return f'{txt}{sign}{abs(off) // 60:02d}:{abs(off) % 60:02d}'
    return ast.strftime('%Y-%m-%dT%H:%M:%SZ')


def main(tier_: str) -> int:
    out = Outcome('C08', tier_)
    out.assumptions = [
        'explicit start values are whole seconds <= now (the statement\'s "whole second" and "whole number of periods" are jointly '
        'unsatisfiable otherwise); now ranges over 1971..2100; "epoch" is only combined with instants before 2038 (32-bit seconds in TLC)',
        'the clock is injected by patching datetime.datetime.now (upstream technique); shims as for C01',
    ]
    import logging
    from harness.app import DashApp
    from harness import mpd as M
    with scratch() as d:
        ra = run_tlc('LiveParamsMC', f'LiveParamsMC_{tier_}.cfg', workdir=d, workers=16, timeout=900)
        tlc_must_pass(ra, 'LiveParamsMC (A)')
        re_ = run_tlc('LiveParamsMC', f'LiveParamsMC_{tier_}_emit.cfg', workdir=d, workers=16, timeout=900, heap='6g')
        tlc_must_pass(re_, 'LiveParamsMC emission')
        if tier_ == 'thorough':
            # the single-state clauses over unbounded integers (SMT); slow, so only here - a time-out is 'unavailable', not a verdict
            from harness.core import run_apalache, apalache_must_not_refute
            apa = run_apalache('LiveParamsApa', workdir=d, timeout=900)
            apalache_must_not_refute(apa, 'LiveParamsApa')
            out.coverage['apalache_unbounded'] = {k: v for k, v in apa.items() if k != 'tail'}
        states = re_.tagged('S')
        if len(states) != ra.distinct:
            raise MachineryFailure(f'{len(states)} emitted, {ra.distinct} states')
        logging.disable(logging.CRITICAL)
        from dashlive.mpeg.dash.reference import StreamTimingReference
        from dashlive.mpeg.dash.timing import DashTiming
        from dashlive.server.options.repository import OptionsRepository
        from dashlive.utils.timezone import UTC
        defaults = OptionsRepository.get_default_options()
        # reference segment duration / timescale: 4 s, and durations whose double is not a whole number of seconds
        # (3.84 s, 4.004 s, 1.25 s and 1.75 s - the two ties of round-half-even -, 4.0107 s)
        ref_defs = [(960, 240), (96, 25), (120120, 30000), (5, 4), (7, 4), (192512, 48000)]
        refs = [StreamTimingReference(media_name='ref', media_duration=10 * sd, num_media_segments=10, segment_duration=sd, timescale=ts)
                for sd, ts in ref_defs]
        from fractions import Fraction

        def period_obs(mup_value, ast, publish) -> dict[str, int]:
            if not mup_value:
                return {'mup': 0, 'mup_whole': 1, 'k_whole': 1}
            fr = Fraction(str(mup_value))
            whole = 1 if fr.denominator == 1 else 0
            k = Fraction((publish - ast).total_seconds()).limit_denominator(10**6) / fr
            return {'mup': int(fr), 'mup_whole': whole, 'k_whole': 1 if k.denominator == 1 else 0}
        groups: dict[tuple, int] = {}
        ref_of_group: dict[tuple, int] = {}
        states.sort(key=lambda s: (s['start'], s['depth'], s['mup'], s['i']))
        lines: list[dict[str, Any]] = []
        for n, s in enumerate(states):
            now = to_dt(s['now']).replace(tzinfo=UTC())
            # explicit starts are written with a UTC offset chosen by the state's index (0, +01:00, -05:30, +14:00, -12:00)
            args = {'start': start_arg(s, now, random.Random(n)), 'depth': str(s['depth'])}
            if s['mup'] != ABSENT:
                args['mup'] = str(s['mup'])
            opts = OptionsRepository.convert_cgi_options(args, defaults)
            opts.add_field('mode', 'live')
            # one reference per option group (so that successive instants of a group stay comparable)
            gi = ref_of_group.setdefault((s['start'], s['depth']), len(ref_of_group))
            ref = refs[gi % len(refs)] if s['mup'] == ABSENT else refs[0]
            t = DashTiming(now, ref, opts)
            g = groups.setdefault((s['start'], s['depth'], s['mup'], ref.segment_duration, ref.timescale), len(groups) + 1)
            if s['start'].startswith('x'):
                g = -(n + 1)      # explicit starts are relative to now: no relational clause across lines
            lines.append({
                'tid': n + 1, 'grp': g, 'layer': 'pure', 'now': s['now'], 'start': s['start'], 'xk': s['xk'],
                'depth': s['depth'], 'mup': s['mup'], 'has_fta': 1, 'refSegDur': ref.segment_duration, 'refTs': ref.timescale,
                'obs': {'ast': to_inst(t.availabilityStartTime), 'publish': to_inst(t.publishTime),
                        'tsbd': int(t.timeShiftBufferDepth), 'fta': dur(t.firstAvailableTime)}
                       | period_obs(t.minimumUpdatePeriod, t.availabilityStartTime, t.publishTime)})
        npure = len(lines)
        # ---- HTTP: the same clauses on rendered manifests -------------------------------------
        rng = random.Random(seed() * 17 + 8)
        nh = 250 if tier_ == 'quick' else 2500
        picks = sorted(rng.sample(range(len(states)), min(nh, len(states))))
        tmpls = ['hand_made.mpd', 'manifest_a.mpd', 'manifest_e.mpd', 'manifest_h.mpd', 'manifest_i.mpd', 'manifest_ef.mpd']
        hl: list[dict[str, Any]] = []
        refused = 0
        with DashApp(d / 'app', fixtures=('bbb',)) as da:
            c = da.client()
            # successive observations are compared only for one and the same URL (templates apply mup differently)
            hgroups: dict[tuple, int] = {}
            for k in picks:
                s = states[k]
                now = to_dt(s['now'])
                da.clock.set(now)
                from urllib.parse import quote
                q = f"start={quote(start_arg(s, now, rng))}&depth={s['depth']}"
                if s['mup'] != ABSENT:
                    q += f"&mup={s['mup']}"
                tmpl = rng.choice(tmpls)
                url = f'http://localhost/dash/live/bbb/{tmpl}?{q}'
                r = c.get(f'/dash/live/bbb/{tmpl}?{q}')
                if r.status_code != 200:
                    refused += 1
                    continue
                try:
                    m = M.project(r.data, url)
                except Exception:
                    refused += 1
                    continue
                if m['availabilityStartTime'] is None or m['publishTime'] is None or m['timeShiftBufferDepth'] is None:
                    refused += 1
                    continue
                mupv = m['minimumUpdatePeriod']
                hl.append({
                    'tid': 10**6 + k, 'grp': (10**6 + hgroups.setdefault((s['start'], s['depth'], s['mup'], tmpl), len(hgroups))) if not s['start'].startswith('x') else -(10**6 + k), 'layer': 'http',
                    'now': s['now'], 'start': s['start'], 'xk': s['xk'], 'depth': s['depth'], 'mup': s['mup'],
                    'has_fta': 0, 'refSegDur': 960, 'refTs': 240, 'url': url,
                    'obs': {'ast': to_inst(m['availabilityStartTime']), 'publish': to_inst(m['publishTime']),
                            'tsbd': m['timeShiftBufferDepth'] // 10**6 if m['timeShiftBufferDepth'] % 10**6 == 0 else -1,
                            'fta': {'s': 0, 'u': 0}}
                           | period_obs(Fraction(mupv, 10**6) if mupv else 0, m['availabilityStartTime'], m['publishTime'])})
        hl.sort(key=lambda x: (x['grp'], x['now']['d'], x['now']['s'], x['now']['u']))
        lines.extend(hl)
        vs, st = validate_trace('LiveParamsTrace', lines, workdir=d, chunk=4000, parallel=12)
        drift = 0
        for v in vs:
            lo = v['lineobj']
            if v['clause'].startswith('DRIFT_'):
                drift += 1
                continue
            case = {'layer': lo['layer'], 'now': to_dt(lo['now']).isoformat(), 'start': lo['start'], 'xk': lo['xk'],
                    'depth': lo['depth'], 'mup': lo['mup'], 'obs': lo['obs'], 'detail': v['detail'], 'url': lo.get('url')}
            out.add(Violation('C08', v['clause'], case))
        out.coverage.update({
            'states': ra.distinct, 'transitions': ra.generated, 'traces_validated_against_impl': len(lines),
            'evaluations': len(lines), 'distinct_nontrivial': len({(x['now']['s'], x['now']['u'], x['start'], x['depth'], x['mup']) for x in lines}),
            'rule': 'one evaluation per (clock, start, depth, mup) request on the real DashTiming / manifest endpoint; distinct = distinct '
                    '(second of day, microsecond, start, depth, mup) tuples',
            'exhaustive': True, 'model_drift': drift, 'pure_states': npure, 'http_manifests': len(hl), 'http_refused': refused,
            'samples': [lines[0], lines[npure // 2], hl[0] if hl else {}],
            'bounds': f'tier {tier_}: {len(groups)} option groups x calendar grid (month/year ends, leap day 2024-02-29, 2100-03-01 in thorough)',
        })
    return out.finish('model_checking')
