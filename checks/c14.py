"""C14 - timed events are delivered exactly once and decode to their schedule.

(A) TLC EventsMC: every schedule of a small grid x every segment of two layouts: the
    implementation-shaped emsg loop delivers exactly the expected event ids.
(B) the same grid (and beyond) on the real create_emsg_boxes / create_manifest_context with
    synthetic representations.
(C) HTTP: consecutive video segments with events=ping,scte35 (vod, and live across a loop of the
    source), emsg boxes extracted by the independent walker; EventStream elements of manifests; SCTE-35
    sections decoded by the TLA+ reader (fixed splice_insert layout + CRC-32/MPEG-2 on limbs).
    SCTE-35 encode -> parse round trip on field boundary values.
All lines are validated by TLC (EventsTrace).
"""
from __future__ import annotations

import base64
import datetime
import io
import random
import re
from types import SimpleNamespace
from typing import Any

from harness.core import MachineryFailure, Outcome, Violation, run_tlc, scratch, seed, tlc_must_pass, validate_trace


def limbs33(v: int) -> dict[str, int]:
    return {'hi': (v >> 32) & 1, 'mid': (v >> 16) & 0xFFFF, 'lo': v & 0xFFFF}


def box_line(b) -> dict[str, int]:
    f = b.f
    return {'id': f['id'], 'version': f['version'], 'ts': f['timescale'], 'delta': f.get('presentation_time_delta', 0),
            'ptime': f.get('presentation_time', 0), 'duration': f['event_duration']}


def pure_lines(rng: random.Random, tier_: str) -> list[dict[str, Any]]:
    from dashlive.server.events.ping_pong import PingPongEvents
    lines = []
    grid = []
    for st in range(0, 7):
        for iv in range(1, 6):
            for cn in range(0, 5):
                for ts, rts in ((1, 1), (2, 3), (3, 2), (10, 4), (4, 10)):
                    grid.append((st, iv, cn, ts, rts))
    if tier_ == 'quick':
        grid = rng.sample(grid, 220)
    for st, iv, cn, ts, rts in grid:
        for ver in (0, 1):
            for d in (3, 4, 7):
                for i in range(0, 12):
                    s, e = i * d, (i + 1) * d
                    ev = PingPongEvents(start=st, interval=iv, count=cn, duration=2, timescale=ts, version=ver, inband=True, value='0')
                    moof = SimpleNamespace(traf=SimpleNamespace(tfdt=SimpleNamespace(base_media_decode_time=s)))
                    rep = SimpleNamespace(timescale=rts, segments=[SimpleNamespace(duration=0), SimpleNamespace(duration=d)])
                    boxes = ev.create_emsg_boxes(segment_num=i + 1, mod_segment=1, moof=moof, representation=rep, adaptation_set=None)
                    bl = []
                    for b in boxes:
                        bl.append({'id': b.event_id, 'version': b.version, 'ts': b.timescale,
                                   'delta': getattr(b, 'presentation_time_delta', 0) if b.version == 0 else 0,
                                   'ptime': getattr(b, 'presentation_time', 0) if b.version == 1 else 0,
                                   'duration': b.event_duration})
                    lines.append({'ev': 'seg', 'layer': 'pure', 'sch': {'start': st, 'interval': iv, 'count': cn, 'duration': 2, 'ts': ts, 'version': ver},
                                  's': s, 'e': e, 'rts': rts, 'boxes': bl, 'scte': []})
    return lines


def http_lines(da, rng: random.Random, tier_: str) -> list[dict[str, Any]]:
    from harness.stored import stored
    from harness.walker import Parsed
    from harness import mpd as M
    lines: list[dict[str, Any]] = []
    c = da.client()
    sf = stored(da.blob_folder / 'bbb' / 'bbb_v7.mp4')
    rts = sf.timescale
    scheds = [dict(start=0, interval=400, count=0, duration=200, ts=100, version=0),
              dict(start=200, interval=400, count=5, duration=200, ts=100, version=0),
              dict(start=200, interval=400, count=5, duration=200, ts=100, version=1),
              dict(start=395, interval=100, count=0, duration=50, ts=100, version=0),       # several per segment
              dict(start=400, interval=800, count=3, duration=10, ts=100, version=1),       # exactly on boundaries
              dict(start=1000, interval=1500, count=2, duration=10, ts=240, version=0),
              dict(start=7, interval=333, count=7, duration=100, ts=90, version=0),
              # event timescales that do not divide the 90 kHz SCTE-35 clock (kept small: PTS products must fit TLC's integers)
              dict(start=3, interval=28, count=0, duration=5, ts=7, version=0),
              dict(start=64, interval=256, count=6, duration=100, ts=64, version=1),
              dict(start=50, interval=404, count=0, duration=33, ts=101, version=0),
              # an explicit zero where the option's default is not zero
              dict(start=0, interval=400, count=4, duration=0, ts=100, version=0)]
    if tier_ == 'thorough':
        for _ in range(30):
            scheds.append(dict(start=rng.randrange(0, 3000), interval=rng.choice([1, 50, 99, 400, 401, 1000, 4000, 9999]),
                               count=rng.choice([0, 0, 1, 2, 9]), duration=rng.randrange(1, 500), ts=rng.choice([1, 10, 100, 240, 1000, 90000, 7, 64, 101, 512]),
                               version=rng.choice([0, 1])))
    da.clock.set(datetime.datetime(2024, 3, 5, 12, 0, 0, tzinfo=datetime.timezone.utc))
    for kind in ('ping', 'scte35'):
        for sch in scheds:
            q = f'events={kind}&' + '&'.join(f'{kind}__{k}={v}' for k, v in (('start', sch['start']), ('interval', sch['interval']),
                                                                             ('count', sch['count']), ('duration', sch['duration']),
                                                                             ('timescale', sch['ts']), ('version', sch['version'])))
            eff = dict(sch)
            if kind == 'scte35':
                eff['version'] = 1          # in-band SCTE-35 events always use emsg version 1
            # vod: the ten stored segments in order
            for n in range(1, 11):
                r = c.get(f'/dash/vod/bbb/bbb_v7/{n}.m4v?{q}')
                if r.status_code != 200:
                    lines.append({'ev': 'fail', 'url': f'/dash/vod/bbb/bbb_v7/{n}.m4v?{q}', 'status': r.status_code})
                    continue
                p = Parsed(r.data)
                tfdt = p.find('moof', 'traf', 'tfdt').f['base_media_decode_time']
                dur = sf.segments[n - 1].dur
                boxes = [box_line(b) for b in p.all_top('emsg')]
                scte = []
                if kind == 'scte35':
                    scte = [{'id': b.f['id'], 'bytes': list(b.f['message_data'])} for b in p.all_top('emsg')]
                lines.append({'ev': 'seg', 'layer': 'http', 'kind': kind, 'url': f'/dash/vod/bbb/bbb_v7/{n}.m4v?{q}', 'sch': eff,
                              's': tfdt, 'e': tfdt + dur, 'rts': rts, 'boxes': boxes, 'scte': scte})
            # out-of-band: the manifest lists the schedule
            r = c.get(f'/dash/vod/bbb/hand_made.mpd?{q}&{kind}__inband=0')
            if r.status_code == 200:
                proj = M.project(r.data, 'http://localhost/x')
                evs = []
                scte = []
                for es in proj['periods'][0]['event_streams']:
                    for e in es['events']:
                        a = e['attrs']
                        evs.append({'id': int(a.get('id', -1)), 'ptime': int(a.get('presentationTime', 0)), 'duration': int(a.get('duration', 0))})
                        if kind == 'scte35':
                            txt = ''.join(e['el'].itertext()).strip()
                            try:
                                scte.append({'id': int(a.get('id', -1)), 'bytes': list(base64.b64decode(txt))})
                            except Exception:      # noqa: BLE001
                                scte.append({'id': int(a.get('id', -1)), 'bytes': []})
                lines.append({'ev': 'manifest', 'kind': kind, 'url': f'/dash/vod/bbb/hand_made.mpd?{q}&{kind}__inband=0', 'sch': eff,
                              'events': evs, 'scte': scte})
    # the schedule comes from the stream's own option defaults (nothing but events=<kind> in the URL): same events
    dsch = {'ping': dict(start=250, interval=400, count=3, duration=150, ts=100, version=0),
            'scte35': dict(start=300, interval=900, count=4, duration=700, ts=100, version=1)}
    for kind in ('ping', 'scte35'):
        q = f'events={kind}'
        for n in range(1, 11):
            url = f'/dash/vod/evd/evd_v7/{n}.m4v?{q}'
            r = c.get(url)
            if r.status_code != 200:
                lines.append({'ev': 'fail', 'url': url, 'status': r.status_code})
                continue
            p = Parsed(r.data)
            tfdt = p.find('moof', 'traf', 'tfdt').f['base_media_decode_time']
            scte = [{'id': b.f['id'], 'bytes': list(b.f['message_data'])} for b in p.all_top('emsg')] if kind == 'scte35' else []
            lines.append({'ev': 'seg', 'layer': 'http', 'kind': kind, 'url': url, 'sch': dsch[kind], 's': tfdt, 'e': tfdt + sf.segments[n - 1].dur,
                          'rts': rts, 'boxes': [box_line(b) for b in p.all_top('emsg')], 'scte': scte})
    # live, across a loop of the source: AST shortly before now, numbers around the loop seam
    ast = datetime.datetime(2024, 3, 5, 11, 58, 0, tzinfo=datetime.timezone.utc)
    sch = dict(start=3000, interval=700, count=0, duration=100, ts=100, version=0)
    q = ('events=ping&ping__start=3000&ping__interval=700&ping__count=0&ping__duration=100&ping__timescale=100&ping__version=0'
         f'&start={ast.strftime("%Y-%m-%dT%H:%M:%SZ")}&depth=60')
    da.clock.set(ast + datetime.timedelta(seconds=100))
    for n in range(12, 25):
        url = f'/dash/live/bbb/bbb_v7/{n}.m4v?{q}'
        r = c.get(url)
        if r.status_code != 200:
            continue
        p = Parsed(r.data)
        tfdt = p.find('moof', 'traf', 'tfdt').f['base_media_decode_time']
        mod = (n - 1) % 10
        lines.append({'ev': 'seg', 'layer': 'http', 'kind': 'ping', 'url': url, 'sch': sch, 's': tfdt, 'e': tfdt + sf.segments[mod].dur, 'rts': rts,
                      'boxes': [box_line(b) for b in p.all_top('emsg')], 'scte': []})
    return lines


def roundtrip_lines(rng: random.Random, tier_: str) -> list[dict[str, Any]]:
    from dashlive.scte35.binarysignal import BinarySignal, SapType
    from dashlive.scte35.splice_insert import SpliceInsert
    from dashlive.scte35 import descriptors
    lines = []
    ev_ids = [0, 1, 2**16, 2**31, 2**32 - 1]
    ptss = [0, 1, 2**32, 2**33 - 1, 8100000]
    durs = [0, 1, 2**33 - 1, 900000]
    combos = [(e, p, d, pid, an, ar) for e in ev_ids for p in ptss for d in durs
              for pid, an, ar in ((0, 0, True), (65535, 255, False), (1620, 3, True))]
    if tier_ == 'quick':
        combos = rng.sample(combos, 60)
    # every segmentation type (the trailing sub-segment fields exist for some of them only), with and without a duration
    jobs = [(c, descriptors.SegmentationTypeId.PROVIDER_PLACEMENT_OP_START, {}) for c in combos]
    base = (7, 1080345, 180000, 1620, 3, True)
    for st in range(256):
        jobs.append((base, st, {'segment_num': st % 7, 'segments_expected': 9, 'sub_segment_num': 2, 'sub_segments_expected': 5}))
    for st in (0x10, 0x22, 0x34, 0x35, 0x36, 0x38, 0x3A, 0x3B, 0x40):
        jobs.append((base, st, {'segmentation_duration': None}))
        jobs.append((base, st, {'segmentation_duration': 2**40 - 1, 'delivery_not_restricted_flag': False, 'web_delivery_allowed_flag': True,
                                'no_regional_blackout_flag': False, 'archive_allowed_flag': True, 'device_restrictions': 2}))
    saps = [0, 1, 2, 3]
    for jn, ((e, p, d, pid, an, ar), stype, extra) in enumerate(jobs):
        kwd = {'segmentation_event_id': an, 'segmentation_duration': 0, 'segmentation_type': stype}
        kwd.update(extra)
        seg = descriptors.SegmentationDescriptor(**kwd)
        # the section header's own fields take part in the identity: every SAP type in turn (the generators use type 0)
        sig = BinarySignal(sap_type=saps[jn % len(saps)] if jn % 3 else SapType.CLOSED_GOP_NO_LEADING_PICTURES,
                           splice_insert=SpliceInsert(out_of_network_indicator=True, splice_time={'pts': p}, avails_expected=an,
                                                      splice_event_id=e, program_splice_flag=True, avail_num=an, unique_program_id=pid,
                                                      break_duration={'duration': d, 'auto_return': ar}),
                           descriptors=[seg])
        same = 0
        data = b''
        try:
            data = sig.encode()
            kw = BinarySignal.parse(io.BytesIO(data), size=len(data))
            back = BinarySignal(**kw)
            si = back.splice_insert
            same = 1 if (kw.get('crc_valid') and int(back.sap_type) == int(sig.sap_type) and si.splice_event_id == e and si.splice_time.pts == p and si.break_duration.duration == d
                         and si.break_duration.auto_return == ar and si.unique_program_id == pid and si.avail_num == an
                         and si.avails_expected == an and back.encode() == data) else 0
            if same:
                sd = back.descriptors[0]
                want_sub = int(stype) in (0x34, 0x36, 0x38, 0x3A)
                same = 1 if (len(back.descriptors) == 1 and int(sd.segmentation_type) == int(stype)
                             and sd.segment_num == kwd.get('segment_num', 0) and sd.segments_expected == kwd.get('segments_expected', 0)
                             and sd.segmentation_duration == kwd['segmentation_duration']
                             and (not want_sub or (sd.sub_segment_num == kwd.get('sub_segment_num', 0)
                                                   and sd.sub_segments_expected == kwd.get('sub_segments_expected', 0)))) else 0
        except Exception as err:      # noqa: BLE001
            same = 0
        lines.append({'ev': 'rt', 'same': same, 'bytes': list(data), 'segmentation_type': int(stype), 'extra': sorted(extra),
                      'fields': {'event_id': {'mid': (e >> 16) & 0xFFFF, 'lo': e & 0xFFFF}, 'pts': limbs33(p), 'dur': limbs33(d),
                                 'program_id': pid, 'avail_num': an, 'avails_expected': an, 'auto_return': 1 if ar else 0}})
    return lines


def main(tier_: str) -> int:
    out = Outcome('C14', tier_)
    out.assumptions = [
        'containment of an event in a segment is judged at event-timescale resolution (floor of the segment bounds), the least demanding reading',
        'interval > 0 (interval <= 0 is C16\'s concern); schedules with values below 2^31 so that PTS arithmetic fits TLC integers',
        'emsg boxes are read by the independent walker; SCTE-35 sections are decoded in TLA+ at the fixed offsets of a splice_insert '
        'with program_splice_flag=1, duration_flag=1, splice_immediate_flag=0 (the only form the service generates)',
        'for count = 0 (unbounded) the out-of-band clause is not applicable: an unbounded schedule cannot be listed',
    ]
    from harness.app import DashApp
    rng = random.Random(seed() * 37 + 14)
    with scratch() as d:
        ra = run_tlc('EventsMC', 'EventsMC.cfg', workdir=d, workers=16, timeout=900)
        tlc_must_pass(ra, 'EventsMC (A)')
        import logging
        logging.disable(logging.CRITICAL)
        with DashApp(d / 'app', fixtures=('bbb',)) as da:
            with da.app.test_request_context('/'):
                lines = pure_lines(rng, tier_)
            npure = len(lines)
            da.add_fixture('bbb', directory='evd', title='event schedules in the stream defaults', only={'bbb_v7', 'bbb_a1'},
                           defaults={'ping': {'start': 250, 'interval': 400, 'count': 3, 'duration': 150, 'timescale': 100, 'version': 0},
                                     'scte35': {'start': 300, 'interval': 900, 'count': 4, 'duration': 700, 'timescale': 100}})
            lines += http_lines(da, rng, tier_)
            nhttp = len(lines) - npure
            with da.app.test_request_context('/'):
                lines += roundtrip_lines(rng, tier_)
        for i, ln in enumerate(lines):
            ln['tid'] = i + 1
        # a media request with a legal event schedule that is answered 5xx delivers none of its events: judged by the trace
        # specification (ev "fail"); 4xx answers (a schedule the service refuses) are not C14's business
        fails = [x for x in lines if x['ev'] == 'fail']
        for x in fails:
            x.setdefault('sch', {})
        vs, st = validate_trace('EventsTrace', lines, workdir=d, chunk=8000, parallel=12)
        drift = 0
        seen: set[str] = set()
        for v in vs:
            lo = v['lineobj']
            if v['clause'].startswith('DRIFT_'):
                drift += 1
                continue
            case = {'ev': lo['ev'], 'layer': lo.get('layer'), 'kind': lo.get('kind'), 'url': lo.get('url'), 'sch': lo.get('sch'),
                    's': lo.get('s'), 'e': lo.get('e'), 'rts': lo.get('rts'), 'detail': v['detail'], 'fields': lo.get('fields')}
            key = f"{v['clause']}|{lo['ev']}|{lo.get('layer')}|{lo.get('kind')}|{(lo.get('sch') or {}).get('count')}"
            if key in seen:
                continue
            seen.add(key)
            out.add(Violation('C14', v['clause'], case))
        segs = [x for x in lines if x['ev'] == 'seg']
        out.coverage.update({
            'states': ra.distinct, 'transitions': ra.generated, 'traces_validated_against_impl': len(lines),
            'evaluations': len(lines), 'distinct_nontrivial': len({(str(x['sch']), x['s'], len(x['boxes'])) for x in segs if x['boxes']}),
            'rule': 'one evaluation per segment / manifest / SCTE-35 signal; distinct = distinct (schedule, segment start, number of events '
                    'carried) among segments that carry at least one event',
            'exhaustive': tier_ == 'thorough', 'model_drift': drift, 'pure_segments': npure, 'http_lines': nhttp,
            'segments_with_events': sum(1 for x in segs if x['boxes']), 'segments_with_several': sum(1 for x in segs if len(x['boxes']) > 1),
            'scte35_sections_decoded': sum(len(x.get('scte', [])) for x in lines) + sum(1 for x in lines if x['ev'] == 'rt'),
            'samples': [next(x for x in segs if x['boxes']), next(x for x in lines if x['ev'] == 'rt')],
            'bounds': 'small grid: start 0..6 x interval 1..5 x count 0..4 x 5 timescale pairs x emsg v0/v1 x 12 segments of 3 durations; HTTP: '
                      '7 schedules (+30 random in thorough) x ping/scte35 x 10 vod segments + 13 live segments across a loop + out-of-band manifests',
        })
    return out.finish('model_checking')
