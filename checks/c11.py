"""C11 - DRM key and licence data is cryptographically and structurally correct.
(A) TLC DrmDataMC: ClearKey response rule and ContentProtection decision table, exhaustive small scope.
(B) test vectors through the real helpers (GUID order, PlayReady content key, PlayReady Object);
(C) the real /clearkey endpoint, ContentProtection elements of real manifests and the pssh boxes of the
    matching init segments.  TLC validates every line (DrmDataTrace); the key derivation and checksum are
    recomputed by the spec with SHA-256 / AES-128 called as oracles through IOExec."""
from __future__ import annotations

import base64
import datetime
import html
import io
import random
import re
import struct
import uuid
from types import SimpleNamespace
from typing import Any

from harness.core import VERIF, MachineryFailure, Outcome, Violation, run_tlc, scratch, seed, tlc_must_pass, validate_trace
from harness import mpd as M

ORACLE = str(VERIF / 'harness' / 'oracle.py')
PLAYREADY = '9a04f079-9840-4286-ab92-e65be0885f95'
PLAYREADY_V10 = '79f0049a-4098-8642-ab92-e65be0885f95'
CLEARKEY_PSSH = '1077efec-c0b2-4d02-ace3-3c1e52e2fb4b'
CLEARKEY_MPD = 'e2719d58-a985-b3c9-781a-b030af78d30e'
MARLIN = '5e629af5-38da-4063-8977-97ffbd9902d4'


def read_pro(pro: bytes) -> dict[str, Any]:
    """independent PlayReady Object reader"""
    out: dict[str, Any] = {'ok': 0, 'kids': [], 'checksums': [], 'la_url': None, 'version': ''}
    if len(pro) < 10:
        return out
    total, count = struct.unpack_from('<IH', pro, 0)
    if total != len(pro):
        return out
    p = 6
    for _ in range(count):
        rtype, rlen = struct.unpack_from('<HH', pro, p)
        p += 4
        rec = pro[p:p + rlen]
        p += rlen
        if rtype != 1:
            continue
        xml = rec.decode('utf-16-le')
        # a licence client parses the header as XML: it has to be well formed, and the licence URL is the element's text
        try:
            import xml.etree.ElementTree as ET
            root = ET.fromstring(xml)
            out['wf'] = 1
            la = next((e for e in root.iter() if e.tag.rsplit('}', 1)[-1] == 'LA_URL'), None)
            out['la_url_xml'] = la.text if la is not None else None
        except Exception:      # noqa: BLE001
            out['wf'] = 0
            out['la_url_xml'] = None
        m = re.search(r'<WRMHEADER[^>]*version="([\d.]+)"', xml)
        out['version'] = m.group(1) if m else ''
        m = re.search(r'<LA_URL>(.*?)</LA_URL>', xml, re.S)
        out['la_url'] = html.unescape(m.group(1)) if m else None
        for km in re.finditer(r'<KID(\s[^>]*)?>([^<]*)</KID>|<KID(\s[^>]*)?/>', xml):
            attrs = km.group(1) or km.group(3) or ''
            text = km.group(2) or ''
            v = re.search(r'VALUE="([^"]+)"', attrs)
            cs = re.search(r'CHECKSUM="([^"]+)"', attrs)
            b64 = v.group(1) if v else text.strip()
            try:
                out['kids'].append(list(base64.b64decode(b64)))
            except Exception:      # noqa: BLE001
                out['kids'].append([])
            out['checksums'].append(list(base64.b64decode(cs.group(1))) if cs else [])
        m = re.search(r'<CHECKSUM>([^<]+)</CHECKSUM>', xml)
        if m and out['checksums'] and not out['checksums'][0]:
            out['checksums'][0] = list(base64.b64decode(m.group(1)))
        out['ok'] = 1
    return out


def b64url(b: bytes) -> str:
    return base64.urlsafe_b64encode(b).decode().rstrip('=')


def parse_sel(q: str) -> list[dict[str, Any]]:
    m = re.search(r'drm=([^&]*)', q)
    val = m.group(1).lower() if m else ''
    allloc = ['pro', 'cenc', 'moov']
    if val in ('', 'none'):
        return []
    if val.startswith('all'):
        locs = val.split('-')[1:] or allloc
        return [{'sys': s, 'locs': locs} for s in ('playready', 'clearkey', 'marlin')]
    out = []
    for item in val.split(','):
        parts = item.split('-')
        out.append({'sys': parts[0], 'locs': parts[1:] or allloc})
    return out


def main(tier_: str) -> int:
    out = Outcome('C11', tier_)
    out.assumptions = [
        'SHA-256 and AES-128-ECB are oracles (hashlib; pure-Python AES checked against FIPS-197) evaluated by TLC through IOExec on byte '
        'strings the specification constructs',
        'PlayReady Objects are read back by an independent reader (little-endian record framing, UTF-16LE WRMHEADER, regular expressions)',
        'for PlayReady version 1.0 the service emits only mspr:pro in the manifest (documented PIFF behaviour): cenc:pssh is not demanded then',
    ]
    from harness.app import DashApp
    rng = random.Random(seed() * 43 + 11)
    import subprocess
    if subprocess.run(['python3', ORACLE, 'selftest']).returncode != 0:
        raise MachineryFailure('oracle self-test failed')
    with scratch() as d:
        env = {'ORACLE': ORACLE}
        ra = run_tlc('DrmDataMC', 'DrmDataMC.cfg', workdir=d, workers=8, timeout=600, env=env)
        tlc_must_pass(ra, 'DrmDataMC (A)')
        lines: list[dict[str, Any]] = []
        with DashApp(d / 'app', fixtures=('bbb',)) as da:
            from dashlive.drm.playready import PlayReady
            from dashlive.drm.keymaterial import KeyMaterial
            kids = [bytes([1 << (i % 8) if j == i // 8 else 0 for j in range(16)]) for i in range(0, 128, 9)]
            kids += [bytes(range(16)), bytes(range(255, 239, -1)), bytes(16), bytes([255] * 16)]
            kids += [bytes(rng.randrange(256) for _ in range(16)) for _ in range(8 if tier_ == 'quick' else 60)]
            for kid in kids:
                le = PlayReady.hex_to_le_guid(kid, raw=True)
                le2 = PlayReady.hex_to_le_guid(str(uuid.UUID(bytes=kid)), raw=False)
                lines.append({'ev': 'guid', 'kid': list(kid), 'le': list(le)})
                lines.append({'ev': 'guid', 'kid': list(kid), 'le': list(bytes.fromhex(le2.replace('-', '')))})
            seeds = [PlayReady.TEST_KEY_SEED, bytes(range(30)), bytes(range(31)), bytes(rng.randrange(256) for _ in range(64)), bytes([0xAA] * 40)]
            for kid in (kids if tier_ == 'thorough' else rng.sample(kids, 8)):
                for sd in (seeds if tier_ == 'thorough' else rng.sample(seeds, 2)):
                    key = bytes(PlayReady.generate_content_key(kid, sd))
                    lines.append({'ev': 'key', 'kid': list(kid), 'seed': list(sd), 'key': list(key)})
            # PlayReady Objects: versions, key sets 1..3, licence URLs with reserved characters / format fields
            la_urls = ['https://lic.example.test/rights?cfg=a&b=c', 'https://lic.example.test/<x>"y"&%20z', 'http://h/p?k={default_kid}',
                       PlayReady.TEST_LA_URL]
            with da.app.test_request_context('/'):
                def one_pro(hv, nk, la, ks, order, keys):
                    pr = PlayReady(la_url=la, header_version=hv)
                    try:
                        pro = pr.generate_pro(la, ks[0].hex(), keys, None)
                    except Exception as err:      # noqa: BLE001
                        lines.append({'ev': 'pro_error', 'hv': hv, 'nk': nk, 'err': f'{type(err).__name__}: {err}'[:200]})
                        return
                    rp = read_pro(pro)
                    # 4.0 / 4.1 headers list the default key only; 4.2 / 4.3 list the key set in its own order
                    want_kids = ks[:1] if rp['version'] in ('4.0.0.0', '4.1.0.0') else order
                    cfgs = ''
                    try:
                        exp_la = la.format(cfgs='{cfgs}', default_kid=ks[0].hex(), kids='{kids}')
                    except Exception:      # noqa: BLE001
                        exp_la = la
                    got_la = rp['la_url'] or ''
                    # {cfgs} / {kids} expansions are not constrained here: compare the parts around them
                    la_eq = 1 if (got_la == exp_la or ('{cfgs}' in exp_la and got_la.startswith(exp_la.split('{cfgs}')[0]))) else 0
                    if not rp.get('wf') or (rp.get('la_url_xml') or '') != got_la:
                        la_eq = 0        # not well-formed XML, or the XML reading of LA_URL differs from the textual one
                    # the {cfgs} format field names every key of the set inside the licence URL:
                    # (kid:<base64 of the little-endian GUID>,persist:false,sl:<n>[,contentkey:<base64 key>]),...
                    has_cfgs = 1 if '{cfgs}' in la else 0
                    cfg_kids, cfg_keys = [], []
                    if has_cfgs:
                        for mm in re.finditer(r'\(kid:([A-Za-z0-9+/=]+)((?:,[a-z]+:[^,)]*)*)\)', got_la):
                            try:
                                cfg_kids.append(list(base64.b64decode(mm.group(1))))
                                ck = re.search(r'contentkey:([A-Za-z0-9+/=]+)', mm.group(2))
                                cfg_keys.append(list(base64.b64decode(ck.group(1))) if ck else [])
                            except Exception:      # noqa: BLE001
                                cfg_kids.append([])
                                cfg_keys.append([])
                    lines.append({'ev': 'pro', 'hv': str(hv), 'version': rp['version'], 'kids': [list(k) for k in want_kids],
                                  'has_cfgs': has_cfgs, 'cfg_kids': cfg_kids, 'cfg_keys': cfg_keys,
                                  'all_kids': [list(k) for k in order], 'all_keys': [list(keys[k.hex()].KEY.raw) for k in order],
                                  'keys': [list(keys[k.hex()].KEY.raw) for k in want_kids], 'la_eq': la_eq,
                                  'pro_kids': rp['kids'], 'pro_checksums': rp['checksums'], 'la_url': la, 'got_la_url': got_la})
                for hv in (None, 4.0, 4.1, 4.2, 4.3):
                    for nk in (1, 2, 3):
                        for la in (la_urls if tier_ == 'thorough' else la_urls[:1] + la_urls[-1:] + rng.sample(la_urls[1:-1], 1)):      # the '&' and the {cfgs} URL always
                            ks = rng.sample(kids[-8:], nk)
                            # the default key id (first of ks) takes every position of the key set: 4.0 / 4.1 headers
                            # name only the default key and must carry that key's checksum
                            order = list(ks)
                            rng.shuffle(order)
                            if nk > 1 and order[-1] == ks[0]:
                                order = [order[-1]] + order[:-1]      # never last: the position that matters most
                            keys = {}
                            for k in order:
                                key = bytes(PlayReady.generate_content_key(k))
                                keys[k.hex()] = SimpleNamespace(KID=KeyMaterial(raw=k), KEY=KeyMaterial(raw=key), ALG='AESCTR', computed=False)
                            one_pro(hv, nk, la, ks, order, keys)
                # the key of a key id is replaced (key edit page, or a computed key made explicit) and the same object is asked
                # for again: it carries the checksum of the key now in force
                import hashlib as _hl
                for hv in (None, 4.0, 4.1, 4.2, 4.3):
                    for la in (la_urls[:1], la_urls[-1:])[0 if hv != 4.2 else 1]:
                        ks = rng.sample(kids[-8:], 2)
                        for gen in (0, 1, 2):
                            keys = {}
                            for k in ks:
                                key = bytes(PlayReady.generate_content_key(k)) if gen == 0 else _hl.sha256(k + bytes([gen])).digest()[:16]
                                keys[k.hex()] = SimpleNamespace(KID=KeyMaterial(raw=k), KEY=KeyMaterial(raw=key), ALG='AESCTR', computed=(gen == 0))
                            one_pro(hv, 2, la, ks, list(ks), keys)
            # ---- ClearKey endpoint ---------------------------------------------------------------
            from dashlive.server import models
            with da.app.app_context():
                # ids and keys whose base64 text uses each of the two characters that base64url replaces ('+' -> '-', '/' -> '_')
                extra = [(bytes(range(16, 32)), bytes(range(32, 48))), (bytes([7] * 16), bytes([9] * 16)),
                         (bytes([0xfb] * 16), bytes([0xff] * 16)), (bytes([0xff] * 15 + [0x01]), bytes([0xfb, 0xef, 0xbe] * 5 + [0x3e])),
                         (bytes([0x01] * 13 + [0xfb, 0xe0, 0x00]), bytes([0x02] * 13 + [0x03, 0xff, 0xc0]))]
                for k, v in extra:
                    models.db.session.add(models.Key(hkid=k.hex(), hkey=v.hex(), computed=False))
                models.db.session.commit()
                def _hx(x):
                    return bytes.fromhex(x.decode() if isinstance(x, bytes) else x)
                store = [{'kid': list(_hx(r.hkid)), 'key': list(_hx(r.hkey))} for r in models.Key.all()]
            c = da.client()
            known = [bytes(s['kid']) for s in store]
            unknown = [bytes([0x55] * 16), bytes(range(100, 116))]
            reqs = [[known[0]], [unknown[0]], [known[0], known[1]], [known[0], known[0]], [unknown[0], known[2], unknown[1]], [], known + unknown]
            reqs += [[k] for k in known[-3:]] + [[bytes([0xfb] * 15 + [0xfa])]]
            # ids that are not 16 bytes long are unknown ids like any other: a short one, the ASCII hex text and the base64 text of a
            # stored id (32 / 24 bytes), alone and next to a known id
            odd = [bytes([0xf0, 0xf1, 0xf2, 0xf3, 0xf4]), known[0].hex().encode('ascii'), base64.b64encode(known[1]), b'', bytes(17)]
            reqs += [[o] for o in odd] + [[known[0], o] for o in odd] + [[odd[1], known[2], odd[2]]]
            for _ in range(6 if tier_ == 'quick' else 60):
                reqs.append([rng.choice(known + unknown) for _ in range(rng.randrange(0, 5))])
            for rq in reqs:
                r = c.post('/clearkey', json={'kids': [b64url(k) for k in rq], 'type': 'temporary'})
                js = r.get_json(silent=True) or {}
                resp = []
                ok_fmt = 1
                for item in js.get('keys', []) if isinstance(js, dict) else []:
                    try:
                        kid = base64.urlsafe_b64decode(item['kid'] + '=' * (-len(item['kid']) % 4))
                        key = base64.urlsafe_b64decode(item['k'] + '=' * (-len(item['k']) % 4))
                        if '=' in item['kid'] or '=' in item['k'] or '+' in item['kid'] + item['k'] or '/' in item['kid'] + item['k']:
                            ok_fmt = 0
                        resp.append({'kid': list(kid), 'key': list(key)})
                    except Exception:      # noqa: BLE001
                        ok_fmt = 0
                lines.append({'ev': 'clearkey', 'store': store, 'requested': [list(k) for k in rq], 'response': resp,
                              'status': r.status_code if ok_fmt else 599})
            # ---- ContentProtection elements of manifests vs pssh of init segments -----------------------
            from checks.segrewrite import drm_vectors
            from harness.walker import Parsed
            da.clock.set(datetime.datetime(2024, 3, 5, 12, 0, 0, tzinfo=datetime.timezone.utc))
            # ---- the licence URL stored with the stream (format fields, escapes of its own, '+') is the one every PlayReady
            # Object of its manifests names (mspr:pro, and the PRO inside cenc:pssh)
            stored_la = 'https://lic.example.test/pr/rights.asmx?kid={default_kid}&token=a%2Bb%3D%3D&next=https%3A%2F%2Fcdn.example.test%2Fdone+ok'
            with da.app.app_context():
                st_ = models.Stream.get(directory='bbb')
                old_la = st_.playready_la_url
                st_.playready_la_url = stored_la
                models.db.session.commit()
            for q_ in ('drm=playready', 'drm=playready-pro', 'drm=all&playready__version=4.0'):
                r = c.get(f'/dash/vod/bbb/hand_made.mpd?{q_}')
                got_las: list[str] = []
                exp_la = ''
                if r.status_code == 200:
                    proj = M.project(r.data, 'http://localhost/x')
                    for adp in proj['periods'][0]['adaptation_sets']:
                        kid_hex = ''
                        for cp in adp['content_protection'] or []:
                            if (cp['attrs'].get('schemeIdUri') or '').lower() == 'urn:mpeg:dash:mp4protection:2011':
                                kid_hex = (cp['attrs'].get('default_KID') or '').replace('-', '').lower()
                        for cp in adp['content_protection'] or []:
                            if 'pro' in cp['children']:
                                try:
                                    got_las.append(read_pro(base64.b64decode(cp['children']['pro']))['la_url'] or '')
                                except Exception:      # noqa: BLE001
                                    got_las.append('?')
                                exp_la = stored_la.format(default_kid=kid_hex, cfgs='', kids='')
                lines.append({'ev': 'stream_la', 'url': f'/dash/vod/bbb/hand_made.mpd?{q_}', 'status': r.status_code, 'expected': exp_la,
                              'got': sorted(set(got_las))})
            with da.app.app_context():
                st_ = models.Stream.get(directory='bbb')
                st_.playready_la_url = old_la
                models.db.session.commit()
            for qv in drm_vectors(tier_, rng):
                sel = parse_sel(qv)
                if not sel:
                    continue
                for tmpl in (('hand_made.mpd', 'manifest_e.mpd') if tier_ == 'thorough' else ('hand_made.mpd',)):
                    url = f'/dash/vod/bbb/{tmpl}?{qv}'
                    r = c.get(url)
                    if r.status_code != 200:
                        lines.append({'ev': 'refused', 'url': url, 'status': r.status_code})
                        continue
                    proj = M.project(r.data, 'http://localhost' + url)
                    v1 = 1 if re.search(r'playready__version=1\.0', qv) else 0
                    for adp in proj['periods'][0]['adaptation_sets']:
                        cps = adp['content_protection']
                        if not cps:
                            continue
                        rep = adp['representations'][0]
                        obs = {'mp4protection': 0, 'playready': 0, 'playready_pssh': 0, 'playready_pro': 0, 'clearkey_pssh': 0, 'marlin': 0}
                        kid_attr = None
                        mpd_pssh: dict[str, bytes] = {}
                        for cp in cps:
                            sid = (cp['attrs'].get('schemeIdUri') or '').lower()
                            if sid == 'urn:mpeg:dash:mp4protection:2011':
                                obs['mp4protection'] = 1
                                kid_attr = cp['attrs'].get('default_KID')
                            elif sid in (f'urn:uuid:{PLAYREADY}', f'urn:uuid:{PLAYREADY_V10}'):
                                obs['playready'] = 1
                                if 'pssh' in cp['children']:
                                    obs['playready_pssh'] = 1
                                    mpd_pssh['playready'] = base64.b64decode(cp['children']['pssh'])
                                if 'pro' in cp['children']:
                                    obs['playready_pro'] = 1
                                    mpd_pssh['pro'] = base64.b64decode(cp['children']['pro'])
                            elif sid == f'urn:uuid:{CLEARKEY_PSSH}':
                                if 'pssh' in cp['children']:
                                    obs['clearkey_pssh'] = 1
                                    mpd_pssh['clearkey'] = base64.b64decode(cp['children']['pssh'])
                            elif sid == f'urn:uuid:{MARLIN}':
                                obs['marlin'] = 1
                        # the track's KID from the stored init segment
                        from harness.stored import stored
                        sf = stored(da.blob_folder / 'bbb' / f"{rep['id']}.mp4")
                        pinit = Parsed(sf.data[:sf.init_end])
                        kid = next((b.f['default_kid'] for b in pinit.boxes() if b.name == 'tenc'), None)
                        kid_eq = 1 if kid is not None and kid_attr and kid_attr.replace('-', '').lower() == kid.hex() else 0
                        # init segment of the same request: embedded pssh equal to the manifest's
                        ri = c.get(f"/dash/vod/bbb/{rep['id']}/init.{'m4v' if adp['contentType'] == 'video' else 'm4a'}?{qv}")
                        pssh_eq = 1
                        if ri.status_code == 200:
                            pi = Parsed(ri.data)
                            moov = pi.find('moov')
                            for b in [x for x in moov.children if x.name == 'pssh']:
                                raw = ri.data[b.pos:b.end]
                                sysid = b.f['system_id'].hex()
                                if sysid == PLAYREADY.replace('-', '') and 'playready' in mpd_pssh and raw != mpd_pssh['playready']:
                                    pssh_eq = 0
                                if sysid == CLEARKEY_PSSH.replace('-', '') and 'clearkey' in mpd_pssh and raw != mpd_pssh['clearkey']:
                                    pssh_eq = 0
                                if sysid == PLAYREADY.replace('-', '') and 'pro' in mpd_pssh and b.f['data'] != mpd_pssh['pro']:
                                    pssh_eq = 0
                        else:
                            pssh_eq = 0
                        lines.append({'ev': 'cp', 'url': url, 'rep': rep['id'], 'sel': sel, 'v1': v1, 'obs': obs, 'kid_eq': kid_eq, 'pssh_eq': pssh_eq})
        for i, ln in enumerate(lines):
            ln['tid'] = i + 1
        vs, st = validate_trace('DrmDataTrace', lines, workdir=d, chunk=120, parallel=14, env=env, timeout=1200)
        seen: set[str] = set()
        for v in vs:
            lo = v['lineobj']
            case = {k: lo.get(k) for k in ('ev', 'url', 'rep', 'sel', 'obs', 'hv', 'version', 'la_url', 'got_la_url', 'requested', 'status', 'kid', 'kid_eq', 'pssh_eq',
                                           'expected', 'got')}
            case['detail'] = v['detail']
            key = f"{v['clause']}|{lo['ev']}|{lo.get('hv')}|{str(lo.get('sel'))[:60]}|{lo.get('la_url')}"
            if key in seen:
                continue
            seen.add(key)
            out.add(Violation('C11', v['clause'], case))
        kinds = {k: sum(1 for x in lines if x['ev'] == k) for k in ('guid', 'key', 'pro', 'clearkey', 'cp', 'pro_error', 'refused')}
        for k in ('guid', 'key', 'pro', 'clearkey', 'cp'):
            if kinds[k] == 0:
                raise MachineryFailure(f'vacuity guard: no "{k}" line')
        out.coverage.update({
            'states': ra.distinct, 'transitions': max(1, ra.generated), 'traces_validated_against_impl': len(lines),
            'evaluations': len(lines), 'distinct_nontrivial': len({str({k: x.get(k) for k in ('ev', 'kid', 'seed', 'hv', 'la_url', 'requested', 'url', 'rep')}) for x in lines}),
            'rule': 'one evaluation per test vector / endpoint request / AdaptationSet; distinct = distinct inputs',
            'exhaustive': False, 'kinds': kinds,
            'samples': [next(x for x in lines if x['ev'] == 'key'), next(x for x in lines if x['ev'] == 'cp')],
            'bounds': f'tier {tier_}: one-hot + random key ids, seeds of 30/31/40/64 bytes, WRMHEADER 4.0-4.3 with 1..3 keys, licence URLs with '
                      'reserved characters and format fields, ClearKey requests with known/unknown/duplicate ids, every DRM selection vector',
        })
        errs = [x for x in lines if x['ev'] in ('pro_error', 'refused')]
        if errs:
            out.notes.append('skipped: ' + '; '.join(sorted({str({k: x.get(k) for k in ('ev', 'hv', 'nk', 'err', 'url', 'status')}) for x in errs})[:6]))
    return out.finish('model_checking')
