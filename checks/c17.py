"""C17 - management histories keep the store consistent and the service up.

(A) TLC StoreMC: implementation-shaped abstract machine of the management handlers, all histories
    to depth 7 over 2 directories x 2 media names x 1 key x 1 multi-period stream.
(B) scripted + seeded random histories over the same operation alphabet (existing and
    non-existing objects, repeated names) driven through the real HTTP management API as the media
    user; after every step the SQLite rows and the blob folder are projected to the abstract
    store, every listed stream / multi-period stream has its manifest fetched and uploaded files
    are read back; TLC validates every step against StoreTrace.
"""
from __future__ import annotations

import io
import json
import random
import sqlite3
from typing import Any

from harness.core import MachineryFailure, Outcome, Violation, run_tlc, scratch, seed, tlc_must_pass, validate_trace

DIRS = ['s1', 's2']
NAMES = ['fa', 'fv', 'fe', 'fb']
KIDS = ['00112233445566778899aabbccddee01',
        '1ab45440532c439994dc5c5ad9584bac']       # the second is the key id of the encrypted fixture file 'fe'
MPS = ['mm1', 'mz1']      # mz*: created with period duration "PT0S" (= the whole stream)


def canon_kid(text) -> str:
    t = (text.decode('ascii', 'replace') if isinstance(text, bytes) else str(text)).strip()
    h = t[2:] if t.lower().startswith('0x') else t
    h = h.replace('-', '')
    if len(h) == 32:
        try:
            return bytes.fromhex(h).hex()
        except ValueError:
            pass
    try:
        import base64 as _b64
        raw = _b64.b64decode(t + '=' * (-len(t) % 4))
        if len(raw) == 16:
            return raw.hex()
    except Exception:      # noqa: BLE001
        pass
    return t


def spell_kid(kid: str, spelling: str) -> str:
    import uuid as _uuid
    return {'': kid, 'upper': kid.upper(), 'dashed': str(_uuid.UUID(kid)), '0x': '0x' + kid}[spelling]


class StoreDriver:
    def __init__(self, da) -> None:
        from harness.mgmt import Session
        self.da = da
        self.s = Session(da, 'media')
        src = da.blob_folder.parent.parent / 'srcmedia'
        self.content = {}
        self.edited: set[str] = set()     # names whose stored file the server has rewritten since the upload

    def load_content(self, fixtures_dir) -> None:
        self.content = {
            'fa': (fixtures_dir / 'bbb' / 'bbb_t1.mp4').read_bytes(),
            'fv': (fixtures_dir / 'bbb' / 'bbb_v7.mp4').read_bytes(),
            'fe': (fixtures_dir / 'bbb' / 'bbb_a1_enc.mp4').read_bytes(),
            # not a fragmented file: indexing it leaves a media_file_error row behind
            'fb': (fixtures_dir / 'moov.mp4').read_bytes(),
        }

    # -- projection -----------------------------------------------------------------------
    def state(self) -> dict[str, Any]:
        con = sqlite3.connect(f'file:{self.da.instance / "models.db3"}?mode=ro', uri=True)
        try:
            streams = []
            for pk, d, tref in con.execute('select pk, directory, timing_reference from Stream'):
                name = ''
                if tref:
                    try:
                        name = (json.loads(tref) or {}).get('media_name') or ''
                    except (ValueError, AttributeError):
                        name = '?'
                streams.append({'pk': pk, 'dir': d, 'tref': name})
            dirs = {s['pk']: s['dir'] for s in streams}
            blobs = {pk: fn for pk, fn in con.execute('select pk, filename from Blob')}
            files = []
            for pk, name, spk, bpk, rep in con.execute('select pk, name, stream, blob, rep from media_file'):
                ondisk = 0
                if spk in dirs and bpk in blobs and (self.da.blob_folder / dirs[spk] / blobs[bpk]).exists():
                    ondisk = 1
                files.append({'pk': pk, 'name': name, 'stream': spk, 'blob': bpk, 'ondisk': ondisk, 'indexed': 1 if rep else 0})
            # a key id is 128 bits: rows are identified by the value, however the stored text spells it
            keys = [{'pk': pk, 'kid': canon_kid(kid)} for pk, kid in con.execute('select pk, hkid from key')]
            links = [{'media': m, 'key': k} for m, k in con.execute('select media_pk, key_pk from mediafile_keys')]
            mps = [{'pk': pk, 'name': n} for pk, n in con.execute('select pk, name from mp_stream')]
            periods = [{'pk': pk, 'parent': par if par is not None else -1, 'stream': st if st is not None else -1}
                       for pk, par, st in con.execute('select pk, parent_pk, stream_pk from period')]
            adps = [{'pk': pk, 'period': p if p is not None else -1, 'ctype': ct or ''} for pk, p, ct in con.execute(
                'select a.pk, a.period_pk, c.name from adaptation_set a left join content_type c on c.pk = a.content_type_pk')]
            errors = [{'pk': pk, 'media': m if m is not None else -1} for pk, m in con.execute('select pk, media_pk from media_file_error')]
        finally:
            con.close()
        return {'streams': streams, 'files': files, 'blobs': sorted(blobs), 'keys': keys, 'links': links, 'mps': mps,
                'periods': periods, 'adps': adps, 'errors': errors}

    def _spk(self, st, d):
        return next((s['pk'] for s in st['streams'] if s['dir'] == d), None)

    def _file(self, st, n):
        return next((f for f in st['files'] if f['name'] == n), None)

    # -- operations: return (http status, applied?, pk the operation addressed) -------------
    def do(self, op: str, a: str, b: str, st: dict[str, Any]) -> tuple[int, int, int]:
        s = self.s
        anyspk = st['streams'][0]['pk'] if st['streams'] else 1
        if not s.csrf_cookie():
            s.harvest(anyspk)
            if not s.csrf_cookie():
                s.client.get('/streams/add', headers=s.headers())
        if op == 'add_stream':
            r = s.request('PUT', '/streams/add?ajax=1', json={'csrf_token': s.mint('streams'), 'title': f'Stream {a}', 'directory': a,
                                                             'marlin_la_url': '', 'playready_la_url': ''})
            js = r.get_json(silent=True) or {}
            return r.status_code, 1 if js.get('id') else 0, js.get('id') or 0
        if op == 'delete_stream':
            spk = self._spk(st, a) or 9999
            r = s.request('DELETE', f'/stream/{spk}/delete?csrf_token={s.mint("streams")}&ajax=1')
            js = r.get_json(silent=True) or {}
            return r.status_code, 1 if js.get('deleted') else 0, spk
        if op == 'upload':
            spk = self._spk(st, a) or 9999
            r = s.request('POST', f'/media/{spk}/blob?ajax=1',
                          data={'csrf_token': s.mint('upload'), 'file': (io.BytesIO(self.content[b]), f'{b}.mp4')},
                          content_type='multipart/form-data')
            js = r.get_json(silent=True) or {}
            mfid = js.get('pk')
            if mfid:
                self.edited.discard(b)
                s.request('GET', f'/media/index/{mfid}?csrf_token={s.mint("files")}&ajax=1')
            return r.status_code, 1 if mfid else 0, spk
        if op == 'upload_raw':
            # the upload alone, as a browser sends it (part type video/mp4 for *.mp4, whatever the track is); indexing is a separate call
            spk = self._spk(st, a) or 9999
            r = s.request('POST', f'/media/{spk}/blob?ajax=1',
                          data={'csrf_token': s.mint('upload'), 'file': (io.BytesIO(self.content[b]), f'{b}.mp4', 'video/mp4')},
                          content_type='multipart/form-data')
            js = r.get_json(silent=True) or {}
            if js.get('pk'):
                self.edited.discard(b)
            return r.status_code, 1 if js.get('pk') else 0, spk
        if op == 'index':
            mf = next((f for f in st['files'] if f['name'] == a), None)
            mfid = mf['pk'] if mf else 9999
            r = s.request('GET', f'/media/index/{mfid}?csrf_token={s.mint("files")}&ajax=1')
            return r.status_code, 1 if r.status_code == 200 and mf else 0, mfid
        if op == 'delete_media':
            f = self._file(st, a)
            spk, mfid = (f['stream'], f['pk']) if f else (anyspk, 9999)
            r = s.request('DELETE', f'/stream/{spk}/{mfid}/delete?csrf_token={s.mint("files")}&ajax=1')
            js = r.get_json(silent=True) or {}
            return r.status_code, 1 if js.get('deleted') else 0, mfid
        if op == 'edit_media':
            f = self._file(st, a)
            spk, mfid = (f['stream'], f['pk']) if f else (anyspk, 9999)
            track = 1
            if f:
                con = sqlite3.connect(f'file:{self.da.instance / "models.db3"}?mode=ro', uri=True)
                try:
                    row = con.execute('select track_id from media_file where pk = ?', (mfid,)).fetchone()
                    track = row[0] if row and row[0] else 1
                finally:
                    con.close()
            r = s.request('POST', f'/stream/{spk}/{mfid}/edit', data={'csrf_token': s.mint('files'), 'track_id': str(track), 'lang': b})
            if f and r.status_code in (200, 302):
                self.edited.add(a)
            return r.status_code, 1 if f and r.status_code == 302 else 0, mfid
        if op == 'set_tref':
            spk = self._spk(st, a) or 9999
            srow = next((x for x in st['streams'] if x['pk'] == spk), None)
            r = s.request('POST', f'/stream/{spk}?ajax=1', json={'csrf_token': s.mint('streams'), 'title': f'Stream {a} edited',
                                                                 'directory': a, 'marlin_la_url': '', 'playready_la_url': '',
                                                                 'timing_ref': b})
            return r.status_code, 1 if r.status_code == 200 and srow else 0, spk
        if op == 'rename_stream':
            spk = self._spk(st, a) or 9999
            srow = next((x for x in st['streams'] if x['pk'] == spk), None)
            r = s.request('POST', f'/stream/{spk}?ajax=1', json={'csrf_token': s.mint('streams'), 'title': f'Stream {a} renamed',
                                                                 'directory': b, 'marlin_la_url': '', 'playready_la_url': '',
                                                                 'timing_ref': (srow or {}).get('tref') or ''})
            return r.status_code, 1 if r.status_code == 200 and srow else 0, spk
        if op == 'add_key':
            r = s.request('PUT', f'/key?kid={spell_kid(a, b)}&csrf_token={s.mint("keys")}')      # b: how the id is written
            js = r.get_json(silent=True) or {}
            return r.status_code, 1 if js.get('kid') else 0, 0
        if op == 'delete_key':
            kpk = next((k['pk'] for k in st['keys'] if k['kid'] == a), 9999)
            r = s.request('DELETE', f'/key/{kpk}/delete?csrf_token={s.mint("keys")}')
            js = r.get_json(silent=True) or {}
            return r.status_code, 1 if js.get('deleted') else 0, kpk
        if op == 'add_mps':
            spk = self._spk(st, b) or 9999
            body = {'csrf_token': s.mint('streams'), 'name': a, 'title': f'MPS {a}', 'options': None, 'pk': None,
                    'periods': [{'pk': None, 'pid': 'p1', 'stream': spk, 'ordering': 1, 'start': 'PT0S',
                                 # "PT0S" (like "") stands for "the whole stream"
                                 'duration': 'PT0S' if a.startswith('mz') else 'PT8S', 'parent': None,
                                 'tracks': [{'track_id': 1, 'role': 'main', 'encrypted': False, 'lang': None, 'pk': None}]}]}
            r = s.request('PUT', '/api/multi-period-streams/.add', json=body)
            js = r.get_json(silent=True) or {}
            return r.status_code, 1 if js.get('success') else 0, 0
        if op == 'rename_mps':
            # edit of a multi-period stream as the editor page sends it: the current model with another name
            mpk = next((m['pk'] for m in st['mps'] if m['name'] == a), 9999)
            g = s.request('GET', f'/api/multi-period-streams/{a}?ajax=1')
            model = (g.get_json(silent=True) or {}).get('model')
            if not model:
                return g.status_code, 0, mpk
            body = dict(model)
            body.update(csrf_token=s.mint('streams'), name=b)
            r = s.request('POST', f'/api/multi-period-streams/{a}', json=body)
            js = r.get_json(silent=True) or {}
            return r.status_code, 1 if js.get('success') else 0, mpk
        if op == 'delete_mps':
            mpk = next((m['pk'] for m in st['mps'] if m['name'] == a), 9999)
            r = s.request('DELETE', f'/api/multi-period-streams/{a}?ajax=1&csrf_token={s.mint("streams")}')
            return r.status_code, 1 if r.status_code == 204 else 0, mpk
        raise MachineryFailure(f'unknown op {op}')

    def probe(self, st: dict[str, Any]) -> tuple[list[dict[str, Any]], int]:
        """every listed stream / mps serves its manifest or fails cleanly; indexed files read back"""
        c = self.s.client
        serve = []
        video_streams = {f['stream'] for f in st['files'] if f['name'] == 'fv' and f['indexed']}
        for srow in st['streams']:
            for url in (f"/dash/vod/{srow['dir']}/hand_made.mpd", f"/dash/live/{srow['dir']}/manifest_e.mpd", f"/stream/{srow['pk']}"):
                r = c.get(url)
                serve.append({'kind': 'stream', 'name': srow['dir'], 'url': url, 'status': r.status_code,
                              'has_video': 1 if srow['pk'] in video_streams else 0,
                              'exc': self.da.exceptions[-1] if r.status_code >= 500 and self.da.exceptions else {}})
        for m in st['mps']:
            for url in (f"/mps/vod/{m['name']}/hand_made.mpd", f"/mps/live/{m['name']}/hand_made.mpd"):
                r = c.get(url)
                serve.append({'kind': 'mps', 'name': m['name'], 'url': url, 'status': r.status_code,
                              'has_video': 1 if all(p['stream'] in video_streams and any(
                                  a['period'] == p['pk'] and a['ctype'] == 'video' for a in st['adps'])
                                  for p in st['periods'] if p['parent'] == m['pk']) else 0,
                              'exc': self.da.exceptions[-1] if r.status_code >= 500 and self.da.exceptions else {}})
        for url in ('/streams', '/api/multi-period-streams?ajax=1'):
            r = c.get(url, headers=self.s.headers())
            serve.append({'kind': 'list', 'name': url, 'url': url, 'status': r.status_code, 'has_video': 1,
                          'exc': self.da.exceptions[-1] if r.status_code >= 500 and self.da.exceptions else {}})
        back = 1
        dirs = {s['pk']: s['dir'] for s in st['streams']}
        for f in st['files']:
            if f['indexed'] and f['stream'] in dirs and f['name'] in self.content and f['name'] not in self.edited:
                r = c.get(f"/dash/odvod/{dirs[f['stream']]}/{f['name']}.mp4", headers={'Range': 'bytes=0-'})
                if r.status_code != 206 or r.data != self.content[f['name']]:
                    back = 0
        return serve, back


SCRIPTS = [
    # a file that cannot be indexed is deleted, directly and with its stream
    [('add_stream', 's1', ''), ('upload', 's1', 'fb'), ('upload', 's1', 'fv'), ('delete_media', 'fb', ''), ('upload', 's1', 'fb'),
     ('upload', 's1', 'fb'), ('delete_stream', 's1', '')],
    # editing a media file: a valid and an invalid language tag (the latter leaves a media_file_error row), then deletions
    [('add_stream', 's1', ''), ('upload', 's1', 'fv'), ('upload', 's1', 'fa'), ('edit_media', 'fa', 'fra'), ('edit_media', 'fa', 'xyz'),
     ('delete_media', 'fa', ''), ('upload', 's1', 'fa'), ('edit_media', 'fa', 'xyz'), ('upload', 's1', 'fa'), ('edit_media', 'fa', 'xyz'),
     ('delete_stream', 's1', '')],
    [('add_stream', 's2', ''), ('upload', 's2', 'fv'), ('edit_media', 'fv', 'xyz'), ('set_tref', 's2', 'fv'), ('edit_media', 'nope', 'eng'),
     ('delete_media', 'fv', '')],
    # a multi-period stream whose only period is given the duration "PT0S"
    [('add_stream', 's1', ''), ('upload', 's1', 'fv'), ('set_tref', 's1', 'fv'), ('add_mps', 'mz1', 's1'), ('delete_mps', 'mz1', ''),
     ('add_mps', 'mz1', 's1'), ('add_mps', 'mm1', 's1'), ('delete_mps', 'mm1', '')],
    # editing a stream's directory: allowed while it is empty, must not strand the blobs of a stream that has media files
    [('add_stream', 's1', ''), ('rename_stream', 's1', 's2'), ('upload', 's2', 'fv'), ('set_tref', 's2', 'fv'), ('rename_stream', 's2', 's1'),
     ('upload', 's2', 'fa'), ('add_stream', 's1', ''), ('rename_stream', 's1', 's2'), ('delete_stream', 's2', '')],
    # a period keeps pointing at a deleted stream
    [('add_stream', 's1', ''), ('upload', 's1', 'fv'), ('set_tref', 's1', 'fv'), ('add_mps', 'mm1', 's1'), ('delete_stream', 's1', '')],
    # replace a stream by adding its directory again
    [('add_stream', 's1', ''), ('upload', 's1', 'fa'), ('upload', 's1', 'fv'), ('set_tref', 's1', 'fv'), ('add_stream', 's1', ''),
     ('upload', 's1', 'fv')],
    # the same file name in two streams
    [('add_stream', 's1', ''), ('add_stream', 's2', ''), ('upload', 's1', 'fv'), ('set_tref', 's1', 'fv'), ('upload', 's2', 'fv'),
     ('delete_media', 'fv', '')],
    # timing reference names a deleted file
    [('add_stream', 's2', ''), ('upload', 's2', 'fv'), ('upload', 's2', 'fa'), ('set_tref', 's2', 'fv'), ('delete_media', 'fv', ''),
     ('delete_media', 'fa', '')],
    # keys and encrypted media
    [('add_stream', 's1', ''), ('add_key', KIDS[0], ''), ('upload', 's1', 'fe'), ('upload', 's1', 'fv'), ('set_tref', 's1', 'fv'),
     ('delete_key', KIDS[0], ''), ('delete_media', 'fe', ''), ('delete_stream', 's1', '')],
    # the key that an indexed encrypted file uses is deleted, then another key is added (it may reuse the primary key)
    [('add_stream', 's1', ''), ('upload', 's1', 'fe'), ('delete_key', KIDS[1], ''), ('add_key', KIDS[0], ''), ('upload', 's1', 'fv'),
     ('set_tref', 's1', 'fv'), ('delete_media', 'fe', '')],
    # one key id written in several ways: one row, and the encrypted file is linked to it
    [('add_stream', 's1', ''), ('add_key', KIDS[1], 'upper'), ('add_key', KIDS[1], ''), ('add_key', KIDS[1], 'dashed'), ('upload', 's1', 'fe'),
     ('add_key', KIDS[0], 'dashed'), ('add_key', KIDS[0], '0x'), ('add_key', KIDS[0], ''), ('upload', 's1', 'fv'), ('set_tref', 's1', 'fv')],
    # files that are uploaded but not (yet) indexed next to a serving stream: a subtitle track, a file that cannot be indexed
    [('add_stream', 's1', ''), ('upload', 's1', 'fv'), ('set_tref', 's1', 'fv'), ('upload_raw', 's1', 'fa'), ('index', 'fa', ''),
     ('upload_raw', 's1', 'fb'), ('upload_raw', 's1', 'fe'), ('index', 'fb', ''), ('delete_media', 'fb', ''), ('index', 'fe', '')],
    # multi-period stream life-cycle
    [('add_stream', 's1', ''), ('upload', 's1', 'fv'), ('set_tref', 's1', 'fv'), ('add_mps', 'mm1', 's1'), ('add_mps', 'mm1', 's1'),
     ('delete_mps', 'mm1', ''), ('delete_mps', 'mm1', ''), ('delete_stream', 's2', '')],
    # editing a multi-period stream's name: to a free name, to its own name, to the name of another one (refused cleanly)
    [('add_stream', 's1', ''), ('upload', 's1', 'fv'), ('set_tref', 's1', 'fv'), ('add_mps', 'mm1', 's1'), ('add_mps', 'mm2', 's1'),
     ('rename_mps', 'mm1', 'mm1'), ('rename_mps', 'mm1', 'mm2'), ('rename_mps', 'mm2', 'mm3'), ('rename_mps', 'mm1', 'mm2'),
     ('rename_mps', 'mm3', 'mm1'), ('delete_mps', 'mm1', ''), ('rename_mps', 'mm3', 'mm1'), ('delete_mps', 'mm1', '')],
    # foreign timing reference
    [('add_stream', 's1', ''), ('add_stream', 's2', ''), ('upload', 's1', 'fv'), ('set_tref', 's2', 'fv'), ('add_mps', 'mm1', 's2')],
]


def random_history(rng: random.Random, n: int) -> list[tuple[str, str, str]]:
    h: list[tuple[str, str, str]] = [('add_stream', rng.choice(DIRS), '')]
    for _ in range(n):
        op = rng.choice(['add_stream', 'delete_stream', 'upload', 'upload', 'upload', 'delete_media', 'set_tref', 'set_tref',
                         'add_key', 'delete_key', 'add_mps', 'delete_mps', 'edit_media', 'rename_stream', 'upload_raw', 'index', 'rename_mps'])
        if op in ('add_stream', 'delete_stream'):
            h.append((op, rng.choice(DIRS), ''))
        elif op in ('upload', 'upload_raw'):
            h.append((op, rng.choice(DIRS), rng.choice(NAMES)))
        elif op == 'index':
            h.append((op, rng.choice(NAMES), ''))
        elif op == 'set_tref':
            h.append((op, rng.choice(DIRS), rng.choice(NAMES[:2])))
        elif op == 'rename_stream':
            h.append((op, rng.choice(DIRS), rng.choice(DIRS)))
        elif op == 'delete_media':
            h.append((op, rng.choice(NAMES), ''))
        elif op == 'edit_media':
            h.append((op, rng.choice(NAMES), rng.choice(['eng', 'xyz', 'fra'])))
        elif op == 'add_key':
            h.append((op, rng.choice(KIDS), rng.choice(['', '', 'upper', 'dashed', '0x'])))
        elif op == 'delete_key':
            h.append((op, rng.choice(KIDS), ''))
        elif op == 'add_mps':
            h.append((op, rng.choice(MPS), rng.choice(DIRS)))
        elif op == 'rename_mps':
            h.append((op, rng.choice(MPS), rng.choice(MPS + ['mm2'])))
        else:
            h.append((op, rng.choice(MPS), ''))
    return h


def main(tier_: str) -> int:
    out = Outcome('C17', tier_)
    out.assumptions = [
        'histories are scripted + seeded random sequences over the operation alphabet of StoreMC (2 directories, 3 media names, 1 key, '
        '1 multi-period stream; existing and non-existing objects), driven as the media user through the HTTP API; upload includes indexing',
        'the abstract store is read with sqlite3 and by listing the blob folder, not through the application',
        '"a file that was uploaded and indexed is served back byte-exactly": the whole file is read through the on-demand route',
    ]
    from harness.app import DashApp
    from harness.core import REPO
    rng = random.Random(seed() * 53 + 17)
    with scratch() as d:
        ra = run_tlc('StoreMC', 'StoreMC.cfg', workdir=d, workers=16, timeout=900)
        tlc_must_pass(ra, 'StoreMC (A)')
        histories = list(SCRIPTS)
        nrand, hlen = (10, 9) if tier_ == 'quick' else (150, 14)
        for _ in range(nrand):
            histories.append(random_history(rng, hlen))
        lines: list[dict[str, Any]] = []
        for tid, hist in enumerate(histories, start=1):
            with DashApp(d / f'app{tid}', fixtures=()) as da:
                drv = StoreDriver(da)
                drv.load_content(REPO / 'tests' / 'fixtures')
                st = drv.state()
                serve, back = drv.probe(st)
                lines.append({'tid': tid, 'step': 0, 'op': 'init', 'a': '', 'b': '', 'pk': 0, 'status': 200, 'applied': 0, 'state': st,
                              'serve': serve, 'back_ok': back})
                for step, (op, a, b) in enumerate(hist, start=1):
                    nexc = len(da.exceptions)
                    status, applied, pk = drv.do(op, a, b, st)
                    st = drv.state()
                    serve, back = drv.probe(st)
                    lines.append({'tid': tid, 'step': step, 'op': op, 'a': a, 'b': b, 'pk': pk, 'status': status, 'applied': applied,
                                  'state': st, 'serve': serve, 'back_ok': back,
                                  'exc': da.exceptions[nexc] if len(da.exceptions) > nexc and status >= 500 else {},
                                  'history': hist[:step]})
            import shutil
            shutil.rmtree(d / f'app{tid}', ignore_errors=True)
        vs, stt = validate_trace('StoreTrace', lines, workdir=d, chunk=400, parallel=8)
        seen: set[str] = set()
        for v in vs:
            lo = v['lineobj']
            det = v['detail']
            exc = (det.get('exc') if isinstance(det, dict) else None) or lo.get('exc') or {}
            case = {'op': lo['op'], 'a': lo['a'], 'b': lo['b'], 'status': lo['status'], 'history': lo.get('history'), 'detail': det,
                    'exc_type': exc.get('type', ''), 'exc_where': exc.get('where', ''),
                    'prev_op': lo['history'][-2][0] if lo.get('history') and len(lo['history']) > 1 else ''}
            key = f"{v['clause']}|{lo['op']}|{case['exc_type']}|{case['exc_where']}|{det.get('kind') if isinstance(det, dict) else ''}"
            if key in seen:
                continue
            seen.add(key)
            out.add(Violation('C17', v['clause'], case))
        ops = [x for x in lines if x['op'] != 'init']
        out.coverage.update({
            'states': ra.distinct, 'transitions': ra.generated, 'traces_validated_against_impl': len(histories),
            'evaluations': len(lines), 'distinct_nontrivial': len({(x['op'], x['a'], x['b'], x['applied'], json.dumps(x['state'], sort_keys=True)) for x in ops}),
            'rule': 'one evaluation per management operation (state projected and all listed manifests fetched after it); distinct = distinct '
                    '(operation, arguments, applied?, resulting abstract store)',
            'exhaustive': False, 'histories': len(histories), 'operations': len(ops), 'applied': sum(x['applied'] for x in ops),
            'manifest_fetches': sum(len(x['serve']) for x in lines),
            'samples': [{k: ops[3][k] for k in ('op', 'a', 'b', 'status', 'applied', 'state')}, {'history': histories[-1]}],
            'bounds': f'tier {tier_}: {len(SCRIPTS)} scripted + {nrand} random histories of <= {hlen + 1} operations; TLC: all histories to depth 7',
        })
    return out.finish('model_checking')
