"""C07 - options given to a manifest reach its media requests with the same meaning.
(A) TLC OptionsMC: the forwarding rule over an abstract registry.
(C) for every registered option (discovered from OptionsRepository at check time) x value classes,
    singletons + seeded pairs / larger subsets: the manifest is requested, the initialization / media
    URL templates of every AdaptationSet are extracted and their query re-parsed with the server's own
    option parser in a request context for the media route; both option containers are logged field by
    field and compared by TLC (OptionsTrace).  Formatting/parsing identity per option and value class."""
from __future__ import annotations

import datetime
import json
import random
from typing import Any
from urllib.parse import quote, urlsplit

from harness.core import MachineryFailure, Outcome, Violation, run_tlc, scratch, seed, tlc_must_pass, validate_trace
from harness import mpd as M

NOW = datetime.datetime(2024, 3, 5, 12, 0, 0, tzinfo=datetime.timezone.utc)

# raw (un-encoded) values per cgi name; everything is percent-encoded when the manifest is requested
VALUES: dict[str, list[str]] = {
    'start': ['epoch', 'today', 'month', 'year', 'now', '2024-03-05T11:00:00Z', '2024-03-05T12:30:00+01:00', '2024-03-05T05:30:00-05:30',
              '2024-03-05T11:00:00.5Z'],
    'depth': ['20', '1800', '1', '77'],
    'leeway': ['0', '60', '16', '7'],
    'drm': ['all', 'playready', 'clearkey', 'marlin', 'playready-pro', 'playready-cenc-moov', 'clearkey-moov,marlin', 'all-cenc', 'none'],
    'drmloc': ['pro', 'cenc', 'moov', 'cenc-pro'],
    'bugs': ['saio'],
    'events': ['ping', 'scte35', 'ping,scte35', 'scte35,ping'],
    'failures': ['1', '3', '0'],
    'verr': ['404=5', '503=7,504=9', '404=3,404=5'],
    'aerr': ['404=5'],
    'terr': ['410=2', '404=3,404=5'],
    'merr': ['503=2', '503=2,404=3,503=4'],
    'vcorrupt': ['11:59:50Z'],
    'frames': ['2', '0'],
    'clearkey__la_url': ['https://ck.test/lic?a=1&b=2', 'https://ck.test/p%20q/#frag', 'https://ck.test/a+b=c', 'https://ck.test/license?sig=ab%2Bcd%2F9'],
    'marlin__la_url': ['ms3://m.test/x?y=1&z=2', 'ms3://m.test/?title=big%20buck%20bunny'],
    'playready__la_url': ['https://pr.test/rights?cfg={cfgs}&x=1', 'https://pr.test/a b/c+d', 'https://pr.test/acquire?token=eyJh%3D%3D&next=https%3A%2F%2Fcdn.test%2Fok'],
    'playready__piff': ['0', '1'],
    'playready__version': ['1.0', '2.0', '3.0', '4.0'],
    'abr': ['0', '1'], 'base': ['0', '1'], 'mup': ['-1', '4', '30'], 'timeline': ['0', '1'], 'patch': ['1'], 'acodec': ['mp4a', 'ec-3'],
    'tcodec': ['stpp'], 'time': ['xsd', 'iso', 'direct', 'head', 'http-ntp'], 'drift': ['10'], 'update': ['3'],
    'ping__count': ['0', '5'], 'ping__duration': ['100', '0'], 'ping__inband': ['0', '1'], 'ping__interval': ['500', '1'], 'ping__start': ['250', '0'],
    'ping__timescale': ['100', '90000'], 'ping__value': ['0', 'a&b', 'x=y', 'p q', 'é', ''], 'ping__version': ['0', '1'],
    'scte35__count': ['4', '0'], 'scte35__duration': ['300', '0'], 'scte35__inband': ['0', '1'], 'scte35__interval': ['800'], 'scte35__start': ['100', '0'],
    'scte35__timescale': ['100'], 'scte35__value': ['', 'v&w'], 'scte35__version': ['0', '1'], 'scte35__program_id': ['1620', '7', '0'],
}


def canon(v: Any) -> Any:
    """canonical, comparable form of an option value"""
    if isinstance(v, datetime.datetime):
        if v.tzinfo is not None:
            v = v.astimezone(datetime.timezone.utc)
        return 'dt:' + v.strftime('%Y-%m-%dT%H:%M:%S.%f')
    if isinstance(v, datetime.timedelta):
        return f'td:{v.total_seconds()}'
    if isinstance(v, datetime.time):
        return 'tm:' + v.isoformat()
    if isinstance(v, (list, tuple, set, frozenset)):
        items = [canon(x) for x in v]
        return 'l:' + json.dumps(sorted(items, key=str) if isinstance(v, (set, frozenset)) else items)
    if isinstance(v, bool):
        return f'b:{int(v)}'
    if v is None:
        return 'none'
    if hasattr(v, 'to_json'):
        return 'j:' + str(v.to_json())
    if hasattr(v, 'items') and hasattr(v, '_fields'):
        return 'o:' + json.dumps({k: canon(x) for k, x in sorted(v.items())})
    return f'{type(v).__name__}:{v}'


def given_meaning(raw: str, parsed: Any) -> str:
    """the independent reading of a piece of option text: a decimal integer literal given to an integer-valued option means
    that integer; everything else has no reading of its own ('')"""
    import re
    if isinstance(parsed, int) and not isinstance(parsed, bool) and re.fullmatch(r'-?[0-9]+', raw):
        return f'int:{int(raw, 10)}'
    return ''


def main(tier_: str) -> int:
    out = Outcome('C07', tier_)
    out.assumptions = [
        'both endpoints\' option values are obtained with the server\'s own option parser in request contexts (the property is about the two '
        'endpoints agreeing); values are compared in a canonical text form (UTC date-times, ordered lists)',
        'for start and depth the manifest side is the value the manifest resolved (MPD@availabilityStartTime, MPD@timeShiftBufferDepth)',
        'the set of options that influence media generation is hand-written in spec/Options.tla; the registry (names, usage masks) is read from the code',
    ]
    from harness.app import DashApp
    rng = random.Random(seed() * 47 + 7)
    with scratch() as d:
        ra = run_tlc('OptionsMC', 'OptionsMC.cfg', workdir=d, workers=4, timeout=300)
        tlc_must_pass(ra, 'OptionsMC (A)')
        rl = run_tlc('OptionLayersMC', 'OptionLayersMC.cfg', workdir=d, workers=2, timeout=300)
        tlc_must_pass(rl, 'OptionLayersMC (A)')
        rv = run_tlc('OptionLayersMC', 'OptionLayersMC_variant.cfg', workdir=d, workers=2, timeout=300)
        if rv.invariant_violated() != 'VariantAgrees':
            raise MachineryFailure('OptionLayers: eliding against the global defaults is not rejected by the model')
        lines: list[dict[str, Any]] = []
        with DashApp(d / 'app', fixtures=('bbb',)) as da:
            from dashlive.server.options.repository import OptionsRepository
            from dashlive.server.options.types import OptionUsage
            from dashlive.server.requesthandler.base import RequestHandlerBase
            from dashlive.server import models
            opts = {o.cgi_name: o for o in OptionsRepository.get_dash_options()}
            usage = {n: sorted(x.lower() for x in OptionUsage.to_string_set(o.usage)) for n, o in opts.items()}
            names = sorted(opts)
            uncovered = [n for n in names if n not in VALUES]
            out.coverage['registered_options'] = len(names)
            out.coverage['options_without_value_classes'] = uncovered
            da.clock.set(NOW)
            c = da.client()
            hb = RequestHandlerBase()

            def container_values(url: str, mode: str, sdir: str = 'bbb') -> dict[str, Any]:
                with da.app.test_request_context(url):
                    import flask
                    stream = models.Stream.get(directory=sdir)
                    try:
                        o = hb.calculate_options(mode, flask.request.args, stream)
                    except Exception as err:      # noqa: BLE001   the endpoint would refuse this URL
                        return {n: f'error:{type(err).__name__}' for n in opts}
                    vals = {}
                    for n, opt in opts.items():
                        try:
                            holder = o[opt.prefix] if opt.prefix else o
                            vals[n] = canon(getattr(holder, opt.full_name))
                        except (KeyError, AttributeError):
                            vals[n] = 'missing'
                    return vals
            # ---- codec identity -----------------------------------------------------------------------
            for n in names:
                for raw in VALUES.get(n, []):
                    ln = {'ev': 'codec', 'name': n, 'raw': raw, 'v1': '', 'v2': '', 'ok': 0, 'given': ''}
                    try:
                        v1 = opts[n].from_string(raw)
                        s1 = opts[n].to_string(v1)
                        v2 = opts[n].from_string(s1 if isinstance(s1, str) else str(s1))
                        ln.update({'v1': canon(v1), 'v2': canon(v2), 'ok': 1, 'text': str(s1)[:80], 'given': given_meaning(raw, v1)})
                    except Exception as err:      # noqa: BLE001
                        ln['err'] = f'{type(err).__name__}: {err}'[:120]
                    lines.append(ln)
                    # ... and starting from the value: a text-valued option (licence URLs) given the text itself as its value
                    try:
                        if isinstance(opts[n].from_string(raw), str):
                            s0 = opts[n].to_string(raw)
                            back = opts[n].from_string(s0)
                            lines.append({'ev': 'codec', 'name': n, 'raw': raw, 'v1': canon(raw), 'v2': canon(back), 'ok': 1, 'given': '',
                                          'text': str(s0)[:80], 'from': 'value'})
                    except Exception:      # noqa: BLE001
                        pass
            # ---- forwarding ----------------------------------------------------------------------------
            vectors: list[dict[str, str]] = [{}]
            for n in names:
                for raw in VALUES.get(n, []):
                    vectors.append({n: raw})
            infl = [n for n in names if n in VALUES]
            for _ in range(60 if tier_ == 'quick' else 1500):
                k = rng.choice([2, 2, 3, 5])
                vec = {}
                for n in rng.sample(infl, k):
                    vec[n] = rng.choice(VALUES[n])
                vectors.append(vec)
            if tier_ == 'quick':
                always = [v for v in vectors[1:] if len(v) == 1 and next(iter(v)).endswith('__la_url')]
                vectors = vectors[:1] + always + rng.sample([v for v in vectors[1:] if v not in always], min(160, len(vectors) - 1 - len(always)))
            # a stream with option defaults of its own (spec/OptionLayers.tla): requests that leave an option out, spell out the
            # global default, spell out the stream's default, or give a third value
            gdef = OptionsRepository.get_default_options()
            layered = {'depth': 60, 'mup': 6, 'leeway': 7, 'abr': False, 'base': False, 'time': 'iso'}
            # ... and list-valued options the stream switches on and a request switches off again (`none`: the empty list, whose URL
            # text is the empty string)
            layered_lists = {'bugs': (['saio'], ['none', 'saio']), 'events': (['ping'], ['none', 'ping', 'scte35'])}
            da.add_fixture('bbb', directory='sdef', title='stream with its own option defaults', only={'bbb_v7', 'bbb_a1'},
                           defaults={opts[n].full_name: v for n, v in layered.items()} | {opts[n].full_name: v[0] for n, v in layered_lists.items()})
            third = {'depth': '45', 'mup': '9', 'leeway': '3', 'abr': '1', 'base': '1', 'time': 'xsd'}
            lvecs: list[dict[str, str]] = [{}]
            for n, sv in layered.items():
                gtxt = str(opts[n].to_string(getattr(gdef, opts[n].full_name)))
                stxt = str(opts[n].to_string(sv))
                for raw in (gtxt, stxt, third[n]):
                    lvecs.append({n: raw})
                lvecs.append({n: gtxt, 'patch': '1'})
            for n, (_, raws) in layered_lists.items():
                for raw in raws:
                    lvecs.append({n: raw})
            lvecs.append({'bugs': 'none', 'events': 'none', 'depth': '60'})
            for _ in range(6 if tier_ == 'quick' else 60):
                ks = rng.sample(sorted(layered), 3)
                lvecs.append({n: rng.choice([str(opts[n].to_string(getattr(gdef, opts[n].full_name))), third[n]]) for n in ks})
            out.coverage['layered_vectors'] = len(lvecs)
            refused = 0
            for sdir, vec in [('bbb', v) for v in vectors] + [('sdef', v) for v in lvecs]:
                mode = 'live'
                tmpl = 'hand_made.mpd'
                q = '&'.join(f'{k}={quote(v, safe="")}' for k, v in vec.items())
                if any(k in vec for k in ('playready__la_url', 'playready__piff', 'playready__version', 'clearkey__la_url', 'marlin__la_url')) and 'drm' not in vec:
                    q += '&drm=all'
                if any(k.startswith('ping__') for k in vec) and 'events' not in vec:
                    q += '&events=ping'
                if any(k.startswith('scte35__') for k in vec) and 'events' not in vec:
                    q += '&events=scte35'
                url = f'/dash/{mode}/{sdir}/{tmpl}' + ('?' + q.lstrip('&') if q else '')
                r = c.get(url)
                if r.status_code != 200:
                    refused += 1
                    continue
                try:
                    proj = M.project(r.data, 'http://localhost' + url)
                except Exception:      # noqa: BLE001
                    refused += 1
                    continue
                man = container_values(url, mode, sdir)
                # what the manifest resolved
                if proj['availabilityStartTime'] is not None:
                    man['start'] = canon(proj['availabilityStartTime'])
                # the depth a manifest works with is the requested depth clamped to the age of the stream, and a media request clamps
                # again when it is served: a media URL that carries the requested depth means the same window as one that carries
                # the clamped depth
                depth_requested = man.get('depth')
                depth_resolved = canon(proj['timeShiftBufferDepth'] // 10**6) if proj['timeShiftBufferDepth'] is not None else depth_requested
                # another client's manifest request, with other values for the same options, lands between this manifest and
                # its media requests: what a media URL means must not depend on what the process served in between
                other = {k: next((x for x in VALUES.get(k, []) if x != v), None) for k, v in vec.items()}
                dq = '&'.join(f'{k}={quote(v, safe="")}' for k, v in other.items() if v is not None)
                if dq:
                    if any(k.startswith(('playready__', 'clearkey__', 'marlin__')) for k in other) and 'drm' not in other:
                        dq += '&drm=all'
                    for ev in ('ping', 'scte35'):
                        if any(k.startswith(ev + '__') for k in other) and 'events' not in other:
                            dq += f'&events={ev}'
                    c.get(f'/dash/{mode}/{sdir}/{tmpl}?{dq}')
                for adp in proj['periods'][0]['adaptation_sets']:
                    m = adp['contentType']
                    if not adp['representations']:
                        continue
                    rep = adp['representations'][0]
                    for which in ('initialization', 'media'):
                        t = rep['template'][which]
                        concrete = M.fill_template(t, rep['id'], rep['bandwidth'], number=5, time=0)
                        murl = concrete if concrete.startswith('/') else f'/dash/{mode}/{sdir}/' + concrete
                        med = container_values(murl, mode, sdir)
                        man['depth'] = depth_requested if med.get('depth') == depth_requested else depth_resolved
                        qs = urlsplit(murl).query
                        url_names = [p.split('=', 1)[0] for p in qs.split('&') if p]
                        # error injection positions are rewritten (times -> numbers): compared by C16
                        skip = {'verr', 'aerr', 'terr', 'vcorrupt'}
                        cmp_names = [n for n in names if n not in skip]
                        given = {}
                        for n, raw in vec.items():
                            if n in cmp_names and n not in ('start', 'depth'):
                                try:
                                    given[n] = given_meaning(raw, opts[n].from_string(raw))
                                except Exception:      # noqa: BLE001
                                    given[n] = ''
                        given = {n: g for n, g in given.items() if g} or {'-': ''}
                        lines.append({'ev': 'fwd', 'm': m, 'which': which, 'url': url, 'media_url': murl, 'names': cmp_names, 'given': given,
                                      'usage': {n: usage[n] for n in names}, 'man': {n: man[n] for n in cmp_names},
                                      'med': {n: med[n] for n in cmp_names}, 'url_names': url_names, 'vec': vec})
            # ---- positions given as times of day (verr / aerr): the number that reaches the media URL names the segment that
            # contains the instant (the walk is C16's; here it is judged as a question of meaning)
            from checks.c16 import translation_lines
            xl = [x for x in translation_lines(da, tier_) if x['ev'] == 'xlate']
            if len(xl) < 10:
                raise MachineryFailure(f'only {len(xl)} time-of-day positions were translated')
            lines += xl
        for i, ln in enumerate(lines):
            ln['tid'] = i + 1
        fw = [x for x in lines if x['ev'] == 'fwd']
        if len(fw) < 100:
            raise MachineryFailure(f'only {len(fw)} forwarding lines; refused {refused}')
        vs, st = validate_trace('OptionsTrace', lines, workdir=d, chunk=150, parallel=14, timeout=1200)
        seen: set[str] = set()
        for v in vs:
            lo = v['lineobj']
            if lo['ev'] == 'fwd':
                bad = sorted(v['detail']) if isinstance(v['detail'], list) else v['detail']
                for n in (bad if isinstance(bad, list) else [bad]):
                    case = {'option': n, 'm': lo['m'], 'which': lo['which'], 'url': lo['url'], 'media_url': lo['media_url'],
                            'manifest_value': lo['man'].get(n), 'media_value': lo['med'].get(n), 'raw': lo['vec'].get(n),
                            'given': lo['given'].get(n)}
                    key = f"{v['clause']}|{n}|{lo['vec'].get(n)}"
                    if key in seen:
                        continue
                    seen.add(key)
                    out.add(Violation('C07', v['clause'], case))
            elif lo['ev'] == 'xlate':
                case = {'option': 'verr/aerr', 'url': lo['url'], 'rep': lo['rep'], 'value': lo['value'], 'want': lo['want'], 'got': lo['got']}
                key = f"{v['clause']}|{lo['rep']}|{lo['want'] - lo['got']}"
                if key in seen:
                    continue
                seen.add(key)
                out.add(Violation('C07', v['clause'], case))
                continue
            else:
                case = {'option': lo['name'], 'raw': lo['raw'], 'v1': lo['v1'], 'v2': lo['v2'], 'err': lo.get('err'), 'text': lo.get('text')}
                key = f"{v['clause']}|{lo['name']}|{lo['raw']}"
                if key in seen:
                    continue
                seen.add(key)
                out.add(Violation('C07', v['clause'], case))
        out.coverage.update({
            'states': ra.distinct, 'transitions': max(1, ra.generated), 'traces_validated_against_impl': len(lines),
            'evaluations': len(lines), 'distinct_nontrivial': len({json.dumps(x['vec'], sort_keys=True) + x['m'] + x['which'] for x in fw}),
            'rule': 'one evaluation per (manifest request, AdaptationSet, init/media URL) or per (option, value) codec round trip; distinct = '
                    'distinct (option vector, media type, URL kind)',
            'exhaustive': False, 'manifests': len(vectors), 'refused': refused, 'codec_lines': len(lines) - len(fw),
            'samples': [{k: fw[5][k] for k in ('m', 'which', 'url', 'media_url', 'url_names')}, next(x for x in lines if x['ev'] == 'codec')],
            'bounds': f'tier {tier_}: {len(names)} registered options, all singletons over their value classes + seeded subsets of 2..5 options',
        })
    return out.finish('model_checking')
