"""X02 - the life of API tokens (beyond the 20 listed properties: login, access / refresh tokens, logout).
(A) TLC TokenLifeMC: users log in, refresh, log out and time passes (scaled lifetimes): nothing is minted from an expired /
    revoked / foreign refresh token, a logout ends exactly the refresh tokens of its user, revocation is permanent, every token dies.
(C) scripted + seeded sessions against the real service at a controlled clock: login, use of a protected API, refresh,
    logout, restart, with waits that straddle the declared (2 h / 7 days) and other plausible lifetimes; every step is replayed
    through spec/TokenLife.tla by TLC (TokenLifeTrace, stateful) and judged against the model's expectation."""
from __future__ import annotations

import base64
import datetime
import json
import random
from typing import Any

from harness.core import MachineryFailure, Outcome, Violation, run_tlc, scratch, seed, tlc_must_pass, validate_trace

T0 = datetime.datetime(2024, 3, 5, 12, 0, 0, tzinfo=datetime.timezone.utc)
ROLES = ['media', 'user', 'admin']


def claims(jwt: str) -> dict[str, Any]:
    p = jwt.split('.')[1]
    return json.loads(base64.urlsafe_b64decode(p + '=' * (-len(p) % 4)))


def parse_z(text: str) -> datetime.datetime:
    return datetime.datetime.fromisoformat(text.replace('Z', '+00:00'))


class Player:
    def __init__(self, da, tid: int) -> None:
        self.da, self.tid = da, tid
        self.now = T0
        self.jwts: dict[int, str] = {}
        self.lines: list[dict[str, Any]] = []
        self.first = 1
        with da.app.app_context():
            from dashlive.server import models
            self.guest = models.User.get_guest_user().username

    def _add(self, ln: dict[str, Any]) -> None:
        ln['tid'] = self.tid
        ln['first'] = self.first
        ln['at'] = self.now.isoformat()
        self.first = 0
        self.lines.append(ln)

    def _id(self, jwt: str) -> int:
        i = len(self.jwts) + 1
        self.jwts[i] = jwt
        return i

    def _hdr(self, i: int) -> dict[str, str]:
        return {'Authorization': f'Bearer {self.jwts[i]}'} if i else {}

    def tick(self, seconds: int) -> None:
        self.now += datetime.timedelta(seconds=seconds)
        self.da.clock.set(self.now)
        self._add({'ev': 'tick', 'dt': seconds})

    def login(self, role: str) -> tuple[int, int]:
        self.da.clock.set(self.now)
        info = self.da.login(self.da.client(), role)
        if not info.get('success'):
            raise MachineryFailure(f'login failed for {role}')
        a, r = self._id(info['accessToken']['jwt']), self._id(info['refreshToken']['jwt'])
        rel = lambda t: int((parse_z(t) - self.now).total_seconds())      # noqa: E731
        self._add({'ev': 'login', 'user': info['user']['username'], 'a': a, 'r': r,
                   'a_exp': rel(info['accessToken']['expires']), 'r_exp': rel(info['refreshToken']['expires'])})
        return a, r

    def use(self, i: int) -> int:
        self.da.clock.set(self.now)
        r = self.da.client().get('/api/refresh/csrf', headers=self._hdr(i))
        acc = 1 if r.status_code == 200 else 0
        self._add({'ev': 'use', 'id': i, 'accepted': acc, 'status': r.status_code})
        return acc

    def refresh(self, i: int) -> int:
        self.da.clock.set(self.now)
        r = self.da.client().get('/api/refresh/access', headers=self._hdr(i))
        js = r.get_json(silent=True) or {}
        acc = 1 if r.status_code == 200 and 'accessToken' in js else 0
        new_id, user = 0, ''
        if acc:
            jwt = js['accessToken']['jwt'] if isinstance(js['accessToken'], dict) else js['accessToken']
            new_id = self._id(jwt)
            user = str(claims(jwt).get('sub', ''))
        self._add({'ev': 'refresh', 'id': i, 'accepted': acc, 'new_id': new_id, 'minted_user': user, 'status': r.status_code,
                   'minted_guest': 1 if acc and user == self.guest else 0})
        return new_id

    def logout(self, i: int) -> int:
        self.da.clock.set(self.now)
        r = self.da.client().delete('/api/login', headers=self._hdr(i))
        acc = 1 if r.status_code in (200, 204) else 0
        self._add({'ev': 'logout', 'id': i, 'accepted': acc, 'status': r.status_code})
        return acc

    def restart(self) -> None:
        self.da.clock.set(self.now)
        self.da.restart()
        self._add({'ev': 'restart'})


def main(tier_: str) -> int:
    out = Outcome('X02', tier_)
    out.assumptions = [
        'not one of the 20 listed properties: system behaviour of login, access / refresh tokens and logout (not registered in MANIFEST.json)',
        'the lifetimes of the model are the ones the service declares and reports to its clients (models/token.py KEY_LIFETIMES: 2 hours, 7 days)',
        'access tokens are not stored by the service and therefore survive a logout until they expire: the model says the same',
    ]
    from harness.app import DashApp
    rng = random.Random(seed() * 223 + 2)
    with scratch() as d:
        ra = run_tlc('TokenLifeMC', 'TokenLifeMC.cfg', workdir=d, workers=8, timeout=900)
        tlc_must_pass(ra, 'TokenLifeMC (A)')
        lines: list[dict[str, Any]] = []
        waits = [1, 60, 840, 899, 901, 3600, 7199, 7201, 86400, 6 * 86400, 7 * 86400 - 5, 7 * 86400 + 5, 20 * 86400, 31 * 86400]
        with DashApp(d / 'app', fixtures=('bbb',)) as da:
            nsess = 12 if tier_ == 'quick' else 120
            for k in range(nsess):
                p = Player(da, k + 1)
                da.clock.set(T0)
                if k == 0:      # the straight line: everything young
                    a, r = p.login('media')
                    p.use(a); p.use(r); p.refresh(r); p.refresh(a); p.refresh(0)
                    p.tick(60)
                    a2 = p.refresh(r)
                    p.use(a2)
                    p.logout(a)
                    p.refresh(r); p.use(a); p.use(a2)
                    a3, r3 = p.login('media')
                    p.refresh(r3); p.refresh(r)
                elif k == 1:    # two users: a logout is per user
                    a, r = p.login('media')
                    b, s = p.login('user')
                    p.logout(a)
                    p.refresh(r); p.refresh(s); p.use(b)
                    p.restart()
                    p.refresh(s); p.refresh(r); p.use(b)
                elif k == 2:    # the declared lifetimes, step by step
                    a, r = p.login('admin')
                    for w in (840, 59, 2, 3600, 2699, 2):        # 14 min, 14:59, 15:01, 1:15:01, 1:59:59+1, 2:00:01+
                        p.tick(w)
                        p.use(a)
                    p.refresh(r)
                    for w in (6 * 86400, 79190, 20, 86400, 22 * 86400, 86400):
                        p.tick(w)
                        p.refresh(r)
                elif k == 3:    # a restart after the declared end of a refresh token: start-up prunes its row, the token is dead
                    a, r = p.login('user')
                    p.tick(7 * 86400 + 5)
                    p.restart()
                    p.refresh(r)
                    p.tick(86400)
                    p.refresh(r)
                else:
                    toks: list[tuple[int, str]] = []
                    for _ in range(rng.randrange(6, 14)):
                        act = rng.choice(['login', 'use', 'use', 'refresh', 'refresh', 'logout', 'tick', 'tick', 'restart', 'refresh0'])
                        if act == 'login' or not toks:
                            a, r = p.login(rng.choice(ROLES))
                            toks += [(a, 'a'), (r, 'r')]
                        elif act == 'use':
                            p.use(rng.choice(toks)[0])
                        elif act == 'refresh':
                            n = p.refresh(rng.choice(toks)[0])
                            if n:
                                toks.append((n, 'a'))
                        elif act == 'refresh0':
                            n = p.refresh(0)
                            if n:
                                toks.append((n, 'a'))
                        elif act == 'logout':
                            p.logout(rng.choice(toks)[0])
                        elif act == 'tick':
                            p.tick(rng.choice(waits))
                        elif act == 'restart' and rng.random() < 0.4:
                            p.restart()
                lines += p.lines
        if len(lines) < 80:
            raise MachineryFailure(f'only {len(lines)} token events')
        vs, st = validate_trace('TokenLifeTrace', lines, workdir=d, chunk=100000, parallel=1)
        seen: set[str] = set()
        for v in vs:
            lo = v['lineobj']
            det = v['detail'] if isinstance(v['detail'], dict) else {'value': v['detail']}
            hist = [x for x in lines if x['tid'] == lo['tid'] and lines.index(x) <= lines.index(lo)]
            case = {'ev': lo['ev'], 'status': lo.get('status'), 'accepted': lo.get('accepted'), 'at': lo.get('at'), 'kind': det.get('kind'), 'age': det.get('age'),
                    'revoked': det.get('revoked'), 'detail': det, 'restarted': 1 if any(x['ev'] == 'restart' for x in hist) else 0,
                    'history': [x['ev'] for x in hist][-12:]}
            key = f"{v['clause']}|{case['kind']}|{lo.get('accepted')}|{case['revoked']}|{case['restarted']}|{min((case['age'] or 0) // 900, 9)}"
            if key in seen:
                continue
            seen.add(key)
            out.add(Violation('X02', v['clause'], case))
        kinds = {k: sum(1 for x in lines if x['ev'] == k) for k in ('login', 'use', 'refresh', 'logout', 'tick', 'restart')}
        out.coverage.update({
            'states': ra.distinct, 'transitions': ra.generated, 'traces_validated_against_impl': len(lines),
            'evaluations': len(lines), 'distinct_nontrivial': len({(x['tid'], x['ev'], x.get('id'), x.get('at')) for x in lines}),
            'rule': 'one evaluation per token event; distinct = distinct (session, event, token, instant)',
            'exhaustive': False, 'sessions': nsess, 'events': kinds,
            'samples': [lines[0], lines[min(5, len(lines) - 1)]],
            'bounds': f'tier {tier_}: 4 scripted + {nsess - 4} seeded sessions of 6..13 steps over 3 users; waits from 1 s to 31 days around '
                      '15 min, 2 h, 7 days and 30 days',
        })
    return out.finish('model_checking')
