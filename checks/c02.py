from checks.livewindow import run


def main(tier_: str) -> int:
    return run('C02', tier_)
