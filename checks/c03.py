from checks.segrewrite import run


def main(tier_: str) -> int:
    return run('C03', tier_)
