"""C16 - no uncontrolled failure; injected errors fire exactly as asked.

(A) TLC InjectionMC: the session-counter machine explored exhaustively (2 clients, 3 positions,
    request sequences to depth 6).
(B) injection walks on the real service (video / audio / text segments and manifests, two cookie
    jars), validated by InjectionTrace including model-vs-code drift.
(C) robustness grid: route class x registered option name (from the registry at run time) x value
    class, streams with missing pieces, MP4 inputs mutated by truncation / size edits / bit flips
    fed to the upload, index and inspect endpoints and to the parser; exception propagation is off
    and every response status / elapsed time is judged by TLC.
"""
from __future__ import annotations

import datetime
import io
import random
import re
import struct
import time
from typing import Any
from urllib.parse import quote, urlsplit, parse_qs

from harness.core import REPO, MachineryFailure, Outcome, Violation, run_tlc, scratch, seed, tlc_must_pass, validate_trace

CAP_MS = 3000
NOW = datetime.datetime(2024, 3, 5, 12, 0, 0, tzinfo=datetime.timezone.utc)

ERRLISTS = [
    [], [(503, 2)], [(404, 1)], [(503, 1), (504, 3)], [(404, 2), (503, 3)], [(503, 1), (503, 2)], [(500, 3)], [(410, 3), (502, 1)],
]
USAGE = {
    'video': ('verr', '/dash/vod/bbb/bbb_v7/{pos}.m4v'),
    'audio': ('aerr', '/dash/vod/bbb/bbb_a1/{pos}.m4a'),
    'text': ('terr', '/dash/vod/bbb/bbb_t1/{pos}.mp4'),
    'manifest': ('merr', '/dash/live/bbb/hand_made.mpd'),
}


class Deadline:
    """wall-clock cap for one request: SIGALRM raises inside the (pure Python) request code; the
    timer repeats so that an exception swallowed inside a loop does not end the cap.  The framework
    turns the exception into a 500 response and the probe is recorded with elapsed >= cap."""

    def __enter__(self):
        import signal

        def _raise(signum, frame):
            raise TimeoutError('request exceeded the wall-clock cap')
        self._old = signal.signal(signal.SIGALRM, _raise)
        signal.setitimer(signal.ITIMER_REAL, CAP_MS / 1000.0 + 0.05, 0.25)
        return self

    def __exit__(self, *a):
        import signal
        signal.setitimer(signal.ITIMER_REAL, 0)
        signal.signal(signal.SIGALRM, self._old)
        return False


def injection_walks(da, rng: random.Random, tier_: str) -> list[dict[str, Any]]:
    lines: list[dict[str, Any]] = []
    tid = 0
    da.clock.set(NOW)
    for usage, (opt, tmpl) in USAGE.items():
        for errs in ERRLISTS:
            for f in (-1, 0, 1, 2):         # failures absent, zero times (the boundary), once, twice
                if tier_ == 'quick' and usage in ('audio', 'text') and rng.random() < 0.6:
                    continue
                if f == 0 and tier_ == 'quick' and len(errs) != 1:
                    continue
                tid += 1
                clients = {'a': da.client(), 'b': da.client()}
                q = ''
                if errs:
                    q = f'{opt}=' + ','.join(f'{c}={p}' for c, p in errs)
                if f != -1:
                    q += ('&' if q else '') + f'failures={f}'
                steps = 10 if tier_ == 'quick' else 16
                # a scripted prefix (same client hammering each addressed position) then random
                seq = []
                for c, p in errs:
                    seq += [('a', p)] * (4 if f != -1 else 2)
                seq += [('b', p) for _, p in errs[:1]]
                while len(seq) < steps:
                    seq.append((rng.choice('ab'), rng.choice([1, 2, 3, 4])))
                for cl, pos in seq:
                    if usage == 'manifest':
                        url = tmpl + '?' + q + ('&' if q else '') + f'update={pos}&depth=20'
                    else:
                        url = tmpl.format(pos=pos) + ('?' + q if q else '')
                    r = clients[cl].get(url)
                    lines.append({'tid': tid, 'ev': 'req', 'usage': usage, 'client': cl,
                                  'errs': [{'code': c, 'pos': p} for c, p in errs], 'f': f, 'pos': pos,
                                  'status': r.status_code, 'url': url,
                                  'exc': da.exceptions[-1] if r.status_code >= 500 and da.exceptions else {}})
    # ---- mixed walks: two media types inject the same 5xx code in one client session; the requests are
    # interleaved, and each type has to fail the configured number of times on its own
    mixes = [(('video', 503, 2), ('audio', 503, 2)), (('video', 503, 3), ('text', 503, 3)), (('audio', 504, 1), ('text', 504, 2)),
             (('video', 500, 2), ('audio', 500, 3)), (('manifest', 503, 2), ('video', 503, 2))]
    for mix in mixes:
        for f in (1, 2, 3):
            tid += 1
            cl = da.client()
            per = {}
            for usage, code, pos in mix:
                opt, tmpl = USAGE[usage]
                per[usage] = (f'{opt}={code}={pos}&failures={f}', tmpl, code, pos)
            order = []
            for k in range(f + 2):
                for usage, _, _ in mix:
                    order.append(usage)
            if tier_ == 'thorough':
                order += [rng.choice([u for u, _, _ in mix]) for _ in range(6)]
            for usage in order:
                q, tmpl, code, pos = per[usage]
                if usage == 'manifest':
                    url = tmpl + '?' + q + f'&update={pos}&depth=20'
                else:
                    url = tmpl.format(pos=pos) + '?' + q
                r = cl.get(url)
                lines.append({'tid': tid, 'ev': 'req', 'usage': usage, 'client': 'a', 'errs': [{'code': code, 'pos': pos}], 'f': f, 'pos': pos,
                              'status': r.status_code, 'url': url, 'mixed': 1,
                              'exc': da.exceptions[-1] if r.status_code >= 500 and da.exceptions else {}})
    return lines


def translation_lines(da, tier_: str) -> list[dict[str, Any]]:
    """verr=<code>=<HH:MM:SSZ> in a manifest request must reach the media URLs as the number of the
    segment that contains that instant."""
    from harness import mpd as M
    lines = []
    tid = 500000
    c = da.client()
    ast = datetime.datetime(2024, 3, 5, 11, 0, 0, tzinfo=datetime.timezone.utc)
    # the later offsets are far enough from the start for the audio (3.99898 s) and video (4 s) segment grids to disagree
    for now_off, err_off in ((600.0, 590), (600.0, 598), (601.5, 596), (3000.0, 2990), (3000.0, 2999), (86.0, 80),
                             (7203.0, 7195), (40000.0, 39990), (46700.0, 46690)):      # all on availabilityStartTime's own day: positions are times of day
        now = ast + datetime.timedelta(seconds=now_off)
        tm = ast + datetime.timedelta(seconds=err_off)
        da.clock.set(now)
        for opt, ctype in (('verr', 'video'), ('aerr', 'audio')):
            tid += 1
            url = (f'/dash/live/bbb/hand_made.mpd?start={ast.strftime("%Y-%m-%dT%H:%M:%SZ")}&depth=30&'
                   f'{opt}=503={tm.strftime("%H:%M:%SZ")}')
            r = c.get(url)
            if r.status_code != 200:
                lines.append({'tid': tid, 'ev': 'probe', 'status': r.status_code, 'requested': 0, 'elapsed_ms': 0, 'cap_ms': CAP_MS,
                              'url': url, 'cls': 'manifest-injection', 'exc': da.exceptions[-1] if da.exceptions else {}})
                continue
            proj = M.project(r.data, 'http://localhost' + url)
            for adp in proj['periods'][0]['adaptation_sets']:
                if adp['contentType'] != ctype:
                    continue
                rep = adp['representations'][0]
                tm_ = rep['template']
                qs = parse_qs(urlsplit(tm_['media']).query)
                val = (qs.get(opt) or [''])[0]
                m = re.match(r'^503=(\d+)$', val)
                ts, D, sn = int(tm_['timescale']), int(tm_['duration']), int(tm_['startNumber'] or 1)
                ticks = err_off * ts
                want = sn + ticks // D
                lines.append({'tid': tid, 'ev': 'xlate', 'want': want, 'got': int(m.group(1)) if m else -1, 'url': url,
                              'rep': rep['id'], 'value': val})
    return lines


VALUE_CLASSES = {
    'empty': '', 'word': 'bogus', 'negative': '-5', 'zero': '0', 'huge': '99999999999999999999', 'float': '1.5',
    'nonascii': '%E2%98%83', 'list': 'a,b,c', 'equals': 'x=y', 'isotime': '12:00:00Z', 'isodate': '2024-01-01T00:00:00Z',
    'bad_date': '2024-13-45T99:99:99Z', 'code_num': '404=5', 'code_time': '503=11:59:50Z', 'code_bad': '503=x', 'bool1': '1',
    'quote': '%22%3E%3Cx', 'space': 'a%20b', 'dup': None,
    # the ends of the accepted integer range, and a value that moves a clock across the end of NTP era 0 (2036-02-07)
    'int_min': '-2147483647', 'int_max': '2147483647', 'neg_decades': '-400000000',
}


def robustness_grid(da, rng: random.Random, tier_: str, out: Outcome) -> list[dict[str, Any]]:
    from dashlive.server.options.repository import OptionsRepository
    names = sorted({o.cgi_name for o in OptionsRepository.get_dash_options()})
    out.coverage['registered_options'] = len(names)
    route_classes = {
        'manifest-live': '/dash/live/bbb/hand_made.mpd', 'manifest-vod': '/dash/vod/bbb/manifest_e.mpd',
        'manifest-n': '/dash/live/bbb/manifest_n.mpd', 'manifest-od': '/dash/odvod/bbb/manifest_vod_aiv.mpd',
        'mps-manifest': '/mps/live/testmps/hand_made.mpd', 'mps-manifest-vod': '/mps/vod/testmps/hand_made.mpd',
        'media-num': '/dash/live/bbb/bbb_v7/{live_n}.m4v', 'media-time': '/dash/vod/bbb/bbb_a1/time/352256.m4a',
        'media-vod': '/dash/vod/bbb/bbb_v7/3.m4v', 'media-enc': '/dash/vod/bbb/bbb_v7_enc/3.m4v',
        # just outside the stored media: one and two past the last segment, number zero, the $Time$ past the end
        'media-vod-past1': '/dash/vod/bbb/bbb_v7/11.m4v', 'media-vod-past2': '/dash/vod/bbb/bbb_v7/12.m4v', 'media-vod-zero': '/dash/vod/bbb/bbb_v7/0.m4v',
        'media-vod-time-past': '/dash/vod/bbb/bbb_a1/time/1763328.m4a', 'mps-media-past': '/mps/vod/testmps/1/bbb_v7/9.m4v',
        'init': '/dash/live/bbb/bbb_v7/init.m4v', 'init-enc': '/dash/vod/bbb/bbb_a1_enc/init.m4a',
        'patch': '/patch/bbb/hand_made.mpd/{publish}', 'player': '/play/live/bbb/hand_made.mpd/index.html',
        'clearkey': '/clearkey', 'time': '/time/iso', 'time-ntp': '/time/http-ntp', 'time-xsd': '/time/xsd', 'time-head': '/time/head',
        'tears-manifest': '/dash/live/tears/hand_made.mpd',
        'tears-media': '/dash/vod/tears/tears_v1/2.m4v', 'noref-manifest': '/dash/live/noref/hand_made.mpd',
        'noref-media': '/dash/vod/noref/noref_v7/2.m4v', 'unindexed-manifest': '/dash/vod/unindexed/hand_made.mpd',
        'unindexed-media': '/dash/vod/unindexed/unindexed_t1/1.mp4', 'noaudio-manifest': '/dash/live/noaudio/manifest_a.mpd',
    }
    da.clock.set(NOW)
    ast = datetime.datetime(2024, 1, 1, tzinfo=datetime.timezone.utc)
    live_n = int((NOW - ast).total_seconds() // 4) - 3
    publish = int(NOW.timestamp()) - 4
    c = da.client()
    lines: list[dict[str, Any]] = []
    tid = 10**6
    combos: list[tuple[str, str, str | None]] = []
    for cls in route_classes:
        for name in names:
            for vc in VALUE_CLASSES:
                combos.append((cls, name, vc))
    # fixed hostile vectors seen to matter + stream classes with plain requests
    fixed = [(cls, '', 'plain') for cls in route_classes]
    fixed += [('manifest-live', 'drm', 'all-noenc'), ('tears-manifest', 'drm', 'all-noenc'), ('tears-media', 'drm', 'all-noenc'),
              ('manifest-live', 'drm', 'all-badloc'), ('media-enc', 'drm', 'all-badloc'), ('init-enc', 'drm', 'all-badloc'), ('mps-manifest', 'drm', 'all-badloc'),
              ('mps-manifest', 'depth', 'int_max'),
              # a bare time of day where a date-time is expected (only the live paths read the start time)
              ('manifest-live', 'start', 'isotime'), ('media-num', 'start', 'isotime'), ('mps-manifest', 'start', 'isotime'), ('patch', 'start', 'isotime'),
              ('manifest-live', 'mup', 'zero-patch'), ('media-num', 'ping__interval', 'zero'), ('media-num', 'scte35__interval', 'zero'),
              ('media-vod', 'ping__count', 'huge'), ('manifest-live', 'ping__timescale', 'zero'), ('media-vod', 'ping__interval', 'zero'),
              ('media-vod', 'ping__interval', 'negative'), ('manifest-vod', 'ping__interval', 'zero')]
    if tier_ == 'quick':
        # pairwise-style reduction: every (class, option) once with a seeded value class, every
        # (option, value class) once with a seeded route class
        chosen: list[tuple[str, str, str | None]] = []
        vcs = list(VALUE_CLASSES)
        for cls in route_classes:
            for name in names:
                chosen.append((cls, name, rng.choice(vcs)))
        # ... and once more on a route of every family that consumes the option (a value class only matters
        # where the option is used: event options are encoded by media requests, timing options by manifests)
        from dashlive.server.options.types import OptionUsage
        usage_of: dict[str, Any] = {}
        for o in OptionsRepository.get_dash_options():
            usage_of[o.cgi_name] = usage_of.get(o.cgi_name, OptionUsage(0)) | o.usage
        families = {
            'manifest': ['manifest-live', 'manifest-vod', 'manifest-n', 'mps-manifest', 'patch'],
            'media': ['media-num', 'media-vod', 'media-time', 'media-enc', 'init', 'init-enc'],
            'time': ['time', 'time-ntp', 'time-xsd', 'time-head'],
        }
        for name in names:
            u = usage_of.get(name, OptionUsage(0))
            fams = []
            if u & OptionUsage.MANIFEST:
                fams.append('manifest')
            if u & (OptionUsage.VIDEO | OptionUsage.AUDIO | OptionUsage.TEXT):
                fams.append('media')
            if u & OptionUsage.TIME:
                fams.append('time')
            for vc in vcs:
                for fam in (fams or ['manifest']):
                    routes = families[fam]
                    if name.startswith(('ping__', 'scte35__')) and fam == 'media':
                        # in-band events live in video segments; the static segment 3 always carries one
                        chosen.append(('media-vod', name, vc))
                        routes = ['media-num', 'media-enc']
                    if fam == 'time':
                        chosen.extend((rt, name, vc) for rt in routes)      # few options reach the clock: every encoding of it
                        continue
                    # always on the family's live route (most options are only read there), and on a seeded other one
                    primary = {'manifest': 'manifest-live', 'media': 'media-num'}[fam]
                    if primary in routes:
                        chosen.append((primary, name, vc))
                    chosen.append((rng.choice([r for r in routes if r != primary] or routes), name, vc))
        combos = chosen
    capped: set[tuple[str, str | None]] = set()
    for cls, name, vc in fixed + combos:
        if (name, vc) in capped:
            continue          # this (option, value class) already ran into the wall-clock cap once
        path = route_classes[cls].format(live_n=live_n, publish=publish)
        requested = 0
        if vc == 'plain':
            q = ''
        elif vc == 'all-noenc':
            q = 'drm=all'
        elif vc == 'zero-patch':
            q = 'mup=0&patch=1&timeline=1'
        elif vc == 'all-badloc':
            q = 'drm=all-xyz'          # a known selector with an unknown location
        elif name.startswith(('ping__', 'scte35__')):
            ev = name.split('__')[0]
            val = VALUE_CLASSES.get(vc)
            q = f'events={ev}&{name}=' + ('1' if val is None else val)
        elif vc == 'dup':
            q = f'{name}=1&{name}=2'
        else:
            q = f'{name}={VALUE_CLASSES[vc]}'
        if cls in ('media-num', 'init', 'manifest-live', 'tears-manifest', 'noaudio-manifest', 'mps-manifest', 'patch', 'manifest-n',
                   'noref-manifest') and 'start=' not in q:
            q += ('&' if q else '') + 'start=2024-01-01T00:00:00Z'
        url = path + ('?' + q if q else '')
        # a synthetic error that the query itself asks for is allowed
        m = re.search(r'(?:^|&)[vatm]err=(\d{3})=', q)
        if m:
            requested = int(m.group(1))
        tid += 1
        nexc = len(da.exceptions)
        t0 = time.perf_counter()
        method = 'POST' if cls == 'clearkey' else 'GET'
        try:
            with Deadline():
                if method == 'POST':
                    r = c.post(url, json={'kids': ['AAECAwQFBgcICQoLDA0ODw'], 'type': 'temporary'})
                else:
                    r = c.get(url)
            status = r.status_code
            if not isinstance(status, int) or not 100 <= status <= 599:
                # not an HTTP status at all (a number taken from the query string became the status line): an uncontrolled failure
                da.exceptions.append({'type': 'InvalidStatus', 'msg': str(status)[:40], 'where': 'response'})
                status = 599
        except Exception as err:      # noqa: BLE001
            status = 599
            da.exceptions.append({'type': type(err).__name__, 'msg': str(err)[:200], 'where': 'client'})
        ms = int((time.perf_counter() - t0) * 1000)
        if ms >= CAP_MS:
            capped.add((name, vc))
        lines.append({'tid': tid, 'ev': 'probe', 'cls': cls, 'opt': name, 'vclass': vc, 'url': url, 'status': status,
                      'requested': requested, 'elapsed_ms': ms, 'cap_ms': CAP_MS,
                      'exc': da.exceptions[-1] if len(da.exceptions) > nexc else {}})
    return lines


def mp4_mutations(da, rng: random.Random, tier_: str) -> list[dict[str, Any]]:
    """corrupt MP4 input to the upload / index / inspect endpoints and to the parser"""
    from harness.mgmt import Session, ids, Snapshot
    from harness.walker import top_level_layout
    lines: list[dict[str, Any]] = []
    tid = 2 * 10**6
    from harness.walker import Parsed
    src = (da.blob_folder / 'bbb' / 'bbb_t1.mp4').read_bytes()
    lay = top_level_layout(src)
    muts: list[tuple[str, bytes]] = [('intact', src)]
    for typ, pos, size in lay[:4]:
        for delta in (-1, 0, 1, 4, 9):
            cut = pos + delta
            if 0 < cut < len(src):
                muts.append((f'truncate@{typ}{delta:+d}', src[:cut]))
        for newsize in (0, 1, 7, 8, 2**31, 2**32 - 1, size + 1, size - 1):
            b = bytearray(src)
            struct.pack_into('>I', b, pos, newsize)
            muts.append((f'size@{typ}={newsize}', bytes(b)))
    # nested: first child sizes inside moov / moof, version/flags bit flips
    for off in range(8, min(len(src), 700), 37 if tier_ == 'quick' else 5):
        b = bytearray(src)
        b[off] ^= 0x80
        muts.append((f'flip@{off}', bytes(b)))
    muts.append(('empty', b''))
    muts.append(('garbage', bytes(rng.randrange(256) for _ in range(300))))
    muts.append(('text', b'this is not an mp4 file' * 10))
    # a box of size 0 "extends to the end of the file" (ISO/IEC 14496-12 4.2): legal as the last box, also when nothing follows its header
    muts.append(('append:free(size=0)', src + struct.pack('>I4s', 0, b'free')))
    muts.append(('append:free(size=0)+payload', src + struct.pack('>I4s', 0, b'free') + b'\0' * 5))
    # legal media of a shape the fixtures do not have: an encrypted track whose first moof carries a version 1 pssh box naming a
    # second key id (key rotation): upload, index, info, segments, manifest and delete must work as for any other file
    from harness.synth import add_moof_pssh
    muts.append(('legal:pssh-v1-in-moof', add_moof_pssh((da.blob_folder / 'bbb' / 'bbb_a1_enc.mp4').read_bytes(),
                                                        bytes.fromhex('c001de8e567b5fcfbc22c565ed5bda24'))))
    # ---- nested boxes: size-field edits of every box of the head of several files, truncation at every offset of the boxes that
    # carry NUL-terminated strings.  These run through the parser directly (cheap); a sample also goes through the service.
    deep: list[tuple[str, bytes]] = []
    fx = REPO / 'tests' / 'fixtures'
    for rel in ('bbb/bbb_t1.mp4', 'emsg.mp4', 'webvtt.mp4', 'bbb/bbb_a1_enc.mp4'):
        whole = (fx / rel).read_bytes()
        p = Parsed(whole)
        mf = next((b for b in p.top if b.name == 'moof'), None)
        lim = min(len(whole), (mf.end if mf else len(whole)) + 200)
        base = whole[:lim]
        for b in p.boxes():
            if b.pos >= lim:
                continue
            for ns in (0, 8, 9, 12, 26, b.size // 2, b.size - 1, b.size + 1):
                if ns < 0 or ns == b.size:
                    continue
                m = bytearray(base)
                struct.pack_into('>I', m, b.pos, ns)
                deep.append((f'{rel}:size@{b.name}@{b.pos}={ns}', bytes(m)))
            if b.name in ('emsg', 'stpp', 'hdlr', 'schm', 'wvtt', 'stsd', 'urn ', 'url '):
                for cut in range(b.pos + 1, min(b.end + 2, lim)):
                    deep.append((f'{rel}:truncate@{b.name}@{cut}', base[:cut]))
        for cut in range(1, lim, 13 if tier_ == 'quick' else 3):
            deep.append((f'{rel}:truncate@{cut}', base[:cut]))
    from dashlive.mpeg import mp4 as _mp4

    def touch(a) -> None:
        for ch in (a.children or []):
            touch(ch)
        try:
            a.toJSON()
        except (TimeoutError, RecursionError):
            raise
        except Exception:      # noqa: BLE001   a reported parse error of a lazily loaded box
            pass
    runaway = 0
    for name, data in deep:
        for lazy in (True, False):
            if runaway >= 12:
                break
            tid += 1
            t0 = time.perf_counter()
            status, exc = 200, {}
            try:
                with Deadline():
                    for a in _mp4.Mp4Atom.load(io.BytesIO(data), options=_mp4.Options(lazy_load=lazy)):
                        touch(a)
            except TimeoutError:
                status, exc = 500, {'type': 'TimeoutError', 'msg': '', 'where': 'Mp4Atom.load'}
                runaway += 1
            except RecursionError:
                status, exc = 500, {'type': 'RecursionError', 'msg': '', 'where': 'Mp4Atom.load'}
            except Exception as err:      # noqa: BLE001  reported parse error
                status, exc = 422, {'type': type(err).__name__, 'msg': str(err)[:100], 'where': 'Mp4Atom.load'}
            lines.append({'tid': tid, 'ev': 'probe', 'cls': 'parser', 'opt': 'lazy' if lazy else 'eager', 'vclass': name, 'url': 'Mp4Atom.load',
                          'status': status, 'requested': 0, 'elapsed_ms': int((time.perf_counter() - t0) * 1000), 'cap_ms': CAP_MS, 'exc': exc})
    essential = [m for m in muts if m[0].startswith('append:')]
    if tier_ == 'quick':
        muts = muts[:1] + essential + rng.sample([m for m in muts[1:] if m not in essential], 40) + rng.sample(deep, 12)
    else:
        muts = muts + rng.sample(deep, 150)
    s = Session(da, 'media')
    ident = ids(da)
    spk = ident['streams']['bbb']
    from dashlive.mpeg import mp4
    for name, data in muts:
        # parser directly: must terminate; an exception is a reported parse error
        tid += 1
        t0 = time.perf_counter()
        status = 200
        exc: dict[str, Any] = {}
        try:
            with Deadline():
                mp4.Mp4Atom.load(io.BytesIO(data))
        except TimeoutError:
            status = 500
            exc = {'type': 'TimeoutError', 'msg': '', 'where': 'Mp4Atom.load'}
        except RecursionError as err:
            status = 500
            exc = {'type': type(err).__name__, 'msg': '', 'where': 'Mp4Atom.load'}
        except Exception as err:      # noqa: BLE001  reported parse error
            status = 422
            exc = {'type': type(err).__name__, 'msg': str(err)[:100], 'where': 'Mp4Atom.load'}
        lines.append({'tid': tid, 'ev': 'probe', 'cls': 'parser', 'opt': '', 'vclass': name, 'url': 'Mp4Atom.load', 'status': status,
                      'requested': 0, 'elapsed_ms': int((time.perf_counter() - t0) * 1000), 'cap_ms': CAP_MS, 'exc': exc})
        # upload + index + inspect through the service
        tid += 1
        nexc = len(da.exceptions)
        t0 = time.perf_counter()
        tok = s.harvest(spk).get('upload', '')
        try:
            with Deadline():
                r = s.request('POST', f'/media/{spk}/blob?ajax=1', data={'csrf_token': tok, 'file': (io.BytesIO(data), f'mut{tid}.mp4')},
                              content_type='multipart/form-data')
        except TimeoutError:
            lines.append({'tid': tid, 'ev': 'probe', 'cls': 'upload', 'opt': '', 'vclass': name, 'url': f'/media/{spk}/blob', 'status': 599,
                          'requested': 0, 'elapsed_ms': CAP_MS + 1, 'cap_ms': CAP_MS, 'exc': {'type': 'TimeoutError', 'where': 'upload', 'msg': ''}})
            continue
        lines.append({'tid': tid, 'ev': 'probe', 'cls': 'upload', 'opt': '', 'vclass': name, 'url': f'/media/{spk}/blob', 'status': r.status_code,
                      'requested': 0, 'elapsed_ms': int((time.perf_counter() - t0) * 1000), 'cap_ms': CAP_MS,
                      'exc': da.exceptions[-1] if len(da.exceptions) > nexc else {}})
        js = r.get_json(silent=True) or {}
        mfid = js.get('pk')
        if mfid:
            for what, url in (('index', f'/media/index/{mfid}?csrf_token={s.mint("files")}&ajax=1'),
                              ('info', f'/stream/{spk}/{mfid}?ajax=1'),
                              ('segments', f'/stream/{spk}/{mfid}/segments'),
                              ('manifest', '/dash/vod/bbb/hand_made.mpd'),
                              ('delete', f'/stream/{spk}/{mfid}/delete?csrf_token={s.mint("files")}&ajax=1')):
                tid += 1
                nexc = len(da.exceptions)
                t0 = time.perf_counter()
                try:
                    with Deadline():
                        rr = s.request('DELETE' if what == 'delete' else 'GET', url)
                except TimeoutError:
                    lines.append({'tid': tid, 'ev': 'probe', 'cls': what, 'opt': '', 'vclass': name, 'url': url, 'status': 599,
                                  'requested': 0, 'elapsed_ms': CAP_MS + 1, 'cap_ms': CAP_MS, 'exc': {'type': 'TimeoutError', 'where': what, 'msg': ''}})
                    continue
                lines.append({'tid': tid, 'ev': 'probe', 'cls': what, 'opt': '', 'vclass': name, 'url': url, 'status': rr.status_code,
                              'requested': 0, 'elapsed_ms': int((time.perf_counter() - t0) * 1000), 'cap_ms': CAP_MS,
                              'exc': da.exceptions[-1] if len(da.exceptions) > nexc else {}})
    return lines


def add_broken_streams(da) -> None:
    """streams with missing pieces: no timing reference, un-indexed media, no audio"""
    import shutil
    from dashlive.server import models
    da.add_fixture('tears')
    da.add_mps()
    da.add_fixture('bbb', directory='noaudio', title='no audio', only={'bbb_v6', 'bbb_v7'})
    da.add_fixture('bbb', directory='noref', title='no timing reference', only={'bbb_v7', 'bbb_a1'})
    da.add_fixture('bbb', directory='unindexed', title='unindexed', only={'bbb_t1', 'bbb_v7'})
    with da.app.app_context():
        st = models.Stream.get(directory='noref')
        st.timing_reference = None
        for mf in models.MediaFile.search(stream=models.Stream.get(directory='unindexed')):
            mf.rep = None
        models.db.session.commit()


def main(tier_: str) -> int:
    out = Outcome('C16', tier_)
    out.assumptions = [
        'the open-ended half ("no request whatsoever") is exploration over a generated grid (route class x registered option x value '
        'class x stream class; MP4 mutations), not a proof; only the injection counter machine is model-checked',
        'exception propagation is off (PROPAGATE_EXCEPTIONS false, TESTING false): an unhandled exception shows up as a 500 response',
        '"the configured number of times": the first f requests of a client for the addressed item answer the code and request f+1 succeeds; '
        'later requests may answer either',
        'a request that is still running after 3 s counts as "running without bound"',
    ]
    from harness.app import DashApp
    rng = random.Random(seed() * 1009 + 16)
    with scratch() as d:
        ra = run_tlc('InjectionMC', 'InjectionMC.cfg', workdir=d, workers=16, timeout=900)
        tlc_must_pass(ra, 'InjectionMC (A)')
        with DashApp(d / 'app', fixtures=('bbb',)) as da:
            add_broken_streams(da)
            lines = injection_walks(da, rng, tier_)
            ninj = len(lines)
            lines += translation_lines(da, tier_)
            lines += robustness_grid(da, rng, tier_, out)
            lines += mp4_mutations(da, rng, tier_)
        vs, st = validate_trace('InjectionTrace', lines, workdir=d, chunk=20000, parallel=6)
        drift = 0
        seen: set[str] = set()
        for v in vs:
            lo = v['lineobj']
            if v['clause'].startswith('DRIFT_'):
                drift += 1
                continue
            exc = lo.get('exc') or {}
            if lo['ev'] == 'req':
                case = {'kind': 'injection', 'usage': lo['usage'], 'errs': lo['errs'], 'f': lo['f'], 'pos': lo['pos'], 'client': lo['client'],
                        'status': lo['status'], 'url': lo['url'], 'detail': v['detail'], 'exc_type': exc.get('type', ''), 'exc_where': exc.get('where', '')}
                key = f"{v['clause']}|{lo['usage']}|{exc.get('type')}|{exc.get('where')}|{lo['errs'] if not exc else ''}|{lo['f'] if not exc else ''}"
            elif lo['ev'] == 'xlate':
                case = {'kind': 'translation', 'url': lo['url'], 'rep': lo['rep'], 'value': lo['value'], 'want': lo['want'], 'got': lo['got']}
                key = f"{v['clause']}|{lo['rep']}|{lo['want'] - lo['got']}"
            else:
                case = {'kind': 'probe', 'cls': lo.get('cls'), 'opt': lo.get('opt'), 'vclass': lo.get('vclass'), 'url': lo['url'],
                        'status': lo['status'], 'exc_type': exc.get('type', ''), 'exc_where': exc.get('where', ''), 'exc_msg': exc.get('msg', '')}
                key = f"{v['clause']}|{exc.get('type')}|{exc.get('where')}|{lo.get('cls') if not exc else ''}"
            if key in seen:
                continue
            seen.add(key)
            out.add(Violation('C16', v['clause'], case))
        probes = [x for x in lines if x['ev'] == 'probe']
        out.coverage.update({
            'states': ra.distinct, 'transitions': ra.generated, 'traces_validated_against_impl': len(lines),
            'evaluations': len(lines),
            'distinct_nontrivial': len({(x.get('cls'), x.get('opt'), x.get('vclass')) for x in probes}) + len({(x['usage'], str(x['errs']), x['f'], x['pos'], x['client']) for x in lines if x['ev'] == 'req'}),
            'rule': 'one evaluation per request; distinct = distinct (route class, option, value class) probes + distinct (usage, injection '
                    'specification, failure count, position, client) injection requests',
            'exhaustive': False, 'model_drift': drift, 'injection_requests': ninj, 'probes': len(probes),
            'status_histogram': {str(k): sum(1 for x in probes if x['status'] == k) for k in sorted({x['status'] for x in probes})},
            'samples': [lines[1], probes[len(probes) // 2], probes[-1]],
            'bounds': f'tier {tier_}; injection: 4 usages x 8 specifications x failure count absent/0/1/2, two clients; grid: 31 route/stream '
                      f'classes x {out.coverage.get("registered_options")} option names x {len(VALUE_CLASSES)} value classes (pairwise-reduced in quick); '
                      'MP4: truncations at box boundaries +-1, size field edits, bit flips, size-0 last box; size edits of every nested box and dense truncations of 4 files through the parser (lazy + eager, every box touched)',
        })
    return out.finish('model_checking')
