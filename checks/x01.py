"""X01 - the service's clock as clients see it (beyond the 20 listed properties: UTCTiming sources and the drift= option).
(A) TLC TimeSourceMC: the ISO week-date and NTP operators of spec/TimeSource.tla against their defining laws for every day
    of 1969..2101 (sweep), and a two-client session model (manifest with method and drift, sync, ticks): a synced client's
    time is always the service's clock minus the drift it asked for.
(C) the real /time/<method> endpoints (GET and HEAD) and the UTCTiming element of real live manifests at controlled
    instants x drifts: bodies and Date headers decoded by independent readers (regex / struct / email.utils), the advertised
    source followed at a later instant, the manifest with drift d compared with the drift-free manifest of now - d.
    All lines judged by TLC (TimeSourceTrace)."""
from __future__ import annotations

import datetime
import email.utils
import random
import re
import struct
from typing import Any
from urllib.parse import parse_qs, urlsplit

from harness.core import MachineryFailure, Outcome, Violation, run_tlc, scratch, seed, tlc_must_pass, validate_trace
from harness import mpd as M

EPOCH = datetime.datetime(1970, 1, 1, tzinfo=datetime.timezone.utc)
NONE_INST = {'d': -1, 's': 0, 'u': 0}
ISO_RE = re.compile(r'^(\d{4})-W(\d{2})-(\d)T(\d{2}):(\d{2}):(\d{2})Z$')


def inst(d: datetime.datetime | None) -> dict[str, int]:
    if d is None:
        return dict(NONE_INST)
    x = d - EPOCH
    return {'d': x.days, 's': x.seconds, 'u': x.microseconds}


def time_line(method: str, now: datetime.datetime, drift: int, r, http_method: str) -> dict[str, Any]:
    ln: dict[str, Any] = {'ev': 'time', 'method': method, 'http': http_method, 'now': inst(now), 'now_text': now.isoformat(), 'drift': drift,
                          'status': r.status_code, 'date': {'d': -1, 's': 0}, 'bodylen': len(r.data), 'xsd': dict(NONE_INST),
                          'iso': {'wy': 0, 'ww': 0, 'wd': 0, 'h': 0, 'mi': 0, 's': 0},
                          'ntp': {'len': len(r.data), 'sec_hi': -1, 'sec_lo': -1, 'frac_hi': -1, 'frac_lo': -1}}
    if r.status_code != 200:
        return ln
    dh = r.headers.get('Date')
    if dh:
        try:
            dd = email.utils.parsedate_to_datetime(dh)
            if dd.tzinfo is None:
                dd = dd.replace(tzinfo=datetime.timezone.utc)
            ln['date'] = {k: v for k, v in inst(dd).items() if k != 'u'}
        except Exception:      # noqa: BLE001
            pass
    body = r.data if http_method == 'GET' else b''
    if method == 'xsd' and http_method == 'GET':
        ln['xsd'] = inst(M.parse_datetime(body.decode('ascii', 'replace')))
    elif method == 'iso' and http_method == 'GET':
        m = ISO_RE.match(body.decode('ascii', 'replace').strip())
        if m:
            wy, ww, wd, h, mi, s = (int(x) for x in m.groups())
            ln['iso'] = {'wy': wy, 'ww': ww, 'wd': wd, 'h': h, 'mi': mi, 's': s}
    elif method == 'http-ntp' and http_method == 'GET' and len(body) == 8:
        sec, frac = struct.unpack('>II', body)
        ln['ntp'] = {'len': 8, 'sec_hi': sec >> 16, 'sec_lo': sec & 0xFFFF, 'frac_hi': frac >> 16, 'frac_lo': frac & 0xFFFF}
    return ln


def main(tier_: str) -> int:
    out = Outcome('X01', tier_)
    out.assumptions = [
        'not one of the 20 listed properties: system behaviour of the UTCTiming sources and of the drift= option (not registered in MANIFEST.json)',
        'the NTP fraction is computed by the service in floating point: its upper 16 bits may differ by one from the exact value',
        'HEAD responses are judged by status and Date header only',
        'the comparison of a drifted manifest with the drift-free manifest of now - d ignores the UTCTiming element and the drift parameter in URLs',
    ]
    from harness.app import DashApp
    rng = random.Random(seed() * 211 + 1)
    with scratch() as d:
        ra = run_tlc('TimeSourceMC', 'TimeSourceMC.cfg', workdir=d, workers=8, timeout=900)
        tlc_must_pass(ra, 'TimeSourceMC sweep (A)')
        rb = run_tlc('TimeSourceMC', 'TimeSourceMC_session.cfg', workdir=d, workers=8, timeout=900)
        tlc_must_pass(rb, 'TimeSourceMC session (A)')
        lines: list[dict[str, Any]] = []
        instants = ['2024-03-05T12:00:07.250000', '2024-12-30T23:59:59.999999', '2024-12-29T00:00:00', '2025-01-01T00:00:00.000001',
                    '2026-01-01T10:20:30.5', '2027-01-03T23:59:59', '2021-01-03T08:00:00', '2020-12-31T12:00:00', '2024-02-29T00:00:00.75',
                    '2036-02-07T06:28:15.999999', '2036-02-07T06:28:16', '2038-01-19T03:14:08.125', '1999-12-31T23:59:59.5']
        drifts = [0, 10, -10, 1, 86400, -86399, 3600 * 24 * 365, -400000000, 2147483647, -2147483647]
        if tier_ == 'quick':
            instants = instants[:3] + rng.sample(instants[3:], 4)
        with DashApp(d / 'app', fixtures=('bbb',)) as da:
            c = da.client()
            for it in instants:
                now = datetime.datetime.fromisoformat(it).replace(tzinfo=datetime.timezone.utc)
                da.clock.set(now)
                for drift in (drifts if tier_ == 'thorough' else [0, 10] + rng.sample(drifts[2:], 3)):
                    for method in ('xsd', 'iso', 'http-ntp', 'head'):
                        q = f'?drift={drift}' if drift else ''
                        for hm in ('GET', 'HEAD'):
                            r = c.get(f'/time/{method}{q}') if hm == 'GET' else c.head(f'/time/{method}{q}')
                            lines.append(time_line(method, now, drift, r, hm))
            ntime = len(lines)
            # ---- manifests ---------------------------------------------------------------------------
            from lxml import etree
            ns = {'d': 'urn:mpeg:dash:schema:mpd:2011'}
            minst = ['2024-03-05T12:00:07.250000', '2024-03-05T23:59:58.5', '2024-06-30T00:00:30']
            for it in (minst if tier_ == 'thorough' else minst[:2]):
                now = datetime.datetime.fromisoformat(it).replace(tzinfo=datetime.timezone.utc)
                for method in ('xsd', 'iso', 'http-ntp', 'head', 'direct', 'ntp', 'sntp'):
                    for drift in ((0, 10, -7, 3600) if tier_ == 'thorough' else (0, rng.choice([10, -7, 3600]))):
                        start = '2024-03-01T00:00:00Z'
                        q = f'start={start}&depth=30&time={method}' + (f'&drift={drift}' if drift else '')
                        url = f'/dash/live/bbb/hand_made.mpd?{q}'
                        da.clock.set(now)
                        r = c.get(url)
                        if r.status_code != 200:
                            lines.append({'ev': 'refused', 'url': url, 'status': r.status_code})
                            continue
                        root = etree.fromstring(r.data)
                        ut = root.find('d:UTCTiming', ns)
                        ln: dict[str, Any] = {'ev': 'utctiming', 'method': method, 'now': inst(now), 'now_text': now.isoformat(), 'drift': drift, 'url': url,
                                              'has': 0, 'scheme': '', 'kind': 'none', 'direct': dict(NONE_INST), 'url_method': '', 'url_drift': 0,
                                              'nservers': 0, 'shifted': {}, 'plain': {}}
                        follow = None
                        if ut is not None:
                            ln['has'] = 1
                            ln['scheme'] = ut.get('schemeIdUri') or ''
                            val = ut.get('value') or ''
                            if method == 'direct':
                                dv = M.parse_datetime(val)
                                ln['kind'] = 'direct' if dv is not None else 'other'
                                ln['direct'] = inst(dv)
                            elif '://' in val:
                                sp = urlsplit(val)
                                mm = re.match(r'^/time/([a-z-]+)$', sp.path)
                                ln['kind'] = 'url'
                                ln['url_method'] = mm.group(1) if mm else sp.path
                                qs = parse_qs(sp.query)
                                try:
                                    ln['url_drift'] = int((qs.get('drift') or ['0'])[0])
                                except ValueError:
                                    ln['url_drift'] = -999999
                                follow = sp.path + ('?' + sp.query if sp.query else '')
                            else:
                                ln['kind'] = 'servers'
                                ln['nservers'] = len(val.split())
                        # the drifted manifest is the manifest of now - drift
                        p_shift = M.project(r.data, 'http://localhost' + url)
                        da.clock.set(now - datetime.timedelta(seconds=drift))
                        r0 = c.get(f'/dash/live/bbb/hand_made.mpd?start={start}&depth=30&time={method}')
                        p_plain = M.project(r0.data, 'http://localhost' + url) if r0.status_code == 200 else None

                        def digest(p) -> dict[str, str]:
                            if p is None:
                                return {'status': 'refused'}
                            o = {'ast': str(p['availabilityStartTime']), 'pub': str(p['publishTime']), 'tsbd': str(p['timeShiftBufferDepth'])}
                            for a in p['periods'][0]['adaptation_sets']:
                                for rp in a['representations'][:1]:
                                    o[f"{rp['id']}.startNumber"] = str((rp['template'] or {}).get('startNumber'))
                                    o[f"{rp['id']}.timeline"] = str([(x['t'], x['d']) for x in (rp['timeline'] or [])][:3])
                            return o
                        ln['shifted'], ln['plain'] = digest(p_shift), digest(p_plain)
                        lines.append(ln)
                        # follow the advertised source a little later
                        if follow:
                            later = now + datetime.timedelta(seconds=rng.choice([0, 2.5, 61, 3600.25]))
                            da.clock.set(later)
                            rr = c.get(follow)
                            lines.append(time_line(method, later, drift, rr, 'GET') | {'followed': 1})
        for i, ln in enumerate(lines):
            ln['tid'] = i + 1
        if ntime < 100 or len(lines) - ntime < 10:
            raise MachineryFailure(f'too few observations: {ntime} time responses, {len(lines) - ntime} manifest lines')
        vs, st = validate_trace('TimeSourceTrace', lines, workdir=d, chunk=2000, parallel=8)
        seen: set[str] = set()
        for v in vs:
            lo = v['lineobj']
            case = {'ev': lo['ev'], 'method': lo.get('method'), 'http': lo.get('http'), 'now': lo.get('now_text'), 'drift': lo.get('drift'),
                    'status': lo.get('status'), 'url': lo.get('url'), 'detail': v['detail'], 'followed': lo.get('followed', 0)}
            key = f"{v['clause']}|{lo.get('method')}|{lo.get('http')}|{1 if lo.get('drift') else 0}"
            if key in seen:
                continue
            seen.add(key)
            out.add(Violation('X01', v['clause'], case))
        out.coverage.update({
            'states': ra.distinct + rb.distinct, 'transitions': ra.generated + rb.generated, 'traces_validated_against_impl': len(lines),
            'evaluations': len(lines), 'distinct_nontrivial': len({(x.get('method'), x.get('now_text'), x.get('drift'), x.get('http')) for x in lines}),
            'rule': 'one evaluation per /time response or per manifest; distinct = distinct (method, instant, drift, HTTP method)',
            'exhaustive': False, 'time_responses': ntime, 'manifest_lines': len(lines) - ntime,
            'samples': [lines[0], lines[ntime]],
            'bounds': f'tier {tier_}: {len(instants)} instants (week-year edges, leap day, NTP era roll-over, 2038) x drifts up to +-2^31-1 x 4 methods x GET/HEAD; '
                      '7 UTCTiming methods x drifts in manifests, advertised sources followed',
        })
    return out.finish('model_checking')
