"""C20 - the windowed buffered reader behaves exactly like a slice of the file.

(A) TLC: BufferedReaderMC - the implementation-shaped model refines the property level in
    every reachable (pos, cache) state for every operation of the alphabet, all geometries.
(B) spec -> code: every edge of that state graph (emitted by TLC as JSON) is replayed on
    the real BufferedReader over io.BytesIO; the observation is logged.
(C) code -> spec: seeded random long call sequences at realistic geometry.
Both logs are validated by TLC against BufferedReaderTrace (property-level clauses).
"""
from __future__ import annotations

import io
import json
import random
import sys
from typing import Any

from harness.core import (MachineryFailure, Outcome, Violation, REPO, run_tlc, scratch, seed,
                          tlc_must_pass, validate_trace)

sys.path.insert(0, str(REPO))


def file_byte(i: int) -> int:
    return (((i % 4093) * (i % 4091)) % 8191 + (i // 7)) % 256


_FILES: dict[int, bytes] = {}


def file_bytes(n: int) -> bytes:
    if n not in _FILES:
        _FILES[n] = bytes(file_byte(i) for i in range(n))
    return _FILES[n]


def make_reader(g: dict[str, int], src=None):
    from dashlive.utils.buffered_reader import BufferedReader
    if src is None:
        src = io.BytesIO(file_bytes(g['flen']))
    return BufferedReader(src, buffersize=g['bs'], offset=g['off'], size=g['size'],
                          max_buffers=g['maxb'])


def do_op(rd, o: dict[str, Any], fdata: bytes, tid: int) -> dict[str, Any]:
    """Perform one call on the real object and project the observation to a trace line."""
    exc = ''
    res: Any = None
    try:
        if o['name'] == 'read':
            res = rd.read(o['n'])
        elif o['name'] == 'peek':
            res = rd.peek(o['n'])
        elif o['name'] == 'seek':
            res = rd.seek(o['n'], o['whence'])
        elif o['name'] == 'tell':
            res = rd.tell()
        else:
            raise MachineryFailure(f'unknown op {o}')
    except MachineryFailure:
        raise
    except Exception as err:   # the property allows no exception for these calls
        exc = type(err).__name__
    data = b''
    ival = 0
    if exc == '':
        if o['name'] in ('read', 'peek'):
            if isinstance(res, str):
                data = res.encode('latin1')
            elif res is None:
                data = b''
            else:
                data = bytes(res)
        else:
            ival = int(res)
    try:
        pos1 = int(rd.tell())
    except Exception:
        pos1 = -1
    line: dict[str, Any] = {'tid': tid, 'ev': 'op', 'o': o, 'exc': 1 if exc else 0, 'excname': exc,
                            'len': len(data), 'int': ival, 'pos1': pos1}
    if len(data) <= 48:
        line['big'] = 0
        line['data'] = list(data)
        line['at'] = []
    else:
        line['big'] = 1
        line['data'] = []
        at = []
        k = fdata.find(data)
        while k >= 0:
            at.append(k)
            if len(at) > 50:
                raise MachineryFailure('returned data occurs at more than 50 places in the test file')
            k = fdata.find(data, k + 1)
        line['at'] = at
    return line


def state_key(g: dict[str, int], pos: int, fifo: list[int]) -> str:
    return json.dumps([g, pos, fifo], sort_keys=True)


def replay_edges(edges: list[dict[str, Any]], out: Outcome) -> list[dict[str, Any]]:
    """(B): run every model edge on the real class. Returns trace lines."""
    # reconstruct shortest paths from the initial states
    succ: dict[str, list[dict[str, Any]]] = {}
    for e in edges:
        succ.setdefault(state_key(e['g'], e['pos'], e['fifo']), []).append(e)
    paths: dict[str, list[dict[str, Any]]] = {}
    frontier = []
    for e in edges:
        k = state_key(e['g'], 0, [])
        if k not in paths and k in succ:
            paths[k] = []
            frontier.append(k)
    while frontier:
        nxt = []
        for k in frontier:
            for e in succ.get(k, []):
                k2 = state_key(e['g'], e['sp'], e['ififo'])
                if k2 not in paths:
                    paths[k2] = paths[k] + [e['o']]
                    nxt.append(k2)
        frontier = nxt
    unreachable = [k for k in succ if k not in paths]
    if unreachable:
        raise MachineryFailure(f'{len(unreachable)} model states without a path from an initial state')
    lines: list[dict[str, Any]] = []
    tid = 0
    drift = 0
    features = {'evicts': 0, 'cross_bucket': 0, 'truncated_read': 0, 'readall_mid': 0}
    for e in edges:
        tid += 1
        g = e['g']
        fdata = file_bytes(g['flen'])
        rd = make_reader(g)
        k = state_key(g, e['pos'], e['fifo'])
        for o in paths[k]:
            do_op(rd, o, fdata, tid)
        # the state reached on the real object, projected
        real_pos = rd.tell()
        real_fifo = list(rd.buffers.keys()) if hasattr(rd, 'buffers') else []
        if real_pos != e['pos'] or real_fifo != e['fifo']:
            drift += 1
        lines.append({'tid': tid, 'ev': 'open', 'g': g, 'pos': real_pos})
        ln = do_op(rd, e['o'], fdata, tid)
        lines.append(ln)
        real_fifo = list(rd.buffers.keys()) if hasattr(rd, 'buffers') else []
        if real_fifo != e['ififo'] or (ln['big'] == 0 and ln['data'] != e['ib'] and e['o']['name'] == 'peek'):
            drift += 1
        o = e['o']
        if len(e['fifo']) == g['maxb'] and e['ififo'] and e['ififo'] != e['fifo'] and len(e['ififo']) == g['maxb']:
            features['evicts'] += 1
        if o['name'] in ('read', 'peek') and o['n'] > 0 and (e['pos'] % g['bs']) + min(o['n'], g['size'] - e['pos']) > g['bs']:
            features['cross_bucket'] += 1
        if o['name'] == 'read' and o['n'] > g['size'] - e['pos'] >= 0:
            features['truncated_read'] += 1
        if o['name'] == 'read' and o['n'] == -1 and 0 < e['pos'] < g['size']:
            features['readall_mid'] += 1
    out.coverage['model_drift'] = out.coverage.get('model_drift', 0) + drift
    out.coverage['replay_features'] = features
    for name, cnt in features.items():
        if cnt == 0:
            raise MachineryFailure(f'vacuity guard: no replayed edge exercised "{name}"')
    return lines


def random_traces(rng: random.Random, count: int, steps: int, tid0: int) -> list[dict[str, Any]]:
    """(C): long call sequences at realistic geometry."""
    lines: list[dict[str, Any]] = []
    flen = 150_000
    fdata = file_bytes(flen)
    # one file object serves several windows one after the other (the way the fragments of one media file are read): every
    # third trace opens its window on the file object of the previous trace, wherever that one left it
    shared = None
    for t in range(count):
        bs = rng.choice([16384, 16384, 4096, 1000, 777])
        off = rng.choice([0, 1, bs - 1, bs, bs + 1, 20_000, 50_001, 33_333])
        max_size = flen - off
        size = rng.choice([max_size, max_size - 1, 3 * bs, 3 * bs + 1, 2 * bs - 1, bs, 70_000, 5, 0])
        size = max(0, min(size, max_size))
        g = {'flen': flen, 'off': off, 'size': size, 'bs': bs, 'maxb': rng.choice([2, 3, 30])}
        tid = tid0 + t
        if t % 3 == 0 or shared is None:
            shared = io.BytesIO(file_bytes(flen))
        elif t % 3 == 2 and lines:
            g['bs'] = lines and prev_g['bs']      # same block size as the previous window on this file object
            g['size'] = max(0, min(g['size'], flen - g['off']))
        rd = make_reader(g, shared)
        prev_g = g
        lines.append({'tid': tid, 'ev': 'open', 'g': g, 'pos': 0})
        for _ in range(steps):
            kind = rng.random()
            if kind < 0.45:
                n = rng.choice([0, 1, 2, 7, 40, 48, 49, bs - 1, bs, bs + 1, 2 * bs, 3 * bs + 5, size, size + 10, -1,
                                rng.randrange(0, 3 * bs)])
                o = {'name': 'read', 'n': n, 'whence': 0}
            elif kind < 0.65:
                n = rng.choice([1, 3, 48, 49, bs - 1, bs, bs + 1, 2 * bs + 1, size + 1, rng.randrange(1, 2 * bs)])
                o = {'name': 'peek', 'n': n, 'whence': 0}
            elif kind < 0.95:
                wh = rng.choice([0, 0, 1, 2])
                if wh == 0:
                    n = rng.choice([0, 1, bs - 1, bs, bs + 1, size - 1, size, size + 1, -1, max(0, size - bs - 1),
                                    rng.randrange(0, max(1, size + 1))])
                elif wh == 1:
                    n = rng.choice([0, 1, -1, bs, -bs, -(bs + 1), 7, -7, size, -size, rng.randrange(-bs, bs + 1)])
                else:
                    n = rng.choice([0, -1, -bs, -(bs + 1), -size, -(size + 1), 1, 5, -rng.randrange(0, max(1, size + 1))])
                o = {'name': 'seek', 'n': n, 'whence': wh}
            else:
                o = {'name': 'tell', 'n': 0, 'whence': 0}
            lines.append(do_op(rd, o, fdata, tid))
    return lines


def main(tier_: str) -> int:
    out = Outcome('C20', tier_)
    out.assumptions = [
        'file contents are the computable function File(i) shared by spec and driver',
        'results longer than 48 bytes are located in the file by the projection (bytes.find); '
        'the spec decides whether that location is the one the window demands',
        'an empty str result (the code returns r\'\') is treated as an empty byte string',
        'operation alphabet: read n>=0 or -1, peek n>0, seek whence 0/1/2, tell; explicit window size only',
    ]
    with scratch() as d:
        cfg = f'BufferedReaderMC_{tier_}'
        ra = run_tlc('BufferedReaderMC', cfg + '.cfg', workdir=d, workers=16, timeout=900)
        tlc_must_pass(ra, 'C20 (A) BufferedReaderMC')
        re_ = run_tlc('BufferedReaderMC', cfg + '_emit.cfg', workdir=d, workers=1, timeout=1800, heap='6g')
        tlc_must_pass(re_, 'C20 (B) edge emission')
        edges = re_.tagged('E')
        if len(edges) < 1000:
            raise MachineryFailure(f'only {len(edges)} edges emitted')
        lines = replay_edges(edges, out)
        n_replay = len(edges)
        rng = random.Random(seed() * 7919 + 20)
        ntr, steps = (60, 80) if tier_ == 'quick' else (600, 120)
        rlines = random_traces(rng, ntr, steps, tid0=10_000_000)
        lines.extend(rlines)
        vs, st = validate_trace('BufferedReaderTrace', lines, workdir=d, chunk=200000, parallel=6)
        seen = set()
        for v in vs:
            ln = v['lineobj']
            # find the open line of this tid (for the geometry)
            j = v['index']
            while j >= 0 and lines[j].get('ev') != 'open':
                j -= 1
            case = {'g': lines[j]['g'] if j >= 0 else None, 'start_pos': lines[j].get('pos') if j >= 0 else None,
                    'op': ln.get('o'), 'observed': {k: ln.get(k) for k in ('len', 'int', 'pos1', 'exc', 'excname', 'at')},
                    'data': ln.get('data', [])[:16], 'tid': ln.get('tid'),
                    'prefix_ops': [x['o'] for x in lines[j + 1:v['index']]][-12:] if j >= 0 else []}
            key = (v['clause'], json.dumps(case['op'], sort_keys=True), json.dumps(case['g'], sort_keys=True), case['start_pos'])
            if key in seen:
                continue
            seen.add(key)
            out.add(Violation('C20', v['clause'], case))
        distinct_ops = {json.dumps([ln['o'], ln['len'], ln['pos1']], sort_keys=True) for ln in lines if ln.get('ev') == 'op'}
        out.coverage.update({
            'states': ra.distinct, 'transitions': ra.generated,
            'traces_validated_against_impl': n_replay + ntr,
            'evaluations': len(lines),
            'distinct_nontrivial': len(distinct_ops),
            'rule': 'one evaluation per call on the real BufferedReader; distinct = distinct (operation, result length, '
                    'resulting position) triples; every edge of the TLC state graph is replayed (exhaustive in the small scope)',
            'exhaustive': True,
            'edges_replayed': n_replay, 'random_traces': ntr, 'random_steps_each': steps,
            'trace_lines': st['lines'], 'tlc_trace_states': st['tlc_states'],
            'geometries': len({json.dumps(e['g'], sort_keys=True) for e in edges}),
            'bounds': 'small scope: file <= 12 bytes, buffer size 1..5, cache limit 2..3, all reachable (pos, cache) states; '
                      'real scale: 150 kB file, buffers 777..16384 bytes, cache limit 2/3/30',
            'samples': [edges[0], edges[len(edges) // 2], rlines[1], rlines[len(rlines) // 2]],
        })
    return out.finish('model_checking')
