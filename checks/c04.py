"""C04 - ISO-BMFF parse/encode round-trips byte-exactly.
(A) TLC BoxTreeMC: edit sequences (set field with a width change, append, insert, remove) on a small
    tree; the encoded tree nests exactly after every edit.
(B) every fixture MP4 file: parse (eager, lazy, read-only) and re-encode every top-level atom; eager vs
    lazy field values; JSON round trip per box; seeded edit sequences on real trees followed by encode,
    an independent walk of the result and a re-parse; field boundary values per box class.  Every
    registered box class (fourcc.BOXES) must be seen in some fixture or it is reported as uncovered.
All lines validated by TLC (BoxTreeTrace: sizes nest recursively, round-trip flags)."""
from __future__ import annotations

import io
import json
import struct as _st
import random
from pathlib import Path
from typing import Any

from harness.core import REPO, MachineryFailure, Outcome, Violation, run_tlc, scratch, seed, tlc_must_pass, validate_trace
from harness.walker import Box, Parsed, CONTAINERS


def tree_of(b: Box) -> dict[str, Any]:
    return {'name': b.name, 'size': b.size, 'hdr': b.hdr, 'cont': 1 if b.type in CONTAINERS else 0,
            'kids': [tree_of(c) for c in b.children]}


def main(tier_: str) -> int:
    import sys
    sys.path.insert(0, str(REPO))
    import logging
    logging.disable(logging.CRITICAL)
    from dashlive.mpeg import mp4
    out = Outcome('C04', tier_)
    out.assumptions = [
        '"every box\'s size field equals its encoded length" is judged on the encoded bytes (the size fields a reader sees), by the '
        'independent walker; the size attribute of the box objects is additionally checked after structural edits (insert, append, '
        'remove, move) with boxes that already have a size - a box that was never encoded has none yet, and a field assignment '
        'changes the attribute only at the next encode',
        'well-formed inputs are the repository\'s fixture files plus trees edited through the public API; field values strictly inside a '
        'width\'s range are sampled at boundary classes only',
    ]
    rng = random.Random(seed() * 59 + 4)
    files = sorted((REPO / 'tests' / 'fixtures').rglob('*.mp4'))
    lines: list[dict[str, Any]] = []
    seen_classes: set[str] = set()
    with scratch() as d:
        ra = run_tlc('BoxTreeMC', 'BoxTreeMC.cfg', workdir=d, workers=8, timeout=300)
        tlc_must_pass(ra, 'BoxTreeMC (A)')

        def load(data: bytes, mode: str, lazy: bool, iv: int | None = None):
            opts = mp4.Options(mode=mode, lazy_load=lazy)
            if iv:
                opts.iv_size = iv
            from dashlive.utils.buffered_reader import BufferedReader
            return mp4.Mp4Atom.load(BufferedReader(None, data=data), options=opts, use_wrapper=True)

        def walk_classes(atom) -> None:
            seen_classes.add(atom.atom_type)
            for ch in (atom.children or []):
                walk_classes(ch)
        units: list[tuple[str, bytes, int | None]] = []
        excluded: list[str] = []
        for f in files:
            data = f.read_bytes()
            rel = str(f.relative_to(REPO / 'tests' / 'fixtures'))
            iv = 8 if '_enc' in f.name or f.name in ('enc-moov.mp4',) else None
            if f.name == 'senc.mp4':
                excluded.append(f'{rel}: a bare senc box out of its traf context (the upstream test supplies parent and iv_size)')
                continue
            ptop = Parsed(data, iv_size=iv)
            moofs = [b for b in ptop.top if b.name == 'moof']
            # the file as a whole is one tree
            units.append((rel, data, iv))
            if len(moofs) <= 1:
                continue
            tf = ptop.find('moof', 'traf', 'tfhd')
            if tf is not None and 'base_data_offset' in tf.f:
                # fragments with an explicit (file-absolute) base data offset are only well-formed inside the whole file
                continue
            # the service parses the init segment and every fragment from its own window (position 0)
            units.append((rel + '#init', data[:moofs[0].pos], iv))
            picks = list(range(len(moofs))) if tier_ == 'thorough' else sorted(rng.sample(range(len(moofs)), min(3, len(moofs))))
            for i in picks:
                end = moofs[i + 1].pos if i + 1 < len(moofs) else len(data)
                frag = data[moofs[i].pos:end]
                pf = Parsed(frag, iv_size=iv)
                senc = pf.find('moof', 'traf', 'senc')
                if senc is not None and not senc.f.get('entries_ok'):
                    excluded.append(f'{rel}#frag{i + 1}: senc flags announce sub-sample data that the box does not contain (not well-formed input)')
                    continue
                units.append((f'{rel}#frag{i + 1}', frag, iv))
        out.coverage['inputs_excluded_as_not_well_formed'] = sorted(set(x.split('#frag')[0] + (' (fragments)' if '#frag' in x else '') + ': ' + x.split(': ', 1)[1] for x in excluded))
        for rel, data, iv in units:
            tops_ref = Parsed(data, iv_size=iv)
            try:
                eager = load(data, 'rw', False, iv)
                lazy = load(data, 'rw', True, iv)
                ro = load(data, 'r', False, iv)
            except Exception as err:      # noqa: BLE001
                lines.append({'ev': 'rt', 'file': rel, 'atom': 'file', 'mode': 'load', 'eq': 0, 'err': f'{type(err).__name__}: {err}'[:120]})
                continue
            for mode, wrap in (('eager', eager), ('lazy', lazy), ('readonly', ro)):
                # the whole tree is encoded in place (every atom keeps its position) and compared atom by atom
                try:
                    ob = io.BytesIO()
                    wrap.encode(ob)
                    got_all = ob.getvalue()
                    err = ''
                except Exception as e:      # noqa: BLE001
                    got_all, err = b'', f'{type(e).__name__}: {e}'[:120]
                for idx, ref in enumerate(tops_ref.top):
                    want = data[ref.pos:ref.end]
                    eq = 1 if got_all[ref.pos:ref.end] == want and len(got_all) == len(data) else 0
                    lines.append({'ev': 'rt', 'file': rel, 'atom': ref.name, 'mode': mode, 'eq': eq, 'err': err, 'len': len(want), 'idx': idx})
            # lazy vs eager field values; JSON round trip (fresh trees: the previous loop touched the lazy ones)
            try:
                eager = load(data, 'rw', False, iv)
                lazy = load(data, 'rw', True, iv)
                for idx, (a, b) in enumerate(zip(eager.children, lazy.children)):
                    if a.atom_type == 'mdat':
                        continue
                    walk_classes(a)
                    # rendering a tree (what a log line does) is part of the history of the process: it must not change
                    # what later conversions produce
                    try:
                        repr(a), str(a)
                        for sub in list(getattr(a, 'children', None) or [])[:6]:
                            repr(sub)
                            getattr(sub, 'as_python', lambda: None)()
                    except Exception:      # noqa: BLE001  (formatting problems are not C04's business)
                        pass
                    ja, jb = a.toJSON(pure=True), b.toJSON(pure=True)
                    lines.append({'ev': 'lazyeq', 'file': rel, 'atom': a.atom_type, 'eq': 1 if ja == jb else 0})
                    ref = tops_ref.top[idx]
                    want = data[ref.pos:ref.end]
                    try:
                        back = mp4.Mp4Atom.fromJSON(a.toJSON())
                        ob = io.BytesIO()
                        ob.write(data[:ref.pos])
                        back.encode(ob)
                        got = ob.getvalue()[ref.pos:]
                        lines.append({'ev': 'json', 'file': rel, 'atom': a.atom_type, 'eq': 1 if bytes(got) == want else 0, 'err': ''})
                    except Exception as e:      # noqa: BLE001
                        lines.append({'ev': 'json', 'file': rel, 'atom': a.atom_type, 'eq': 0, 'err': f'{type(e).__name__}: {e}'[:160]})
            except Exception as err:      # noqa: BLE001
                lines.append({'ev': 'lazyeq', 'file': rel, 'atom': 'file', 'eq': 0, 'err': f'{type(err).__name__}: {err}'[:120]})
        # ---- edit sequences on real trees -----------------------------------------------------------
        seg_files = [f for f in files if f.parent.name in ('bbb', 'tears')]
        nseq = 60 if tier_ == 'quick' else 800
        for k in range(nseq):
            f = rng.choice(seg_files)
            data = f.read_bytes()
            p = Parsed(data)
            moofs = [b for b in p.top if b.name == 'moof']
            i = rng.randrange(len(moofs))
            start = moofs[i].pos
            end = moofs[i + 1].pos if i + 1 < len(moofs) else len(data)
            frag = data[start:end]
            init = data[:moofs[0].pos]
            iv = 8 if '_enc' in f.name else None
            use_lazy = rng.random() < 0.5
            ops = []
            fields_ok = 1
            try:
                if rng.random() < 0.6:
                    wrap = load(frag, 'rw', use_lazy, iv)
                    expect: dict[str, Any] = {}
                    for _ in range(rng.randrange(1, 5)):
                        op = rng.choice(['seq', 'tfdt_small', 'tfdt_big', 'del_sidx', 'del_styp', 'emsg', 'trun_off', 'tfhd_base'])
                        ops.append(op)
                        moof = wrap.moof
                        if op == 'seq':
                            v = rng.choice([0, 1, 2**32 - 1, 77])
                            moof.mfhd.sequence_number = v
                            expect['seq'] = v
                        elif op == 'tfdt_small':
                            v = rng.choice([0, 1, 2**32 - 1])
                            moof.traf.tfdt.base_media_decode_time = v
                            expect['tfdt'] = v
                        elif op == 'tfdt_big':
                            v = rng.choice([2**32, 2**40 + 5, 2**64 - 1])
                            moof.traf.tfdt.base_media_decode_time = v
                            expect['tfdt'] = v
                        elif op in ('del_sidx', 'del_styp'):
                            try:
                                if op == 'del_sidx':
                                    del wrap.sidx
                                else:
                                    del wrap.styp
                            except AttributeError:
                                pass
                        elif op == 'emsg':
                            em = mp4.EventMessageBox(version=rng.choice([0, 1]), flags=0, scheme_id_uri='urn:x', value='v' * rng.randrange(0, 9),
                                                     timescale=100, presentation_time_delta=5, presentation_time=5, event_duration=9, event_id=3,
                                                     data=b'z' * rng.randrange(0, 30))
                            wrap.children.insert(wrap.index('moof'), em)
                        elif op == 'trun_off':
                            moof.traf.trun.data_offset = moof.traf.trun.data_offset
                        elif op == 'tfhd_base':
                            moof.traf.tfhd.base_data_offset = None
                    outb = io.BytesIO()
                    wrap.encode(outb)
                    got = outb.getvalue()
                    pw = Parsed(got, iv_size=iv)
                    mf = pw.find('moof', 'mfhd')
                    td = pw.find('moof', 'traf', 'tfdt')
                    if 'seq' in expect and mf.f['sequence_number'] != expect['seq']:
                        fields_ok = 0
                    if 'tfdt' in expect and td.f['base_media_decode_time'] != expect['tfdt']:
                        fields_ok = 0
                else:
                    wrap = load(init, 'rw', use_lazy, iv)
                    for _ in range(rng.randrange(1, 4)):
                        op = rng.choice(['pssh', 'pssh2', 'del_mehd', 'mvhd_ts', 'del_pssh'])
                        ops.append(op)
                        if op in ('pssh', 'pssh2'):
                            ps = mp4.ContentProtectionSpecificBox(version=1 if op == 'pssh2' else 0, flags=0, system_id=bytes(range(16)),
                                                                  key_ids=[bytes([7] * 16)] if op == 'pssh2' else [], data=b'd' * rng.randrange(0, 40))
                            wrap.moov.append_child(ps)
                        elif op == 'del_mehd':
                            try:
                                del wrap.moov.mvex.mehd
                            except AttributeError:
                                pass
                        elif op == 'del_pssh':
                            try:
                                del wrap.moov.pssh
                            except AttributeError:
                                pass
                        elif op == 'mvhd_ts':
                            wrap.moov.mvhd.timescale = rng.choice([1, 1000, 2**32 - 1])
                    outb = io.BytesIO()
                    wrap.encode(outb)
                    got = outb.getvalue()
                    pw = Parsed(got, iv_size=iv)
                # re-parse with the real parser and re-encode: must be a fixed point
                again = load(got, 'rw', False, iv)
                ob2 = io.BytesIO()
                again.encode(ob2)
                # (pointer fields such as trun.data_offset are C03's business; here the tree must re-parse and keep its size)
                reparse_eq = 1 if len(ob2.getvalue()) == len(got) else 0
                lines.append({'ev': 'edit', 'file': f.name, 'lazy': use_lazy, 'ops': ops, 'tops': [tree_of(b) for b in pw.top if b.name != 'mdat'] +
                              [{'name': 'mdat', 'size': b.size, 'hdr': b.hdr, 'cont': 0, 'kids': []} for b in pw.top if b.name == 'mdat'],
                              'total': len(got), 'reparse_eq': reparse_eq if not pw.problems else 0, 'fields_ok': fields_ok})
            except Exception as err:      # noqa: BLE001
                lines.append({'ev': 'edit', 'file': f.name, 'lazy': use_lazy, 'ops': ops, 'tops': [], 'total': -1, 'reparse_eq': 0, 'fields_ok': 0,
                              'err': f'{type(err).__name__}: {err}'[:160]})
        # ---- the size a box object holds after structural edits (before anything is encoded) --------------------------
        # moves (remove + insert / append of the same child), removals, and insert / append of boxes that already have a size
        # (encoded once; built with or without the target as parent).  A box that was never encoded has no size yet and is
        # not part of this stage.
        def all_sizes(a, acc: list, path: str = '') -> list:
            for i, ch in enumerate(a.children or []):
                acc.append((f'{path}/{ch.atom_type}[{i}]', ch.size))
                all_sizes(ch, acc, f'{path}/{ch.atom_type}[{i}]')
            return acc
        nmem = 0
        for k in range(80 if tier_ == 'quick' else 1200):
            f = rng.choice([x for x in seg_files if '_enc' not in x.name])
            data = f.read_bytes()
            p = Parsed(data)
            moofs = [b for b in p.top if b.name == 'moof']
            part = data[:moofs[0].pos] if k % 2 == 0 else data[moofs[0].pos:(moofs[1].pos if len(moofs) > 1 else len(data))]
            use_lazy = rng.random() < 0.5
            ops = []
            try:
                wrap = load(part, 'rw', use_lazy)
                for _ in range(rng.randrange(1, 4)):
                    conts: list = []

                    def rec_c(a) -> None:
                        if a.children:
                            conts.append(a)
                            for ch in a.children:
                                rec_c(ch)
                    for ch in wrap.children:
                        rec_c(ch)
                    par = rng.choice(conts)
                    op = rng.choice(['move', 'move', 'append_sized', 'insert_sized', 'remove', 'to_end'])
                    if op == 'move':
                        i = rng.randrange(len(par.children))
                        ch = par.children[i]
                        par.remove_child(i)
                        par.insert_child(rng.randrange(len(par.children) + 1), ch)
                    elif op == 'to_end':
                        ch = par.children[0]
                        par.remove_child(0)
                        par.append_child(ch)
                    elif op in ('append_sized', 'insert_sized'):
                        nb = mp4.ContentProtectionSpecificBox(version=0, flags=0, system_id=bytes(16), key_ids=[], data=b'abc')
                        nb.encode()
                        if rng.random() < 0.5:
                            object.__setattr__(nb, 'parent', par)
                        if op == 'append_sized':
                            par.append_child(nb)
                        else:
                            par.insert_child(rng.randrange(len(par.children) + 1), nb)
                    elif op == 'remove' and len(par.children) > 1 and par.atom_type in ('moov', 'udta', 'mvex', 'stbl', 'minf', 'dinf'):
                        cand = [i for i, ch in enumerate(par.children) if ch.atom_type in ('pssh', 'udta', 'mehd', 'free', 'btrt', 'pasp', 'edts')]
                        if not cand:
                            continue
                        par.remove_child(rng.choice(cand))
                    else:
                        continue
                    ops.append(f'{op}@{par.atom_type}')
                if not ops:
                    continue
                before = all_sizes(wrap, [])
                ob = io.BytesIO()
                wrap.encode(ob)
                after = dict(all_sizes(wrap, []))
                lines.append({'ev': 'memsize', 'file': f.name, 'lazy': use_lazy, 'ops': ops, 'ok': 1,
                              'pairs': [[sz, after.get(path, -1)] for path, sz in before]})
            except Exception as err:      # noqa: BLE001
                lines.append({'ev': 'memsize', 'file': f.name, 'lazy': use_lazy, 'ops': ops, 'ok': 0, 'pairs': [], 'err': f'{type(err).__name__}: {err}'[:160]})
            nmem += 1
        out.coverage['structural_edit_size_checks'] = nmem
        # ---- field boundary values ---------------------------------------------------------------------
        def rt_box(box, check) -> int:
            try:
                if callable(box):
                    box = box()         # construction belongs to the observation: it runs code under test too
                b = box.encode()
                from dashlive.utils.buffered_reader import BufferedReader
                back = mp4.Mp4Atom.load(BufferedReader(None, data=bytes(b)), options=mp4.Options(mode='rw', lazy_load=False))[0]
                return 1 if check(back) and bytes(back.encode()) == bytes(b) and Parsed(bytes(b)).well_formed() else 0
            except Exception:      # noqa: BLE001
                return 0
        for v in (0, 1, 2**31, 2**32 - 1):
            lines.append({'ev': 'field', 'box': 'mfhd', 'field': 'sequence_number', 'value_class': str(v),
                          'eq': rt_box(mp4.MovieFragmentHeaderBox(version=0, flags=0, sequence_number=v), lambda b: b.sequence_number == v)})
        for v in (0, 1, 2**32 - 1, 2**32, 2**63, 2**64 - 1):
            ver = 1 if v >= 2**32 else 0
            lines.append({'ev': 'field', 'box': 'tfdt', 'field': 'base_media_decode_time', 'value_class': str(v),
                          'eq': rt_box(mp4.TrackFragmentDecodeTimeBox(version=ver, flags=0, base_media_decode_time=v), lambda b: b.base_media_decode_time == v)})
        for ver in (0, 1):
            for pt in (0, 1, 2**32 - 1) + ((2**63,) if ver == 1 else ()):
                for n in (0, 1, 300):
                    em = mp4.EventMessageBox(version=ver, flags=0, scheme_id_uri='urn:s' + 'x' * n, value='', timescale=2**32 - 1,
                                             presentation_time_delta=min(pt, 2**32 - 1), presentation_time=pt, event_duration=2**32 - 1,
                                             event_id=2**32 - 1, data=b'\x00' * n)
                    lines.append({'ev': 'field', 'box': 'emsg', 'field': f'v{ver} time', 'value_class': f'{pt}/{n}',
                                  'eq': rt_box(em, lambda b: b.event_id == 2**32 - 1 and len(b.data or b'') == n)})
        for ver in (0, 1):
            for nk in ((0,) if ver == 0 else (0, 1, 3)):
                for n in (0, 1, 1000):
                    ps = mp4.ContentProtectionSpecificBox(version=ver, flags=0, system_id=bytes(range(16)), key_ids=[bytes([i] * 16) for i in range(nk)],
                                                          data=(b'p' * n) if n else None)
                    lines.append({'ev': 'field', 'box': 'pssh', 'field': f'v{ver} kids={nk}', 'value_class': str(n),
                                  'eq': rt_box(ps, lambda b: len(b.key_ids or []) == nk and len(b.data or b'') == n)})
        # ---- legal values written into stored boxes (byte level) --------------------------------------
        # every byte of a field whose whole value range is legal (integers, times, matrices, ids) or that is a
        # character of a 4CC / string is replaced, one at a time, in the bytes of a stored box; the result is
        # still a well-formed box of the same layout, so parse -> encode must reproduce it
        U, C4, ST = (0x00, 0x01, 0x7F, 0x80, 0xFF), (0x20, 0x41, 0x7A, 0x34), (0x20, 0x41, 0x7E)
        LEGAL = {
            'ftyp': [(0, 4, C4, 'major_brand'), (4, 8, U, 'minor_version'), (8, None, C4, 'compatible_brands')],
            'styp': [(0, 4, C4, 'major_brand'), (4, 8, U, 'minor_version'), (8, None, C4, 'compatible_brands')],
            'mvhd': [(4, 8, U, 'creation_time'), (8, 12, U, 'modification_time'), (12, 16, U, 'timescale'), (16, 20, U, 'duration'),
                     (20, 24, U, 'rate'), (24, 26, U, 'volume'), (36, 72, U, 'matrix'), (96, 100, U, 'next_track_id')],
            'tkhd': [(4, 8, U, 'creation_time'), (8, 12, U, 'modification_time'), (12, 16, U, 'track_id'), (20, 24, U, 'duration'),
                     (32, 34, U, 'layer'), (34, 36, U, 'alternate_group'), (36, 38, U, 'volume'), (40, 76, U, 'matrix'),
                     (76, 80, U, 'width'), (80, 84, U, 'height')],
            'mdhd': [(4, 8, U, 'creation_time'), (8, 12, U, 'modification_time'), (12, 16, U, 'timescale'), (16, 20, U, 'duration')],
            'hdlr': [(8, 12, C4, 'handler_type'), (24, -1, ST, 'name')],
            'mfhd': [(4, 8, U, 'sequence_number')], 'tfdt': [(4, None, U, 'base_media_decode_time')],
            'trex': [(4, 24, U, 'defaults')], 'mehd': [(4, None, U, 'fragment_duration')],
            'sidx': [(4, 8, U, 'reference_id'), (8, 12, U, 'timescale'), (12, 16, U, 'earliest_presentation_time'),
                     (16, 20, U, 'first_offset'), (24, None, U, 'references')],
            'schm': [(4, 8, C4, 'scheme_type'), (8, 12, U, 'scheme_version')], 'frma': [(0, 4, C4, 'data_format')],
            'btrt': [(0, 12, U, 'bitrates')], 'pasp': [(0, 8, U, 'spacing')], 'tenc': [(8, 24, U, 'default_kid')],
            'elst': [(8, None, U, 'entries')],
        }
        from dashlive.utils.buffered_reader import BufferedReader as _BR

        def rt_bytes(raw: bytes) -> int:
            try:
                atoms = mp4.Mp4Atom.load(_BR(None, data=raw), options=mp4.Options(mode='rw', lazy_load=False))
                return 1 if b''.join(bytes(a.encode()) for a in atoms) == raw else 0
            except Exception:      # noqa: BLE001
                return 0
        seen_leaf: set[tuple[str, bytes]] = set()
        nmut = 0
        for f in files:
            data = f.read_bytes()
            try:
                pw0 = Parsed(data)
            except Exception:      # noqa: BLE001
                continue
            for tb in [b for b in pw0.top if b.name in ('ftyp', 'styp', 'moov', 'moof', 'sidx')][:6]:
                for lb in [tb] + list(tb.walk()):
                    if lb.name not in LEGAL or lb.children:
                        continue
                    raw = data[lb.pos:lb.end]
                    if (lb.name, raw) in seen_leaf or rt_bytes(raw) != 1:
                        continue        # boxes that need their parent's context are covered by the whole-tree round trips
                    seen_leaf.add((lb.name, raw))
                    plen = len(raw) - lb.hdr
                    for a, b_, vals, fname in LEGAL[lb.name]:
                        end = plen if b_ is None else (plen + b_ if b_ < 0 else b_)
                        bad: list[str] = []
                        n = 0
                        for off in range(a, min(end, plen)):
                            for val in vals:
                                if raw[lb.hdr + off] == val:
                                    continue
                                m = bytearray(raw)
                                m[lb.hdr + off] = val
                                n += 1
                                if rt_bytes(bytes(m)) != 1:
                                    bad.append(f'{off}:{val:#04x}')
                        # byte pairs that look like the start of a textual literal ("0x...", "b'") at the head of a binary field
                        if vals == U and min(end, plen) - a >= 4:
                            for pair in (b'0x', b'0X', b"b'"):
                                m = bytearray(raw)
                                m[lb.hdr + a:lb.hdr + a + 2] = pair
                                n += 1
                                if rt_bytes(bytes(m)) != 1:
                                    bad.append(f'{a}:{pair!r}')
                        # a string field holds UTF-8 text (ISO/IEC 14496-12): two- and three-byte characters in place of ASCII ones
                        if vals == ST and min(end, plen) - a >= 3:
                            for seq in (b'\xc3\xa9', b'\xc2\xa9', b'\xe3\x82\xab'):
                                m = bytearray(raw)
                                m[lb.hdr + a:lb.hdr + a + len(seq)] = seq
                                n += 1
                                if rt_bytes(bytes(m)) != 1:
                                    bad.append(f'{a}:{seq!r}')
                        nmut += n
                        lines.append({'ev': 'field', 'box': lb.name, 'field': fname, 'value_class': f'bytes of {f.name} ({n} mutations)' +
                                      (f' failing offset:value {bad[:6]}' if bad else ''), 'eq': 0 if bad else 1})
        out.coverage['legal_byte_mutations'] = nmut
        # ---- version 1 forms: every stored full box that has a 64-bit form (ISO/IEC 14496-12: sidx, tfdt, mehd, mvhd, mdhd, tkhd) is
        # re-written in that form - the 32-bit fields widened to 64 bits, once with a zero and once with a non-zero upper half - and
        # must round-trip like the stored form
        WIDE = {'sidx': (12, 16), 'tfdt': (4,), 'mehd': (4,), 'mvhd': (4, 8, 16), 'mdhd': (4, 8, 16), 'tkhd': (4, 8, 20)}
        nwide = 0
        for name, raw in sorted(seen_leaf):
            if name not in WIDE or raw[8] != 0:
                continue
            for upper in (b'\x00\x00\x00\x00', b'\x00\x00\x00\x02'):
                m = bytearray(raw)
                for off in sorted(WIDE[name], reverse=True):
                    m[8 + off:8 + off] = upper
                m[8] = 1
                m[0:4] = _st.pack('>I', len(m))
                nwide += 1
                ok = rt_bytes(bytes(m))
                lines.append({'ev': 'field', 'box': name, 'field': 'version 1 form',
                              'value_class': f'{len(raw)} byte version 0 box widened to {len(m)} bytes, upper halves {upper.hex()}', 'eq': ok})
        out.coverage['version1_forms'] = nwide
        # ---- avcC: the profile decides whether the High-profile trailer (chroma format, bit depths, SPS extensions) follows the
        # PPS list (ISO/IEC 14496-15 5.3.3.1.2).  The profile byte of every stored avcC is set to every profile of its own class
        # (with / without trailer) inside its whole init segment, which must still round-trip.
        EXT = (100, 110, 122, 244, 44, 83, 86, 118, 128, 134, 135, 138, 139)
        PLAIN = (66, 77, 88)
        seen_avcc: set[bytes] = set()
        navcc = 0
        for f in files:
            data = f.read_bytes()
            i = data.find(b'avcC')
            if i < 4:
                continue
            try:
                pw0 = Parsed(data)
            except Exception:      # noqa: BLE001
                continue
            mv = next((b for b in pw0.top if b.name == 'moov'), None)
            if mv is None or not (mv.pos < i < mv.end):
                continue
            size = _st.unpack('>I', data[i - 4:i])[0]
            box = data[i - 4:i - 4 + size]
            if box in seen_avcc:
                continue
            seen_avcc.add(box)
            q = 14
            try:
                for _ in range(box[13] & 0x1F):
                    q += 2 + _st.unpack('>H', box[q:q + 2])[0]
                npps = box[q]
                q += 1
                for _ in range(npps):
                    q += 2 + _st.unpack('>H', box[q:q + 2])[0]
            except Exception:      # noqa: BLE001
                continue
            trailer = size - q
            base = data[:mv.end]
            for prof in (EXT if trailer >= 4 else PLAIN if trailer == 0 else ()):
                m = bytearray(base)
                m[i - 4 + 9] = prof
                raw = bytes(m)
                ok = 1
                why = ''
                for lz in (False, True):
                    try:
                        w = load(raw, 'rw', lz)
                        if lz:
                            for a in w.children:
                                walk_classes(a)
                                a.toJSON(pure=True)          # touches every lazily loaded box
                        ob = io.BytesIO()
                        w.encode(ob)
                        if ob.getvalue() != raw:
                            ok, why = 0, f'{"lazy" if lz else "eager"}: {len(raw)} bytes in, {len(ob.getvalue())} out'
                    except Exception as e:      # noqa: BLE001
                        ok, why = 0, f'{type(e).__name__}: {e}'[:100]
                navcc += 1
                lines.append({'ev': 'field', 'box': 'avcC', 'field': 'AVCProfileIndication', 'value_class': f'{prof} in {f.name} (trailer {trailer} bytes)' +
                              (f' {why}' if why else ''), 'eq': ok})
        out.coverage['avcc_profiles'] = navcc
        # ---- legal structural edits written into stored trees (byte level) -----------------------------
        # an empty (header-only, 8-byte) box - free, skip, an unknown 4CC, an empty udta - is a legal child of any container;
        # it is inserted as first / last child of every container of every stored moov, the sizes of the ancestors adjusted,
        # and the result (still a well-formed tree by the independent walker) must round-trip
        seen_moov: set[bytes] = set()
        nstruct = 0
        for f in files:
            data = f.read_bytes()
            try:
                pw0 = Parsed(data)
            except Exception:      # noqa: BLE001
                continue
            mv = next((b for b in pw0.top if b.name == 'moov'), None)
            if mv is None or data[mv.pos:mv.end] in seen_moov:
                continue
            seen_moov.add(data[mv.pos:mv.end])
            base = data[:mv.end]
            rel = str(f.relative_to(REPO / 'tests' / 'fixtures'))

            def rec(b, anc):
                nonlocal nstruct
                if not b.children:
                    return
                chain = anc + [b]
                for where, at in (('first', b.children[0].pos), ('last', b.end)):
                    for nm in ((b'free', b'skip', b'zzzz', b'udta') if where == 'last' else (b'free',)):
                        m = bytearray(base)
                        m[at:at] = _st.pack('>I4s', 8, nm)
                        for x in chain:
                            m[x.pos:x.pos + 4] = _st.pack('>I', _st.unpack('>I', m[x.pos:x.pos + 4])[0] + 8)
                        raw = bytes(m)
                        if not Parsed(raw).well_formed():
                            continue
                        for lz in (False, True):
                            nstruct += 1
                            err = ''
                            try:
                                w = load(raw, 'rw', lz)
                                ob = io.BytesIO()
                                w.encode(ob)
                                eq = 1 if ob.getvalue() == raw else 0
                                if not eq:
                                    err = f'{len(raw)} bytes in, {len(ob.getvalue())} bytes out'
                            except Exception as e:      # noqa: BLE001
                                eq, err = 0, f'{type(e).__name__}: {e}'[:120]
                            lines.append({'ev': 'rt', 'file': f'{rel} + empty {nm.decode()} as {where} child of ' + '/'.join(x.name for x in chain),
                                          'atom': 'moov', 'mode': 'lazy' if lz else 'eager', 'eq': eq, 'err': err, 'len': len(raw), 'idx': 0})
                for c in b.children:
                    rec(c, chain)
            rec(mv, [])
        out.coverage['legal_structural_insertions'] = nstruct
        # ---- header forms (mp4.py Mp4Atom.parse: size == 0 "to the end of the file", size == 1 + 64-bit largesize, uuid types) -----
        # the same payloads behind each legal form of a box header, as the last top-level box after a stored init segment
        a1 = (REPO / 'tests' / 'fixtures' / 'bbb' / 'bbb_a1.mp4').read_bytes()
        pa1 = Parsed(a1)
        mf0 = next(b for b in pa1.top if b.name == 'moof')
        head = a1[:mf0.pos]
        forms: list[tuple[str, bytes]] = []
        for typ, payload in ((b'free', b''), (b'free', b'\0' * 9), (b'mdat', b'x' * 100), (b'zzzz', b'\1' * 5)):
            forms.append((f'compact {typ.decode()}[{len(payload)}]', _st.pack('>I4s', 8 + len(payload), typ) + payload))
            forms.append((f'size=0 {typ.decode()}[{len(payload)}]', _st.pack('>I4s', 0, typ) + payload))
            forms.append((f'largesize {typ.decode()}[{len(payload)}]', _st.pack('>I4sQ', 1, typ, 16 + len(payload)) + payload))
        forms.append(('uuid unknown[4]', _st.pack('>I4s', 8 + 16 + 4, b'uuid') + bytes(range(16)) + b'abcd'))
        forms.append(('uuid unknown[0]', _st.pack('>I4s', 8 + 16, b'uuid') + bytes(range(16))))
        for label, tail in forms:
            raw = head + tail
            for lz in (False, True):
                err = ''
                try:
                    w = load(raw, 'rw', lz)
                    ob = io.BytesIO()
                    w.encode(ob)
                    eq = 1 if ob.getvalue() == raw else 0
                    if not eq:
                        got = ob.getvalue()
                        err = f'{len(raw)} bytes in, {len(got)} bytes out; header written as {got[len(head):len(head) + 8].hex()}'
                except Exception as e:      # noqa: BLE001
                    eq, err = 0, f'{type(e).__name__}: {e}'[:120]
                lines.append({'ev': 'rt', 'file': f'bbb/bbb_a1.mp4#init + last box with header form {label}', 'atom': label.split()[1].split('[')[0],
                              'mode': 'lazy' if lz else 'eager', 'eq': eq, 'err': err, 'len': len(raw), 'idx': 0})
        out.coverage['header_forms'] = len(forms)
        for payload in (b'0x48656c6c6f', b'0x', b'0X4142', b"b'00'", b'hx=4142', b'b64=QUJD'):
            def mk_em(payload=payload):
                return mp4.EventMessageBox(version=0, flags=0, scheme_id_uri='urn:x', value='v', timescale=100, presentation_time_delta=1,
                                           presentation_time=1, event_duration=1, event_id=1, data=payload)

            def mk_ps(payload=payload):
                return mp4.ContentProtectionSpecificBox(version=1, flags=0, system_id=bytes(range(16)), key_ids=[b'0x' + bytes(14)],
                                                        data=payload)
            lines.append({'ev': 'field', 'box': 'emsg', 'field': 'data (literal-looking payload)', 'value_class': payload.decode('ascii'),
                          'eq': rt_box(mk_em, lambda b, payload=payload: getattr(b.data, 'data', b.data) == payload)})
            lines.append({'ev': 'field', 'box': 'pssh', 'field': 'data / key id (literal-looking payload)', 'value_class': payload.decode('ascii'),
                          'eq': rt_box(mk_ps, lambda b, payload=payload: len(b.key_ids or []) == 1 and len(b.data or b'') == len(payload))})
        for i, ln in enumerate(lines):
            ln['tid'] = i + 1
        vs, st = validate_trace('BoxTreeTrace', lines, workdir=d, chunk=400, parallel=10)
        seen: set[str] = set()
        for v in vs:
            lo = v['lineobj']
            case = {k: lo.get(k) for k in ('ev', 'file', 'atom', 'mode', 'ops', 'lazy', 'err', 'box', 'field', 'value_class', 'reparse_eq', 'fields_ok')}
            key = f"{v['clause']}|{lo.get('file')}|{lo.get('atom')}|{lo.get('mode')}|{lo.get('ops')}|{lo.get('box')}|{lo.get('field')}|{lo.get('value_class')}"
            if key in seen:
                continue
            seen.add(key)
            out.add(Violation('C04', v['clause'], case))
        registered = set(mp4.fourcc.BOXES.keys()) if hasattr(mp4, 'fourcc') else set()
        uncovered = sorted(str(x) for x in registered if x not in seen_classes)
        out.coverage.update({
            'states': ra.distinct, 'transitions': ra.generated, 'traces_validated_against_impl': len(lines),
            'evaluations': len(lines), 'distinct_nontrivial': len({(x.get('file'), x.get('atom'), x.get('mode'), str(x.get('ops')), x.get('box'), x.get('value_class')) for x in lines}),
            'rule': 'one evaluation per (file, top-level atom, loading mode) round trip, lazy/eager comparison, JSON round trip, edit sequence '
                    'or boundary value; distinct = distinct tuples',
            'exhaustive': False, 'files': len(files), 'edit_sequences': nseq, 'box_classes_seen': len(seen_classes),
            'box_classes_registered': len(registered), 'box_classes_not_in_fixtures': uncovered,
            'samples': [lines[0], next((x for x in lines if x['ev'] == 'edit' and x['tops']), lines[-1])],
            'bounds': f'tier {tier_}: {len(files)} fixture files x eager/lazy/read-only; {nseq} seeded edit sequences of 1..4 operations; boundary values for mfhd, tfdt, emsg, pssh',
        })
    return out.finish('model_checking')
