"""X03 - how the service cuts a stored file into segments (beyond the 20 listed properties: the indexer, Representation.load,
that every manifest, media request and byte range is computed from).
(A) TLC IndexerMC: every file of a small packager grammar (optional free / styp / sidx / emsg boxes around ftyp, moov and up to
    three moof + mdat fragments) is scanned by the model of the code's rule: the init segment holds ftyp and moov, every later
    segment exactly one fragment, every fragment is indexed, and - for the shape of the bundled fixtures (styp always followed by
    sidx, no top-level emsg) - the segments tile the file.  Witness: with styp-without-sidx or emsg-before-moof files the tiling
    invariant is violated under the code's rule and holds under the rule "every other box stretches the last segment".
(C) each emitted box sequence is assembled from real boxes of tests/fixtures/bbb/bbb_a1.mp4 (plus a synthetic emsg), indexed by the
    real Representation.load, and the segments (as box index ranges) are replayed through spec/Indexer.tla by TLC (IndexerTrace):
    the real scan equals the model's scan, and the property clauses are evaluated on the real segments."""
from __future__ import annotations

import random
import struct
from typing import Any

from harness.core import REPO, MachineryFailure, Outcome, Violation, run_tlc, scratch, seed, tlc_must_pass, validate_trace
from harness.walker import Parsed


def emsg_box() -> bytes:
    body = b'urn:dashlive:x03\x00' + b'1\x00' + struct.pack('>IIII', 1000, 0, 500, 7) + b'payload'
    return struct.pack('>I4sI', 12 + len(body), b'emsg', 0) + body


def main(tier_: str) -> int:
    out = Outcome('X03', tier_)
    out.assumptions = [
        'not one of the 20 listed properties: system behaviour of the media indexer (not registered in MANIFEST.json)',
        'files are assembled from the real boxes of bbb_a1.mp4 (ftyp, free, moov, and styp / sidx / moof / mdat of its first three fragments) and a synthetic emsg box; '
        'only the order and presence of top-level boxes varies',
        'the indexer is driven at its own entry point (Mp4Atom.load + Representation.load), as MediaFile.parse_media_file does',
    ]
    rng = random.Random(seed() * 239 + 3)
    with scratch() as d:
        ra = run_tlc('IndexerMC', 'IndexerMC.cfg', workdir=d, workers=4, timeout=600)
        tlc_must_pass(ra, 'IndexerMC plain grammar (A)')
        rb = run_tlc('IndexerMC', 'IndexerMC_loose.cfg', workdir=d, workers=4, timeout=600)
        tlc_must_pass(rb, 'IndexerMC loose grammar (A)')
        rw = run_tlc('IndexerMC', 'IndexerMC_loose_tiles.cfg', workdir=d, workers=2, timeout=600)
        if rw.invariant_violated() != 'Tiles':
            raise MachineryFailure('IndexerMC: the loose grammar does not reach a file with a gap between segments (witness)')
        rr = run_tlc('IndexerMC', 'IndexerMC_repaired.cfg', workdir=d, workers=4, timeout=600)
        tlc_must_pass(rr, 'IndexerMC repaired rule (A)')
        re_ = run_tlc('IndexerMC', 'IndexerMC_emit.cfg', workdir=d, workers=1, timeout=900)
        tlc_must_pass(re_, 'IndexerMC emission')
        files = re_.tagged('F')
        if len(files) < 500:
            raise MachineryFailure(f'only {len(files)} files emitted')
        # ---- real boxes ------------------------------------------------------------------------------
        src = (REPO / 'tests' / 'fixtures' / 'bbb' / 'bbb_a1.mp4').read_bytes()
        top = Parsed(src).top
        raw = lambda b: src[b.pos:b.pos + b.size]      # noqa: E731
        one = {k: raw(next(b for b in top if b.name == k)) for k in ('ftyp', 'moov')}
        free = struct.pack('>I4s', 24, b'free') + bytes(16)
        frags: list[dict[str, bytes]] = []
        cur: dict[str, bytes] = {}
        for b in top:
            if b.name in ('styp', 'sidx', 'moof', 'mdat') and b.pos > next(x for x in top if x.name == 'moov').pos:
                cur[b.name] = raw(b)
                if b.name == 'mdat':
                    frags.append(cur)
                    cur = {}
        if len(frags) < 3 or any(set(f) != {'styp', 'sidx', 'moof', 'mdat'} for f in frags[:3]):
            raise MachineryFailure('fixture layout is not styp sidx moof mdat per fragment')
        import logging
        logging.disable(logging.CRITICAL)
        from dashlive.mpeg import mp4
        from dashlive.mpeg.dash.representation import Representation
        from dashlive.utils.buffered_reader import BufferedReader
        if tier_ == 'quick':
            short = [f for f in files if len(f['boxes']) <= 6]
            rest = [f for f in files if len(f['boxes']) > 6]
            files = short + rng.sample(rest, min(500, len(rest)))
        lines: list[dict[str, Any]] = []
        errors = 0
        for n, f in enumerate(files):
            kinds = f['boxes']
            data = bytearray()
            bounds: list[tuple[int, int]] = []
            k = -1
            prev = None
            head = {'styp', 'sidx', 'emsg'}
            for kind in kinds:
                # the boxes of one fragment (optional head, moof, mdat) come from one stored fragment
                if kind in head | {'moof'} and prev not in head:
                    k += 1
                b = one[kind] if kind in one else free if kind == 'free' else emsg_box() if kind == 'emsg' else frags[max(k, 0) % 3][kind]
                bounds.append((len(data), len(data) + len(b)))
                data += b
                prev = kind
            plain = 1
            for i, kind in enumerate(kinds):
                if kind == 'emsg' or (kind == 'styp' and kinds[i + 1] != 'sidx'):
                    plain = 0
            try:
                atoms = mp4.Mp4Atom.load(BufferedReader(None, data=bytes(data)), options=mp4.Options(lazy_load=True))
                rep = Representation.load('x03_a1.mp4', atoms)
                real = [(s.pos, s.pos + s.size) for s in rep.segments]
            except Exception as err:      # noqa: BLE001
                errors += 1
                lines.append({'tid': n + 1, 'boxes': kinds, 'segs': [], 'onbox': 0, 'plain': plain, 'error': f'{type(err).__name__}: {err}'[:200]})
                continue
            starts = {a: i + 1 for i, (a, b_) in enumerate(bounds)}
            ends = {b_: i + 1 for i, (a, b_) in enumerate(bounds)}
            onbox = 1 if all(a in starts and b_ in ends for a, b_ in real) else 0
            segs = [{'lo': starts.get(a, 0), 'hi': ends.get(b_, 0)} for a, b_ in real]
            covered = {i for s in segs for i in range(s['lo'], s['hi'] + 1)}
            first = kinds.index('ftyp') + 1
            lines.append({'tid': n + 1, 'boxes': kinds, 'segs': segs, 'onbox': onbox, 'plain': plain,
                          'gap_kinds': [kinds[i - 1] for i in range(first, len(kinds) + 1) if i not in covered],
                          'durations': [getattr(s, 'duration', 0) or 0 for s in rep.segments]})
        vs, st = validate_trace('IndexerTrace', lines, workdir=d, chunk=400, parallel=8)
        seen: set[str] = set()
        for v in vs:
            lo = v['lineobj']
            case = {'boxes': lo['boxes'], 'segs': lo['segs'], 'plain': lo['plain'], 'gap_kinds': lo.get('gap_kinds', []), 'error': lo.get('error'),
                    'detail': v['detail']}
            key = f"{v['clause']}|{lo['plain']}|{sorted(set(lo.get('gap_kinds', [])))}|{lo.get('error')}"
            if key in seen:
                continue
            seen.add(key)
            out.add(Violation('X03', v['clause'], case))
        out.coverage.update({
            'states': ra.distinct + rb.distinct + rr.distinct, 'transitions': ra.generated + rb.generated + rr.generated,
            'traces_validated_against_impl': len(lines), 'evaluations': len(lines),
            'distinct_nontrivial': len({tuple(x['boxes']) for x in lines}),
            'rule': 'one evaluation per assembled file; distinct = distinct box sequences',
            'exhaustive': tier_ == 'thorough', 'files_plain': sum(1 for x in lines if x['plain']), 'files_loose': sum(1 for x in lines if not x['plain']),
            'indexer_errors': errors, 'samples': [lines[0], lines[len(lines) // 2]],
            'bounds': f'tier {tier_}: {len(lines)} of the 2 176 files of the loose grammar with up to 2 fragments (quick: all short ones and a seeded sample); '
                      'plain grammar model-checked with up to 3 fragments',
        })
    return out.finish('model_checking')
