"""Shared pipeline of C01 / C02 (LiveWindow.tla):
(A) TLC on LiveWindowMC, (B) every model state replayed on the real pure timing layer and
validated by LiveWindowTrace, (C) real manifests + every advertised segment fetched over
HTTP at model-chosen instants, validated by LiveWindowHttpTrace."""
from __future__ import annotations

import datetime
import json
import random
from typing import Any

from harness.core import (MachineryFailure, Outcome, Violation, run_tlc, scratch, seed, tlc_must_pass,
                          validate_trace)

UTC = datetime.timezone.utc
LIVE_TEMPLATES = ['hand_made.mpd', 'manifest_a.mpd', 'manifest_e.mpd', 'manifest_h.mpd', 'manifest_i.mpd',
                  'manifest_n.mpd', 'manifest_ef.mpd']
TIMELINE_TEMPLATES = {'hand_made.mpd', 'manifest_a.mpd', 'manifest_n.mpd'}


def dt(s: str) -> datetime.datetime:
    return datetime.datetime.fromisoformat(s.replace('Z', '+00:00'))


def http_vectors(rng: random.Random, tier_: str) -> list[dict[str, Any]]:
    """(template, query, now) triples.  Instants are chosen on the behaviour breakpoints of the
    bbb stream (4 s video segments, irregular ~4 s audio, 10 s text, 40 s reference) +- 1 us."""
    us = datetime.timedelta(microseconds=1)
    sec = lambda x: datetime.timedelta(seconds=x)   # noqa: E731
    out: list[dict[str, Any]] = []
    day = dt('2024-02-29T00:00:00Z')

    def add(tmpl: str, q: str, now: datetime.datetime, stream: str = 'bbb') -> None:
        out.append({'tmpl': tmpl, 'q': q, 'now': now, 'stream': stream})

    # explicit start a little before now: every sub-segment phase class around one loop seam
    ast = dt('2024-02-29T11:00:00Z')
    phases = [0.0, 3.99, 4.0, 7.9, 8.0, 10.0, 12.0, 20.0, 30.0, 35.9, 36.0, 39.98, 39.984399, 40.0]
    for loops in ([2] if tier_ == 'quick' else [2, 3, 91]):
        for ph in phases:
            for eps in (-1, 0, 1):
                now = ast + sec(40 * loops + ph) + eps * us
                tmpl = rng.choice(LIVE_TEMPLATES) if tier_ == 'thorough' or rng.random() < 0.5 else 'hand_made.mpd'
                tl = rng.choice([0, 1])
                depth = rng.choice([20, 30, 45])
                lee = rng.choice(['', '&leeway=0', '&leeway=60', '&leeway=16'])
                q = f'start={ast.strftime("%Y-%m-%dT%H:%M:%SZ")}&depth={depth}{lee}'
                if tl and tmpl in TIMELINE_TEMPLATES:
                    q += '&timeline=1'
                add(tmpl, q, now)
    # an explicit start with a fractional second: the manifest forwards its resolved start to every media URL, and the segment
    # endpoint rebuilds the window from that text - every tenth of a second of one segment duration, no leeway
    fast = ast + sec(0.9)
    steps = list(range(40))
    for k in (steps if tier_ == 'thorough' else sorted(rng.sample(steps, 14))):
        tl = k % 2
        add('hand_made.mpd', 'start=2024-02-29T11:00:00.900Z&depth=30&leeway=0' + ('&timeline=1' if tl else ''), fast + sec(3600 + k * 0.1 + 0.05))
    # very first seconds after availabilityStartTime (window clamped to elapsed)
    for el in (1.0, 3.999999, 4.0, 4.000001, 8.5, 15.0, 59.999999, 61.0):
        for tl in (0, 1):
            add('hand_made.mpd', f'start={ast.strftime("%Y-%m-%dT%H:%M:%SZ")}&depth=30&leeway=0' + ('&timeline=1' if tl else ''),
                ast + sec(el))
    # symbolic starts: years / months / a day / one minute of elapsed time
    base_now = dt('2024-03-05T17:45:12.345678Z')
    for start in ('epoch', 'year', 'month', 'today', 'now'):
        for tl in (0, 1):
            for tmpl in (['hand_made.mpd', 'manifest_a.mpd'] if tier_ == 'quick' else LIVE_TEMPLATES):
                if tl and tmpl not in TIMELINE_TEMPLATES:
                    continue
                q = f'start={start}&depth={rng.choice([20, 30])}' + ('&timeline=1' if tl else '')
                add(tmpl, q, base_now + sec(rng.choice([0, 0.654322, 1.5, 2.654321])))
    # every template at defaults-but-depth, both addressing modes, with option variety
    extras = ['', '&abr=0', '&base=0', '&mup=-1', '&mup=4', '&acodec=mp4a', '&drm=all', '&drm=playready',
              '&drm=clearkey&leeway=0', '&events=ping', '&patch=1&timeline=1', '&bugs=saio&drm=all', '&time=xsd',
              '&drm=marlin-cenc']
    for tmpl in LIVE_TEMPLATES:
        picks = extras if tier_ == 'thorough' else rng.sample(extras, 4)
        for x in picks:
            q = f'depth=30{x}'
            if tmpl in TIMELINE_TEMPLATES and 'timeline' not in q and rng.random() < 0.5:
                q += '&timeline=1'
            add(tmpl, q, day + sec(rng.choice([3600.0, 7207.9, 40000.0, 86399.999999, 43210.000001])))
    # field-width boundaries: instants at which the decode time of a track (elapsed x timescale) crosses 2^31, 2^32
    # and 2^33 ticks - where a 32-bit tfdt has to become a 64-bit one.  bbb: video 240, audio 44100, text 1000 Hz.
    wast = dt('2023-01-01T00:00:00Z')
    for ts in (240, 44100, 1000):
        for bits in (31, 32, 33):
            edge = (1 << bits) / ts
            deltas = [-12.0, 3.0, 47.5]
            for dl in (deltas if tier_ == 'thorough' else [rng.choice(deltas[:2]), deltas[2]]):
                tl = rng.choice([0, 1])
                add('hand_made.mpd', f'start={wast.strftime("%Y-%m-%dT%H:%M:%SZ")}&depth=30' + ('&timeline=1' if tl else ''),
                    wast + sec(int(edge) + dl))
    # explicit starts written with a UTC offset (the same instant as 11:00:00Z): the manifest forwards the resolved start to
    # every media URL, so parsing and formatting of offsets must be inverse to each other
    for off in ('%2B05:30', '-03:30', '%2B01:00', '-09:30', '-08:00'):
        sign = 1 if off.startswith('%2B') else -1
        hh, mm = off[-5:].split(':')
        local = ast + sign * (sec(int(hh) * 3600 + int(mm) * 60))
        for tl in ((0, 1) if tier_ == 'thorough' else (rng.choice([0, 1]),)):
            add('hand_made.mpd', f'start={local.strftime("%Y-%m-%dT%H:%M:%S")}{off}&depth=30' + ('&timeline=1' if tl else ''),
                ast + sec(rng.choice([130.5, 3600.25, 86399.0])))
    # a stream whose text track is stored without tfdt boxes and with fragments of unequal duration (webvtt.mp4)
    for tl in (0, 1):
        for el in ((95.5, 137.25) if tier_ == 'quick' else (12.0, 41.0, 95.5, 137.25, 3601.0)):
            add('hand_made.mpd', f'start={ast.strftime("%Y-%m-%dT%H:%M:%SZ")}&depth=30' + ('&timeline=1' if tl else ''), ast + sec(el), 'vtt')
    # a stream whose timing reference is its audio track: the reference duration (1763328 / 44100 s) is not a whole number of
    # ticks of the video timescale, so loop origins computed per loop and as a multiple of the loop count part after 3 loops
    for tl in (0, 1):
        for el in ((137.25, 3601.0) if tier_ == 'quick' else (12.0, 95.5, 120.0, 137.25, 3601.0, 86399.0, 400000.5)):
            add('hand_made.mpd', f'start={ast.strftime("%Y-%m-%dT%H:%M:%SZ")}&depth=30' + ('&timeline=1' if tl else ''), ast + sec(el), 'aref')
    # a stream whose stored fragments are numbered 1, 3, 5, ... in their own mfhd boxes: first pass through the media and later
    for tl in (0, 1):
        for el in ((14.5, 137.25) if tier_ == 'quick' else (9.0, 14.5, 30.0, 38.5, 95.5, 137.25)):
            add('hand_made.mpd', f'start={ast.strftime("%Y-%m-%dT%H:%M:%SZ")}&depth=30' + ('&timeline=1' if tl else ''), ast + sec(el), 'renum')
    # a stream whose audio fragments carry per-sample durations that differ from the default of their tfhd (the trun value wins)
    for tl in (0, 1):
        for el in ((41.0, 137.25) if tier_ == 'quick' else (12.0, 41.0, 95.5, 137.25, 3601.0)):
            add('hand_made.mpd', f'start={ast.strftime("%Y-%m-%dT%H:%M:%SZ")}&depth=30' + ('&timeline=1' if tl else ''), ast + sec(el), 'irr')
    # a stream with option defaults of its own (time-shift buffer of 30 s): the depth a manifest resolved - given explicitly, also
    # when it equals the global default of 1800 s, or taken from the stream - is the depth its media URLs are served with
    for q in ('depth=1800', '', 'depth=600', 'depth=1800&timeline=1'):
        add('hand_made.mpd', (q + '&' if q else '') + f'start={ast.strftime("%Y-%m-%dT%H:%M:%SZ")}', ast + sec(3600.5), 'sdef')
    # event schedules that begin inside the window, off the segment grid: the segment that straddles the first event (and the
    # ones before and after it) are advertised like any other, so they are served
    asts = ast.strftime("%Y-%m-%dT%H:%M:%SZ")
    for ev, st, el in (('ping', 1234, 31.0), ('scte35', 2050, 33.5), ('ping', 360123, 3615.25), ('ping', 801, 24.0),
                       ('scte35', 1599, 29.999999)):
        tl = rng.choice([0, 1])
        add('hand_made.mpd', f'start={asts}&depth=30&events={ev}&{ev}__start={st}' + ('&timeline=1' if tl else ''), ast + sec(el))
        if tier_ == 'thorough':
            add('hand_made.mpd', f'start={asts}&depth=30&events={ev}&{ev}__start={st}&{ev}__interval=150' + ('' if tl else '&timeline=1'), ast + sec(el))
    # the default window (30 minutes): partial walk (oldest, newest and a sample in between)
    add('hand_made.mpd', '', day + sec(50000.5))
    add('hand_made.mpd', 'timeline=1', day + sec(50003.999999))
    if tier_ == 'thorough':
        for i in range(150):
            tmpl = rng.choice(LIVE_TEMPLATES)
            q = f'depth={rng.choice([8, 20, 30, 60, 100])}'
            q += rng.choice(['', '&leeway=0', '&leeway=3', '&leeway=120'])
            q += rng.choice(['', '&start=epoch', '&start=today', '&start=now', '&start=month',
                             '&start=2024-02-28T23:59:30Z', '&start=2024-02-29T01:00:00%2B01:00'])
            if tmpl in TIMELINE_TEMPLATES and rng.random() < 0.5:
                q += '&timeline=1'
            q += rng.choice(extras)
            add(tmpl, q, day + sec(rng.randrange(7200, 86400) + rng.choice([0, 0.000001, 0.999999, 0.5])))
    return out


def pure_layer(tier_: str, d, out: Outcome, want_prefixes: tuple[str, ...]) -> tuple[Any, Any, list[dict[str, Any]], list[dict[str, Any]]]:
    from harness.purelayer import PureLayer
    cfg = f'LiveWindowMC_{tier_}'
    ra = run_tlc('LiveWindowMC', cfg + '.cfg', workdir=d, workers=16, timeout=1800)
    tlc_must_pass(ra, 'LiveWindowMC (A)')
    re_ = run_tlc('LiveWindowMC', cfg + '_emit.cfg', workdir=d, workers=16, timeout=1800, heap='8g')
    tlc_must_pass(re_, 'LiveWindowMC emission')
    states = re_.tagged('S')
    L = re_.tagged('L')[0]
    if len(states) != ra.distinct:
        raise MachineryFailure(f'emitted {len(states)} states, model has {ra.distinct}')
    import logging
    logging.disable(logging.CRITICAL)
    pl = PureLayer(L['layouts'], L['q'])
    lines = [pl.observe_live(i + 1, s) for i, s in enumerate(states)]
    # drift: model outputs vs real outputs, field by field (also reported by the trace spec)
    return ra, L, states, lines


def run(prop: str, tier_: str) -> int:
    out = Outcome(prop, tier_)
    prefixes = {'C01': ('C01_',), 'C02': ('C02_',)}[prop]
    out.assumptions = [
        'four absent third-party modules are replaced by /verif/shims (flask_login, sqlalchemy_jsonfield, dotenv, netifaces)',
        'the clock is datetime.datetime.now patched as in upstream tests/mixins/mock_time.py; requests are single-threaded (Werkzeug test client)',
        'media responses are projected by /verif/harness/walker.py (independent ISO-BMFF reader); payload identity by SHA-1 of the mdat payload',
        'numbers above 31 bits are rebased by the projection (difference against a logged base) before TLC sees them',
        'C02 tolerance for $Number$: half of max(nominal, longest stored) segment duration + |reference duration - track duration| + 1 tick',
        'small scope: 6 layouts over a 20 s reference, clocks on a 1/40 s grid (every breakpoint and every open interval between breakpoints)',
    ]
    from harness.app import DashApp
    from harness.httplive import HttpDriver
    with scratch() as d:
        ra, L, states, lines = pure_layer(tier_, d, out, prefixes)
        vs, st = validate_trace('LiveWindowTrace', lines, workdir=d, chunk=2000, parallel=14,
                                cfg=f'LiveWindowTrace_{tier_}.cfg')
        drift = 0
        nadv = 0
        for v in vs:
            lo = v['lineobj']
            if v['clause'].startswith('DRIFT_'):
                drift += 1
                continue
            if v['clause'].startswith('TRACE_'):
                raise MachineryFailure(f'pure-layer replay did not cover an advertised key: {v}')
            if not v['clause'].startswith(prefixes):
                continue
            L0 = L['layouts'][lo['lay']]
            case = {'layer': 'pure', 'lay': lo['lay'], 'e': lo['e'], 'o': lo['o'], 'detail': v['detail'],
                    'tsbd': lo['tsbd'], 'first': lo['first'], 'last': lo['last'],
                    'drift': L0['ref']['mediaDur'] * L0['rep']['ts'] // L0['ref']['ts'] - sum(L0['rep']['durs']),
                    'nsegs': len(L0['rep']['durs'])}
            if v['clause'] == 'C02_TimeExact':
                i = next((k for k, x in enumerate(lo['timeline']) if x['t'] == v['detail']['t']), None)
                if i is not None:
                    sv = lo['tserve'][i]
                    case['served'] = sv
                    case['served_dur'] = L0['rep']['durs'][sv['mod'] - 1] if sv['status'] == 200 else None
            out.add(Violation(prop, v['clause'], case))
        out.coverage['model_drift'] = drift
        # ---- (C) HTTP level --------------------------------------------------------------
        rng = random.Random(seed() * 104729 + 1)
        vecs = http_vectors(rng, tier_)
        hlines: list[dict[str, Any]] = []
        with DashApp(d / 'app', fixtures=('bbb',)) as da:
            from harness.core import REPO as _REPO
            da.add_fixture('bbb', directory='vtt', title='stored without tfdt', only={'bbb_v7', 'bbb_a1'},
                           extra=[(_REPO / 'tests' / 'fixtures' / 'webvtt.mp4', 'vtt_t2')])
            da.add_fixture('bbb', directory='sdef', title='stream with its own option defaults', only={'bbb_v7', 'bbb_a1'},
                           defaults={'timeShiftBufferDepth': 30})
            da.add_fixture('bbb', directory='aref', title='audio is the timing reference', only={'bbb_v7', 'bbb_a1'}, ref_stem='bbb_a1')
            from harness.synth import renumber_mfhd
            rn = []
            for stem in ('bbb_a1', 'bbb_v6'):
                rf = d / f'renum_{stem[4:]}.mp4'
                rf.write_bytes(renumber_mfhd((_REPO / 'tests' / 'fixtures' / 'bbb' / f'{stem}.mp4').read_bytes()))
                rn.append((rf, f'renum_{stem[4:]}'))
            da.add_fixture('bbb', directory='renum', title='fragments numbered 1, 3, 5, ...', only={'bbb_v7'}, extra=rn)
            from harness.synth import irregular_durations
            irf = d / 'irr_a1.mp4'
            irf.write_bytes(irregular_durations((_REPO / 'tests' / 'fixtures' / 'bbb' / 'bbb_a1.mp4').read_bytes()))
            da.add_fixture('bbb', directory='irr', title='per-sample durations beside a tfhd default', only={'bbb_v7'}, extra=[(irf, 'irr_a1')])
            drv = HttpDriver(da)
            for i, v in enumerate(vecs):
                hlines.extend(drv.live_manifest(i + 1, v.get('stream', 'bbb'), v['tmpl'], v['q'], v['now']))
            nreq = drv.requests
        rep_lines = [x for x in hlines if x['ev'] == 'rep']
        refused = [x for x in hlines if x['ev'] != 'rep']
        if len(rep_lines) < 50:
            raise MachineryFailure(f'only {len(rep_lines)} representation walks; refused: {refused[:3]}')
        hv, hst = validate_trace('LiveWindowHttpTrace', hlines, workdir=d, chunk=400, parallel=14)
        for v in hv:
            lo = v['lineobj']
            if v['clause'].startswith('TRACE_'):
                raise MachineryFailure(f'HTTP walk did not cover an advertised key: {v["detail"]} {lo.get("url")}')
            if not v['clause'].startswith(prefixes):
                continue
            case = {'layer': 'http', 'url': lo['url'], 'now': lo['now'], 'rep': lo['rep'], 'by': lo['by'],
                    'detail': v['detail'], 'tsbd': lo['tsbd'], 'base': lo.get('base'), 'sample_url': lo.get('sample_url'),
                    'drift': lo['R'] - sum(lo['durs']), 'nsegs': len(lo['durs'])}
            out.add(Violation(prop, v['clause'], case))
        advertised_fetched = sum(1 for x in rep_lines for s in x['serve'] if s['status'] == 200)
        distinct = {(x['rep'], x['by'], s.get('mod'), s.get('tmodr')) for x in rep_lines for s in x['serve'] if s['status'] == 200}
        out.coverage.update({
            'states': ra.distinct, 'transitions': ra.generated,
            'traces_validated_against_impl': len(lines) + len(rep_lines),
            'evaluations': len(lines) + sum(len(x['serve']) for x in rep_lines),
            'distinct_nontrivial': len(distinct) + len({(x['lay'], x['e'] % (20 * L['q']), json.dumps(x['o'], sort_keys=True)) for x in lines}),
            'rule': 'pure layer: one evaluation per model state (layout, options, elapsed) replayed on the real code, all advertised keys '
                    'served; HTTP: one evaluation per media request; distinct = distinct (representation, addressing, stored segment '
                    'delivered, position in loop) among 200 responses + distinct (layout, phase in loop, options) model states',
            'exhaustive': True,
            'pure_states_replayed': len(lines), 'http_manifests': len(vecs), 'http_rep_walks': len(rep_lines),
            'http_requests': nreq, 'http_segments_200': advertised_fetched, 'manifest_refused': len(refused),
            'templates': sorted({v['tmpl'] for v in vecs}),
            'bounds': f'small scope Q={L["q"]}, layouts={sorted(L["layouts"])}, tier={tier_}; HTTP: bbb fixture, '
                      f'{len(vecs)} (template, options, clock) vectors',
            'samples': [lines[len(lines) // 3], {k: rep_lines[0][k] for k in ('url', 'now', 'rep', 'by', 'ef', 'ec', 'keys', 'sample_url')},
                        {k: rep_lines[-1][k] for k in ('url', 'now', 'rep', 'by', 'ef', 'ec', 'keys', 'sample_url')}],
        })
    return out.finish('model_checking')
