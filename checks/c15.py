"""C15 - only authorised roles can change persistent state; CSRF tokens.

(A) TLC AuthMC: the CSRF life-cycle (issue / present / tamper / cross-cookie / cross-service /
    restart) explored exhaustively in small scope; every edge is emitted.
(B) walks through that state graph are replayed on the real application (two cookie jars,
    real endpoints, a real restart = create_app over the same SQLite file); acceptance is observed
    through the csrf_check hook event (or the HTTP status when the hook is missing).
(C) sweep: every route of the routing table x method x role x parameter sets (with CSRF tokens
    the role can harvest); SHA-256 of all tables (minus Token) and of the blob listing before and
    after.  TLC validates both logs against AuthTrace.
"""
from __future__ import annotations

import io
import json
import random
import re
from typing import Any

from harness.core import MachineryFailure, Outcome, Violation, run_tlc, scratch, seed, tlc_must_pass, validate_trace

METHODS = ('GET', 'HEAD', 'POST', 'PUT', 'DELETE')


# ---------------------------------------------------------------------------------------
# (B) CSRF walks
# ---------------------------------------------------------------------------------------
def state_key(s: dict[str, Any]) -> str:
    return json.dumps([s['tokens'], sorted(map(tuple, s['used'])), s['restarts']], sort_keys=True)


class CsrfReplayer:
    def __init__(self, da, rng: random.Random) -> None:
        from harness.mgmt import Session, ids
        self.da = da
        self.rng = rng
        self.Session = Session
        self.ids = ids(da)
        self.spk = self.ids['streams']['bbb']
        self.kid = next(iter(self.ids['keys']))
        self.hook = True

    def new_walk(self, variant: int = 0) -> None:
        """two clients with different csrf cookies.  variant 0: both cookies are the ones the server issued; otherwise the
        second client chooses its own cookie value (a client may send any cookie it likes) as a near-copy of the first
        client's: last / first / middle character changed, one character appended, one character dropped."""
        self.sessions = {'c1': self.Session(self.da, 'media'), 'c2': self.Session(self.da, 'media')}
        for s in self.sessions.values():
            s.harvest(self.spk)       # obtain the csrf cookie
        if variant:
            c1 = self.sessions['c1'].csrf_cookie()

            def other(ch: str) -> str:
                return 'A' if ch != 'A' else 'B'
            mid = len(c1) * 3 // 4
            crafted = {1: c1[:-1] + other(c1[-1]), 2: other(c1[0]) + c1[1:], 3: c1[:mid] + other(c1[mid]) + c1[mid + 1:],
                       4: c1 + 'A', 5: c1[:-1]}[variant]
            x = self.sessions['c2']
            x.client.set_cookie('csrf', crafted, domain='localhost', path='/')
            x.harvest(self.spk)
            if x.csrf_cookie() != crafted:
                raise MachineryFailure('the service did not keep the csrf cookie value the client chose')
        if self.sessions['c1'].csrf_cookie() == self.sessions['c2'].csrf_cookie():
            raise MachineryFailure('two cookie jars share one csrf cookie')
        self.tokens: dict[int, str] = {}

    def issue(self, tok: int, cookie: str, service: str) -> None:
        t = self.sessions[cookie].harvest(self.spk)
        self.tokens[tok] = t[service]

    def respell(self, token: str, spelling: int) -> str:
        """the same token in another, equivalent percent-encoding (what the service decodes is identical)"""
        import re as _re
        from urllib.parse import unquote
        if spelling == 1:
            return unquote(token)
        if spelling == 2:
            return _re.sub(r'%[0-9A-Fa-f]{2}', lambda m: m.group(0).lower() if m.group(0) != m.group(0).lower() else m.group(0).upper(), token)
        if spelling == 3:
            return f'%{ord(token[0]):02X}' + token[1:]
        return token

    def present(self, tok: int, cookie: str, service: str, tampered: int, spelling: int = 0) -> int:
        from dashlive.utils import verif_trace
        from urllib.parse import quote
        s = self.sessions[cookie]
        token = self.respell(self.tokens[tok], spelling)
        if tampered:
            # flip one character of the signature part (after the 8 character salt)
            i = 10
            ch = 'A' if token[i] != 'A' else 'B'
            token = token[:i] + ch + token[i + 1:]
        verif_trace.drain()
        if service == 'streams':
            r = s.request('POST', '/api/multi-period-streams.validate',
                          json={'csrf_token': token, 'name': 'zz', 'title': 'zz', 'periods': []})
            accepted_by_status = r.status_code == 200
        elif service == 'keys':
            # in a query string the framework decodes once before the handler sees the value: spelling 0 keeps the historic
            # form of this probe (token pasted as issued), the others are escaped so that they arrive as spelled
            r = s.request('PUT', f'/key?kid={self.kid}&csrf_token={token if spelling == 0 else quote(token, safe="")}')
            js = r.get_json(silent=True) or {}
            accepted_by_status = 'Duplicate KID' in str(js.get('error'))
        else:
            raise MachineryFailure(f'no endpoint for service {service}')
        evs = [e for e in verif_trace.drain() if e['ev'] == 'csrf_check']
        if evs:
            if len(evs) != 1 or evs[0]['service'] != service:
                raise MachineryFailure(f'unexpected csrf_check events {evs}')
            return 1 if evs[0]['accepted'] else 0
        self.hook = False
        return 1 if accepted_by_status else 0

    def restart(self) -> None:
        self.da.restart()

    def bystander(self) -> None:
        """requests of other endpoints that have to leave the CSRF state alone: a client refreshes its CSRF tokens and its access
        token, somebody loads the public pages.  Not an edge of the model."""
        x = self.sessions['c2']
        for u in ('/api/refresh/csrf', '/api/refresh/access', '/streams?ajax=1', '/'):
            x.request('GET', u)

    def age(self, minutes: int) -> None:
        """time passes (longer than the 20 minute life of a used-token record and of the csrf cookie's max-age) and
        the users log in again; the clients keep their csrf cookie, as an attacker replaying a token would.
        Not an edge of the model: nothing in the abstract state depends on time."""
        saved = {k: x.csrf_cookie() for k, x in self.sessions.items()}
        self.da.clock.advance(minutes=minutes)
        for k, x in self.sessions.items():
            info = self.da.login(x.client, x.role)
            if info.get('success'):
                x.jwt = info['accessToken']['jwt']
            if x.csrf_cookie() != saved[k] and saved[k]:
                x.client.set_cookie('csrf', saved[k], domain='localhost', path='/')
            if x.csrf_cookie() != saved[k]:
                raise MachineryFailure('could not keep the csrf cookie across the ageing step')


def csrf_walks(edges: list[dict[str, Any]], da, rng: random.Random, nwalks: int, depth: int,
               out: Outcome) -> list[dict[str, Any]]:
    succ: dict[str, list[dict[str, Any]]] = {}
    for e in edges:
        succ.setdefault(state_key(e['from']), []).append(e)
    init = state_key({'tokens': [], 'used': [], 'restarts': 0})
    if init not in succ:
        raise MachineryFailure('initial state has no outgoing edge')
    rp = CsrfReplayer(da, rng)
    visited: set[int] = set()
    lines: list[dict[str, Any]] = []
    kinds = {'reuse': 0, 'cross_cookie': 0, 'cross_service': 0, 'tamper': 0, 'after_restart': 0, 'accepted': 0}
    # scripted prefixes guarantee that every kind of presentation is exercised; the rest of each
    # walk is a seeded random choice among the outgoing edges of the model state
    scripts = [
        [('issue', 1, 'c1', 'streams', 0), ('present', 1, 'c1', 'streams', 0), ('present', 1, 'c1', 'streams', 0),
         ('restart', 0, '', '', 0), ('present', 1, 'c1', 'streams', 0), ('present', 1, 'c1', 'streams', 0)],
        [('issue', 1, 'c2', 'keys', 0), ('present', 1, 'c2', 'keys', 0), ('restart', 0, '', '', 0),
         ('present', 1, 'c2', 'keys', 0)],
        [('issue', 1, 'c1', 'keys', 0), ('present', 1, 'c1', 'keys', 1), ('present', 1, 'c1', 'keys', 0),
         ('issue', 2, 'c1', 'streams', 0), ('present', 2, 'c2', 'streams', 0), ('present', 2, 'c1', 'streams', 0)],
        [('issue', 1, 'c1', 'streams', 0), ('present', 1, 'c1', 'keys', 0), ('present', 1, 'c1', 'streams', 0),
         ('restart', 0, '', '', 0), ('present', 1, 'c1', 'streams', 0)],
        # a used token is replayed after its used-token record has expired and the users have logged in again
        [('issue', 1, 'c1', 'streams', 0), ('present', 1, 'c1', 'streams', 0), ('age', 21, '', '', 0), ('present', 1, 'c1', 'streams', 0),
         ('issue', 2, 'c2', 'keys', 0), ('present', 2, 'c2', 'keys', 0), ('age', 45, '', '', 0), ('present', 2, 'c2', 'keys', 0),
         ('present', 1, 'c1', 'streams', 0)],
    ]
    # other endpoints are used between the first use of a token and its replay
    scripts.append([('issue', 1, 'c1', 'keys', 0), ('present', 1, 'c1', 'keys', 0), ('bystander', 0, '', '', 0), ('present', 1, 'c1', 'keys', 0),
                    ('issue', 2, 'c1', 'streams', 0), ('present', 2, 'c1', 'streams', 0), ('bystander', 0, '', '', 0), ('present', 2, 'c1', 'streams', 0)])
    # a used token replayed in every equivalent spelling (JSON body and query string)
    scripts.append([('issue', 1, 'c1', 'streams', 0)] + [('present', 1, 'c1', 'streams', 0)] * 4 +
                   [('issue', 2, 'c1', 'keys', 0)] + [('present', 2, 'c1', 'keys', 0)] * 4)
    spell_scripts = {len(scripts) - 1: [0, 1, 2, 3, 0, 1, 2, 3]}
    for w in range(nwalks):
        tid = w + 1
        script_spell = list(spell_scripts.get(w, []))
        rp.new_walk(variant=w % 6)
        cur = init
        restarted = 0
        epoch = 0
        last_accept_epoch: dict[int, int] = {}
        accepted_once: set[int] = set()
        script = list(scripts[w]) if w < len(scripts) else []
        for _ in range(depth):
            outs = succ.get(cur, [])
            if not outs:
                break
            if script and script[0][0] == 'bystander' or (not script and accepted_once and rng.random() < 0.1):
                if script:
                    script.pop(0)
                rp.bystander()
                lines.append({'tid': tid, 'ev': 'bystander'})
                kinds['bystander'] = kinds.get('bystander', 0) + 1
                continue
            if script and script[0][0] == 'age' or (not script and accepted_once and rng.random() < 0.08):
                minutes = script.pop(0)[1] if script else rng.choice([21, 60])
                rp.age(minutes)
                lines.append({'tid': tid, 'ev': 'age', 'minutes': minutes})
                kinds['aged'] = kinds.get('aged', 0) + 1
                continue
            if script:
                act, tok, ck, svc, tam = script.pop(0)
                forced = [e for e in outs if e['act'] == act and (act == 'restart' or (
                    e['tok'] == tok and e['cookie'] == ck and e['service'] == svc and e['tampered'] == tam))]
                if not forced:
                    raise MachineryFailure(f'scripted CSRF step {act, tok, ck, svc, tam} is not an edge of the model')
                outs = forced
            fresh = [e for e in outs if id(e) not in visited]
            pool = fresh if fresh and rng.random() < 0.8 else outs
            # bias towards the interesting actions
            weights = []
            for e in pool:
                if e['act'] == 'restart':
                    weights.append(0.5 if w % 3 == 0 else 0.02)
                elif e['act'] == 'issue':
                    weights.append(2.0)
                else:
                    weights.append(1.5 if e['tok'] in accepted_once else 1.0)
            e = rng.choices(pool, weights=weights)[0]
            visited.add(id(e))
            if e['act'] == 'issue':
                rp.issue(e['tok'], e['cookie'], e['service'])
                lines.append({'tid': tid, 'ev': 'issue', 'tok': e['tok'], 'cookie': e['cookie'], 'service': e['service']})
            elif e['act'] == 'present':
                # a token that was accepted before comes back in another, equivalent spelling half of the time
                spelling = rng.choice([0, 1, 2, 3]) if e['tok'] in accepted_once and not e['tampered'] else 0
                if script_spell:
                    spelling = script_spell.pop(0)
                acc = rp.present(e['tok'], e['cookie'], e['service'], e['tampered'], spelling)
                lines.append({'tid': tid, 'ev': 'present', 'tok': e['tok'], 'cookie': e['cookie'], 'service': e['service'],
                              'tampered': e['tampered'], 'accepted': acc, 'exp': e['exp'], 'spelling': spelling,
                              # 1 iff the service was restarted since this token was last accepted
                              'restarted': 1 if e['tok'] in last_accept_epoch and last_accept_epoch[e['tok']] < epoch else 0})
                tk = e['from']['tokens'][e['tok'] - 1]
                if e['tampered']:
                    kinds['tamper'] += 1
                elif tk['cookie'] != e['cookie']:
                    kinds['cross_cookie'] += 1
                elif tk['service'] != e['service']:
                    kinds['cross_service'] += 1
                elif e['tok'] in accepted_once:
                    kinds['reuse'] += 1
                    if restarted:
                        kinds['after_restart'] += 1
                if acc:
                    kinds['accepted'] += 1
                    accepted_once.add(e['tok'])
                    last_accept_epoch[e['tok']] = epoch
            else:
                rp.restart()
                restarted = 1
                epoch += 1
                # the sessions (cookies, logins) survive a restart: they live in the clients
                for s in rp.sessions.values():
                    s.client.application = da.app
                lines.append({'tid': tid, 'ev': 'restart'})
            cur = state_key(e['to'])
    out.coverage['csrf_walks'] = nwalks
    out.coverage['csrf_edges_total'] = len(edges)
    out.coverage['csrf_edges_visited'] = len(visited)
    out.coverage['csrf_presentations'] = kinds
    out.coverage['csrf_hook_seen'] = rp.hook
    for k, v in kinds.items():
        if v == 0 and k != 'accepted':       # what is accepted depends on the code under test: judged by the clauses, not here
            raise MachineryFailure(f'vacuity guard: no CSRF walk exercised "{k}"')
    return lines


# ---------------------------------------------------------------------------------------
# (C) route sweep
# ---------------------------------------------------------------------------------------
def fill_rule(rule, ident: dict[str, Any], own_pk: int | None, other_pk: int) -> list[str]:
    """concrete URLs for a routing rule (one or two variants)"""
    vals: dict[str, list[Any]] = {
        'spk': [ident['streams']['bbb']], 'mfid': [ident['media']['bbb_t1'][0]], 'kpk': [next(iter(ident['keys'].values()))],
        'upk': [other_pk] + ([own_pk] if own_pk else []), 'mps_name': ident['mps'][:1] or ['testmps'],
        'ppk': ident['periods'][:1] or [1], 'stream': ['bbb'], 'manifest': ['hand_made.mpd'], 'mode': ['vod'],
        'filename': ['bbb_v7'], 'ext': ['m4v'], 'segment_num': ['1'], 'segment_time': [0], 'segnum': [1],
        'method': ['iso'], 'publish': [1700000000], 'username': ['user'], 'path': ['x'],
    }
    urls = ['']
    rs = rule.rule
    # split "/a/<conv:name>/b"
    parts = re.split(r'(<[^>]+>)', rs)
    for p in parts:
        if p.startswith('<'):
            name = p[1:-1].split(':')[-1]
            if name == 'filename' and 'libs' in rs:
                choices = ['routemap.js']
            else:
                choices = vals.get(name, ['1'])
            urls = [u + str(c) for u in urls for c in choices]
        else:
            urls = [u + p for u in urls]
    return urls


SUPERSET_FORM = {
    'title': 'changed title', 'directory': 'newdir', 'prefix': 'newdir', 'marlin_la_url': '', 'playready_la_url': '',
    'timing_ref': '', 'hkid': '00112233445566778899aabbccddeeff', 'hkey': 'ffeeddccbbaa99887766554433221100',
    'new_key': '1', 'computed': 'off', 'track_id': '9', 'lang': 'fr', 'abr': '0', 'depth': '77', 'name': 'newmps',
    'username': 'intruder', 'email': 'intruder@example.test', 'password': 'pw123456', 'confirmPassword': 'pw123456',
}


def superset_json(ident: dict[str, Any]) -> dict[str, Any]:
    j: dict[str, Any] = dict(SUPERSET_FORM)
    j.update({'mustChange': False, 'adminGroup': True, 'mediaGroup': True, 'userGroup': True, 'options': None,
              'periods': [{'pk': None, 'pid': 'q1', 'stream': ident['streams']['bbb'], 'ordering': 1, 'start': 'PT0S',
                           'duration': 'PT20S', 'parent': None, 'new': True,
                           'tracks': [{'track_id': 1, 'role': 1, 'encrypted': False, 'lang': None, 'enabled': True,
                                       'content_type': 'video', 'codec_fourcc': 'avc3', 'pk': None}]}]})
    return j


def sweep(da, d, rng: random.Random, tier_: str, out: Outcome) -> list[dict[str, Any]]:
    from harness.mgmt import ROLES, Session, Snapshot, StateDigest, ids, small_mp4
    snap = Snapshot(da, d / 'snap')
    da.restart()
    ident = ids(da)
    rules = sorted(da.app.url_map.iter_rules(), key=lambda r: r.endpoint)
    lines: list[dict[str, Any]] = []
    tid = 10**6
    unknown_routes: set[str] = set()
    effective: dict[tuple[str, str], bool] = {}
    sessions: dict[str, Any] = {}
    state: dict[str, Any] = {'last': None}

    def get_session(role: str):
        if role not in sessions:
            sessions[role] = Session(da, role)
        return sessions[role]

    def do(role: str, rule, method: str, url: str, variant: dict[str, Any], sess=None, history: str = '') -> None:
        nonlocal tid, sessions
        s = sess or get_session(role)
        before = state['last'] if state['last'] is not None else StateDigest(da)
        kw: dict[str, Any] = {}
        u = url
        tok = ''
        if variant.get('csrf'):
            if not s.csrf_cookie():
                s.harvest(ident['streams']['bbb'])      # the cookie comes from a real, public page
            if variant['csrf'] == 'upload' and role not in ('media', 'admin'):
                tok = ''                                  # pages hand the upload token to media users only
            else:
                tok = s.mint(variant['csrf'])
        if variant['body'] == 'form':
            data: dict[str, Any] = dict(SUPERSET_FORM)
            if tok:
                data['csrf_token'] = tok
            if rule.endpoint == 'upload-blob':
                data['file'] = (io.BytesIO(small_mp4(da)), 'intruder.mp4')
                kw['content_type'] = 'multipart/form-data'
            kw['data'] = data
            if tok:
                u += ('&' if '?' in u else '?') + f'csrf_token={tok}'
        elif variant['body'] == 'json':
            js = superset_json(ident)
            if tok:
                js['csrf_token'] = tok
            if 'pk' in variant:
                js['pk'] = variant['pk']        # a primary key in the body that differs from the one in the URL
            kw['json'] = js
        elif variant['body'] == 'query':
            q = f'kid=0f1e2d3c4b5a69788796a5b4c3d2e1f0&index=1&ajax=1'
            if tok:
                q += f'&csrf_token={tok}'
            u += ('&' if '?' in u else '?') + q
        try:
            r = s.request(method, u, **kw)
            status = r.status_code
        except Exception as err:       # noqa: BLE001   (PROPAGATE_EXCEPTIONS is off; defensive)
            status = 599
            out.notes.append(f'exception {type(err).__name__} for {method} {u} as {role}')
        after = StateDigest(da)
        state['last'] = after
        changed = 0
        selfonly = 0
        df: dict[str, Any] = {}
        if before.digest() != after.digest():
            changed = 1
            df = before.diff(after)
            if df['tables'] == ['User'] and not df['blobs'] and df['user_rows'] == [s.user_pk]:
                selfonly = 1
        tid += 1
        lines.append({'tid': tid, 'ev': 'request', 'route': rule.endpoint, 'method': method, 'role': role, 'url': u,
                      'variant': variant, 'status': status, 'changed': changed, 'selfonly': selfonly, 'diff': df, 'history': history})
        if changed:
            effective[(rule.endpoint, method)] = True
            snap.restore()
            for x in sessions.values():
                x.rebind()       # cookies and JWTs stay valid: same secrets, same user rows
            state['last'] = None
            if rule.endpoint.startswith('api-edit-user') or rule.endpoint == 'api-list-users':
                sessions = {}
        elif rule.endpoint in ('logout', 'api-login', 'api-refresh-access-token'):
            sessions.pop(role, None)     # these routes end or change the login of this client

    variants_mut = [{'body': 'none'}] + [{'body': b, 'csrf': svc} for b in ('form', 'json', 'query') for svc in ('streams', 'files', 'keys', 'upload')]
    variants_get = [{'body': 'none'}, {'body': 'query', 'csrf': 'files'}]
    variants_head = list(variants_get)      # a HEAD request is dispatched to the GET handler: same parameters, same authorisation
    if tier_ == 'quick':
        variants_mut = [{'body': 'none'}] + [{'body': b, 'csrf': svc} for b, svc in
                                             (('form', 'streams'), ('json', 'streams'), ('form', 'keys'), ('query', 'keys'),
                                              ('form', 'files'), ('form', 'upload'), ('query', 'files'), ('query', 'streams'))]
    from harness.core import SPEC
    auth_src = (SPEC / 'Auth.tla').read_text()
    known_names = set(re.findall(r'"([a-z0-9\-]+)"', auth_src))
    for rule in rules:
        if rule.endpoint == 'static':
            continue
        for method in METHODS:
            if method not in rule.methods and method not in ('PUT', 'DELETE', 'POST'):
                continue
            for role in ROLES:
                s = get_session(role)
                urls = fill_rule(rule, ident, s.user_pk, ident['users']['media'] if role != 'media' else ident['users']['user'])
                other_pk = ident['users']['media'] if role != 'media' else ident['users']['user']
                for url in urls:
                    vs = variants_head if method == 'HEAD' else (variants_get if method == 'GET' else variants_mut)
                    if '<int:upk>' in rule.rule and method in ('POST', 'PUT') and s.user_pk and url.endswith(f'/{s.user_pk}'):
                        # the caller's own URL, but the body names somebody else (and the admin)
                        vs = list(vs) + [{'body': 'json', 'csrf': 'streams', 'pk': other_pk},
                                         {'body': 'json', 'csrf': 'streams', 'pk': ident['users']['admin']}]
                    if tier_ == 'quick' and role == 'admin' and method not in ('GET', 'HEAD'):
                        vs = vs[:3]      # admins are authorised almost everywhere: a reduced set in the quick tier
                    for v in vs:
                        # a role that is authorised for this route only needs to show that the
                        # parameter sets are able to change state at all (vacuity guard): one
                        # effective request per (route, method) is enough
                        if effective.get((rule.endpoint, method)) and role in ('media', 'admin') and rule.endpoint in known_names:
                            continue
                        do(role, rule, method, url, v)
    # ---- an account that takes the place of a deleted one -------------------------------------------------------------------
    # history: an admin creates a media account, that account uses the pages and APIs of its role, the admin deletes it and
    # creates a plain `user` account (the database hands the freed primary key to the new row): the new account is a lesser role
    # like any other, whatever its predecessor was allowed to do
    from harness import app as _app
    pw = 'tmp-M3dia!pw'
    admin = Session(da, 'admin')

    def make(name: str, **groups) -> int:
        r = admin.request('PUT', '/api/users', json={'username': name, 'email': f'{name}@dashlive.unit.test', 'password': pw,
                                                      'confirmPassword': pw, 'mustChange': False, **groups})
        js = r.get_json(silent=True) or {}
        if not js.get('success'):
            raise MachineryFailure(f'could not create account {name}: {r.status_code} {js}')
        _app.USERS[name] = (name, f'{name}@dashlive.unit.test', pw)
        return js['user']['pk']
    try:
        pk1 = make('tempmedia', mediaGroup=True, userGroup=True)
        tm = Session(da, 'tempmedia')
        nget = 0
        for rule in rules:
            if rule.endpoint == 'static' or 'GET' not in rule.methods or rule.endpoint in ('logout',):
                continue
            for url in fill_rule(rule, ident, tm.user_pk, ident['users']['user'])[:1]:
                tm.request('GET', url)
                nget += 1
        r = admin.request('DELETE', f'/api/users/{pk1}')
        if r.status_code not in (200, 204):
            raise MachineryFailure(f'could not delete account {pk1}: {r.status_code}')
        pk2 = make('tempuser', userGroup=True)
        out.coverage['recycled_account'] = {'first_pk': pk1, 'second_pk': pk2, 'pk_reused': pk1 == pk2, 'requests_by_first': nget}
        tu = Session(da, 'tempuser')
        state['last'] = None
        polluted = False
        for rule in rules:
            if rule.endpoint == 'static' or polluted:
                continue
            for method in ('POST', 'PUT', 'DELETE'):
                if polluted:
                    break
                for url in fill_rule(rule, ident, tu.user_pk, ident['users']['media'])[:2]:
                    for v in (variants_mut[:4] if tier_ == 'quick' else variants_mut):
                        nbefore = len(lines)
                        do('user', rule, method, url, v, sess=tu, history='recycled-pk')
                        if lines[-1]['changed'] and not lines[-1]['selfonly']:
                            polluted = True      # the snapshot restore has removed the account: the stage ends here
                            break
                        if lines[-1]['changed']:
                            polluted = True
                            break
                    if polluted:
                        break
    finally:
        _app.USERS.pop('tempmedia', None)
        _app.USERS.pop('tempuser', None)
        snap.restore()
        for x in sessions.values():
            x.rebind()
        state['last'] = None
    # which mutating routes were shown to be effective (state changed for an authorised role)?
    out.coverage['sweep_effective_route_methods'] = sorted(f'{r} {m}' for (r, m) in effective)
    return lines


def main(tier_: str) -> int:
    out = Outcome('C15', tier_)
    out.assumptions = [
        'flask_login is replaced by /verif/shims/flask_login.py (same session protocol: _user_id in the signed Flask session); '
        'role decorators, CSRF code and handlers are the repository\'s own',
        'persistent state = every table except Token (and User.last_login) read with sqlite3 + the listing of the blob folder',
        'the role oracle (which route may change state for which group) is hand-written in spec/Auth.tla from docs/users.md; '
        'routes not named there must never change state',
        'a user changing only the row of their own account is authorised ("the user themself for their own account")',
    ]
    from harness.app import DashApp
    rng = random.Random(seed() * 101 + 15)
    with scratch() as d:
        ra = run_tlc('AuthMC', 'AuthMC.cfg', workdir=d, workers=8, timeout=600)
        tlc_must_pass(ra, 'AuthMC (A)')
        re_ = run_tlc('AuthMC', 'AuthMC_emit.cfg', workdir=d, workers=1, timeout=900, heap='6g')
        tlc_must_pass(re_, 'AuthMC emission')
        edges = re_.tagged('E')
        with DashApp(d / 'app', fixtures=('bbb',)) as da:
            da.add_fixture('tears')
            da.add_mps()
            nw, depth = (60, 14) if tier_ == 'quick' else (600, 16)
            lines = csrf_walks(edges, da, rng, nw, depth, out)
            ncsrf = len(lines)
            lines.extend(sweep(da, d, rng, tier_, out))
        vs, st = validate_trace('AuthTrace', lines, workdir=d, chunk=20000, parallel=4)
        drift = 0
        seen: set[str] = set()
        for v in vs:
            lo = v['lineobj']
            if v['clause'].startswith('DRIFT_'):
                drift += 1
                continue
            if lo['ev'] == 'request':
                case = {'route': lo['route'], 'method': lo['method'], 'role': lo['role'], 'url': lo['url'],
                        'variant': lo['variant'], 'status': lo['status'], 'diff': lo['diff']}
                key = f"{lo['route']} {lo['method']} {lo['role']}"
            else:
                j = v['index']
                hist = [x for x in lines[max(0, j - 20):j + 1] if x['tid'] == lo['tid']]
                case = {'tok': lo['tok'], 'cookie': lo['cookie'], 'service': lo['service'], 'tampered': lo['tampered'],
                        'accepted': lo['accepted'], 'restarted_since_last_accept': lo['restarted'], 'detail': v['detail'],
                        'history': [{k: x.get(k) for k in ('ev', 'tok', 'cookie', 'service', 'tampered', 'accepted')} for x in hist]}
                key = f"{v['clause']} {lo['restarted']} {lo['tampered']}"
            if key in seen:
                continue
            seen.add(key)
            out.add(Violation('C15', v['clause'], case))
        reqs = [x for x in lines if x['ev'] == 'request']
        lesser_mut = [x for x in reqs if x['method'] in ('POST', 'PUT', 'DELETE')]
        out.coverage.update({
            'states': ra.distinct, 'transitions': ra.generated, 'traces_validated_against_impl': out.coverage['csrf_walks'] + len(reqs),
            'evaluations': len(lines), 'distinct_nontrivial': len({(x['route'], x['method'], x['role'], json.dumps(x['variant'], sort_keys=True)) for x in lesser_mut}),
            'rule': 'one evaluation per CSRF walk step or swept request; distinct = distinct (route, method, role, parameter variant) '
                    'among state-changing methods',
            'exhaustive': False, 'model_drift': drift, 'csrf_lines': ncsrf, 'sweep_requests': len(reqs),
            'sweep_routes': len({x['route'] for x in reqs}), 'sweep_changed': sum(x['changed'] for x in reqs),
            'samples': [lines[0], lines[min(5, ncsrf - 1)], reqs[len(reqs) // 2], next((x for x in reqs if x['changed']), reqs[-1])],
            'bounds': f'CSRF: 2 cookies x 2 services x 2 tokens x 1 restart (TLC exhaustive), {out.coverage["csrf_walks"]} replayed walks; '
                      f'sweep: every route x 5 methods x 4 roles x parameter variants, tier {tier_}',
        })
    return out.finish('model_checking')
