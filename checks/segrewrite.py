"""Shared pipeline of C03 (media segments) and C10 (init segments): SegmentRewrite.tla.
(A) TLC SegmentRewriteMC: every subset of edits x layout variants; pointer fix-ups of the two-pass
    encoder satisfy the clauses.
(C) every stored segment kind x option vectors requested over HTTP; responses walked by the
    independent ISO-BMFF reader, payload compared with the stored bytes; init segments diffed
    box by box against the stored init segment; TLC validates (SegmentRewriteTrace)."""
from __future__ import annotations

import base64
import datetime
import random
import re
import struct
import uuid
from typing import Any

from harness.core import MachineryFailure, Outcome, Violation, run_tlc, scratch, seed, tlc_must_pass, validate_trace
from harness.walker import Box, Parsed, CONTAINERS

PLAYREADY = bytes.fromhex('9a04f07998404286ab92e65be0885f95')
CLEARKEY = bytes.fromhex('1077efecc0b24d02ace33c1e52e2fb4b')
NOW = datetime.datetime(2024, 3, 5, 12, 0, 0, tzinfo=datetime.timezone.utc)


def rebuild(data: bytes, boxes: list[Box], drop) -> bytes:
    """re-serialise a box list without the boxes selected by drop(), fixing ancestor sizes"""
    out = b''
    for b in boxes:
        if drop(b):
            continue
        if b.type in CONTAINERS:
            inner = rebuild(data, b.children, drop)
            hdr = data[b.pos:b.pos + b.hdr]
            size = b.hdr + len(inner)
            out += struct.pack('>I', size) + hdr[4:] + inner
        else:
            out += data[b.pos:b.end]
    return out


def pro_kids(pro: bytes) -> list[bytes]:
    """independent PlayReady Object reader: KIDs (as big-endian 16 byte ids) found in the WRMHEADER"""
    kids: list[bytes] = []
    if len(pro) < 10:
        return kids
    total, count = struct.unpack_from('<IH', pro, 0)
    p = 6
    for _ in range(count):
        if p + 4 > len(pro):
            break
        rtype, rlen = struct.unpack_from('<HH', pro, p)
        p += 4
        rec = pro[p:p + rlen]
        p += rlen
        if rtype != 1:
            continue
        xml = rec.decode('utf-16-le', 'replace')
        for m in re.finditer(r'<KID[^>]*?(?:VALUE="([^"]+)")?[^>]*>([^<]*)', xml):
            b64 = m.group(1) or m.group(2)
            try:
                raw = base64.b64decode(b64.strip())
                if len(raw) == 16:
                    kids.append(uuid.UUID(bytes_le=raw).bytes)
            except Exception:      # noqa: BLE001
                pass
    return kids


def drm_vectors(tier_: str, rng: random.Random) -> list[str]:
    systems = ['playready', 'clearkey', 'marlin']
    locs = ['', '-moov', '-cenc', '-pro', '-cenc-moov', '-moov-pro', '-cenc-pro', '-cenc-moov-pro']
    out = ['drm=all', 'drm=all-moov', 'drm=all-cenc', 'drm=all-pro', 'drm=all-cenc-pro', 'drm=all-moov-pro', 'drm=none', '']
    for s in systems:
        for lc in locs:
            out.append(f'drm={s}{lc}')       # every system with every subset of locations (`pro` means nothing to ClearKey / Marlin)
    out += ['drm=playready,clearkey', 'drm=playready-cenc,clearkey-moov', 'drm=marlin,clearkey-moov', 'drm=playready-moov,marlin',
            'drm=clearkey-cenc,playready-pro', 'drm=marlin,clearkey-pro', 'drm=marlin-pro,clearkey-cenc-pro',
            # lists that mix entries with and without a location list: an entry without one means every location
            'drm=playready-pro,clearkey', 'drm=clearkey-cenc,playready', 'drm=playready-pro-cenc,marlin,clearkey', 'drm=clearkey,playready-pro']
    extra = ['', '&playready__version=1.0', '&playready__version=2.0', '&playready__version=4.0', '&playready__piff=0',
             '&playready__piff=1&playready__version=3.0']
    vecs = []
    for d in out:
        for x in (extra if tier_ == 'thorough' else rng.sample(extra, 2)):
            vecs.append(d + x)
    return vecs


def expected_pssh(q: str, encrypted: bool) -> list[str]:
    """systems whose pssh must be appended to moov: selected, define init data, `moov` in their locations"""
    if not encrypted:
        return []
    m = re.search(r'drm=([^&]*)', q)
    if not m:
        return []
    val = m.group(1).lower()
    if val in ('', 'none'):
        return []
    sel: list[tuple[str, set[str]]] = []
    if val.startswith('all'):
        locs = set(val.split('-')[1:]) or {'pro', 'cenc', 'moov'}
        sel = [(s, locs) for s in ('playready', 'clearkey', 'marlin')]
    else:
        for item in val.split(','):
            parts = item.split('-')
            sel.append((parts[0], set(parts[1:]) or {'pro', 'cenc', 'moov'}))
    want = []
    for s, locs in sel:
        if 'moov' in locs and s == 'playready':
            want.append(PLAYREADY.hex())
        if 'moov' in locs and s == 'clearkey':
            want.append(CLEARKEY.hex())
    return want


def piff_expected(q: str, encrypted: bool) -> int:
    if not encrypted:
        return 0
    m = re.search(r'drm=([^&]*)', q)
    if not m or not re.search(r'(all|playready)', m.group(1)):
        return 0
    v = re.search(r'playready__version=([\d.]+)', q)
    pf = re.search(r'playready__piff=(\d)', q)
    if v and float(v.group(1)) == 1.0:
        return 1
    if pf and pf.group(1) == '0':
        return 0
    return 1


def run(prop: str, tier_: str) -> int:
    out = Outcome(prop, tier_)
    out.assumptions = [
        'responses are read by the independent ISO-BMFF walker; payload identity by SHA-1 against an independent scan of the stored file',
        'stored segment kinds are those of the fixture media (clear and cenc with 8-byte IVs, tfdt present, default-base-is-moof, sidx '
        'after each fragment); variants without tfdt / with explicit base offset / 16-byte IVs are covered at design level (TLC) only',
        'PlayReady objects are read by an independent little-endian record reader (KID from the WRMHEADER)',
    ]
    from harness.app import DashApp
    from harness.stored import stored, project_media
    rng = random.Random(seed() * 29 + (3 if prop == 'C03' else 10))
    with scratch() as d:
        ra = run_tlc('SegmentRewriteMC', 'SegmentRewriteMC.cfg', workdir=d, workers=8, timeout=600)
        tlc_must_pass(ra, 'SegmentRewriteMC (A)')
        lines: list[dict[str, Any]] = []
        with DashApp(d / 'app', fixtures=('bbb', 'tears')) as da:
            da.add_mps()
            da.clock.set(NOW)
            c = da.client()
            reps = [('bbb', 'bbb_v7', 'm4v', 0), ('bbb', 'bbb_a1', 'm4a', 0), ('bbb', 'bbb_t1', 'mp4', 0), ('bbb', 'bbb_v7_enc', 'm4v', 1),
                    ('bbb', 'bbb_a1_enc', 'm4a', 1), ('bbb', 'bbb_v6_enc', 'm4v', 1), ('tears', 'tears_v1', 'm4v', 0), ('tears', 'tears_a1', 'm4a', 0)]
            vecs = drm_vectors(tier_, rng)
            tid = 0
            # the single-file layout: one sidx with several references between moov and the first fragment (part of the init segment)
            from harness.core import REPO as _REPO2
            from harness.synth import global_sidx
            gsx = d / 'gsx_v7.mp4'
            gsx.write_bytes(global_sidx((_REPO2 / 'tests' / 'fixtures' / 'bbb' / 'bbb_v7.mp4').read_bytes(), 4))
            da.add_fixture('bbb', directory='gsx', title='one sidx for the whole file', only={'bbb_a2'}, extra=[(gsx, 'gsx_v7')])
            reps = reps + [('gsx', 'gsx_v7', 'm4v', 0)]
            # an encrypted track stored without tfdt boxes: the tfdt the service inserts moves saiz / saio / senc
            from harness.synth import strip_tfdt
            ntf = d / 'ntf_a1_enc.mp4'
            ntf.write_bytes(strip_tfdt((_REPO2 / 'tests' / 'fixtures' / 'bbb' / 'bbb_a1_enc.mp4').read_bytes()))
            da.add_fixture('bbb', directory='ntf', title='encrypted, stored without tfdt', only={'bbb_v6'}, extra=[(ntf, 'ntf_a1_enc')])
            reps = reps + [('ntf', 'ntf_a1_enc', 'm4a', 1)]
            if prop == 'C03':
                # a text track stored without tfdt boxes, with an explicit tfhd base_data_offset and a trun without
                # data_offset (tests/fixtures/webvtt.mp4): the handler has to insert the tfdt itself
                from harness.core import REPO
                da.add_fixture('bbb', directory='vtt', title='stored without tfdt', only={'bbb_v7', 'bbb_a1'},
                               extra=[(REPO / 'tests' / 'fixtures' / 'webvtt.mp4', 'vtt_t2')])
                reps = reps + [('vtt', 'vtt_t2', 'mp4', 0)]
                # a video track with one stored segment (690 KB) larger than the segment reader's whole cache (30 x 16 KiB)
                from harness.synth import enlarge_segment
                bigf = d / 'big_v7.mp4'
                bigf.write_bytes(enlarge_segment((REPO / 'tests' / 'fixtures' / 'bbb' / 'bbb_v7.mp4').read_bytes(), 2, 600000))
                da.add_fixture('bbb', directory='big', title='large segment', only={'bbb_a1'}, extra=[(bigf, 'big_v7')])
                reps = reps + [('big', 'big_v7', 'm4v', 0)]

            if prop == 'C03':
                extras = ['', '&events=ping&ping__interval=100&ping__timescale=100', '&events=ping,scte35&ping__interval=150&ping__count=0',
                          '&events=scte35&scte35__interval=300', '&bugs=saio', '&bugs=saio&events=ping&ping__interval=90',
                          '&events=ping&ping__interval=4000&ping__start=100000']
                for stream, rid, ext, enc in reps:
                    sf = stored(da.blob_folder / stream / f'{rid}.mp4')
                    for qv in (vecs if enc else vecs[:6]):
                        if enc and (qv in ('', 'drm=none') or qv.startswith('&')):
                            continue
                        for x in (extras if tier_ == 'thorough' else rng.sample(extras, 3)):
                            q = (qv + x).lstrip('&')
                            urls = []
                            n = rng.randrange(1, len(sf.segments) + 1) if stream != 'big' else 2
                            urls.append((f'/dash/vod/{stream}/{rid}/{n}.{ext}', 'vod-number'))
                            t = sf.segments[n - 1].tfdt
                            urls.append((f'/dash/vod/{stream}/{rid}/time/{t}.{ext}', 'vod-time'))
                            # live far from the start: forces a 64-bit tfdt for high timescales
                            el = (NOW - datetime.datetime(1970, 1, 1, tzinfo=datetime.timezone.utc)).total_seconds()
                            segdur = (sf.segments[-1].tfdt - sf.segments[0].tfdt) // (len(sf.segments) - 1)     # as the indexer estimates it
                            ln = int(el * sf.timescale // segdur) - 2
                            urls.append((f'/dash/live/{stream}/{rid}/{ln}.{ext}', 'live-number-epoch'))
                            for path, kind in urls:
                                qq = q + ('&start=epoch&depth=60' if kind.startswith('live') else '')
                                url = path + ('?' + qq.lstrip('&') if qq else '')
                                r = c.get(url)
                                tid += 1
                                if r.status_code != 200:
                                    lines.append({'tid': tid, 'ev': 'refused', 'url': url, 'status': r.status_code, 'rep': rid, 'kind': kind})
                                    continue
                                pm = project_media(r.data, sf)
                                obs = {k: pm.get(k, 0) for k in ('wf', 'trun_target', 'payload_start', 'sizes_ok', 'payload_ok', 'has_senc',
                                                                 'saio_target', 'senc_first', 'senc_n_ok', 'has_sidx', 'nemsg', 'has_piff', 'tfdt_v')}
                                if obs['senc_n_ok'] == -1:
                                    obs['senc_n_ok'] = 0
                                lines.append({'tid': tid, 'ev': 'media', 'url': url, 'kind': kind, 'rep': rid, 'bug_saio': 1 if 'bugs=saio' in q else 0,
                                              'piff_expected': piff_expected(q, bool(enc)), 'obs': obs, 'layout': pm.get('layout')})
            else:
                with da.app.app_context():
                    from dashlive.server import models
                    ppk = {p.stream.directory: p.pk for p in models.db.session.query(models.Period).all()}
                # what an init segment carries must not depend on what the process served before: manifests of every mode with
                # DRM selections (the on-demand profile included) are requested first and again between the init requests
                history = ['/dash/odvod/bbb/hand_made.mpd?drm=playready', '/dash/odvod/bbb/manifest_vod_aiv.mpd?drm=all',
                           '/dash/live/bbb/hand_made.mpd?drm=clearkey', '/dash/vod/bbb/hand_made.mpd?drm=all-cenc',
                           '/dash/live/bbb/manifest_e.mpd?drm=marlin,playready-pro']
                for hurl in history:
                    c.get(hurl)
                # a stream whose key row was deleted after its encrypted file was indexed (DELETE /key/<pk>, see C17): the stored
                # init segment still names the key id, the database no longer knows it
                from harness.core import REPO as _REPO
                src_nk = (_REPO / 'tests' / 'fixtures' / 'bbb' / 'bbb_v7_enc.mp4').read_bytes()
                old_kid = next(b.f['default_kid'] for b in Parsed(src_nk[:4096]).boxes() if b.name == 'tenc')
                new_kid = bytes.fromhex('00112233445566778899aabbccddeeff')
                if src_nk.count(old_kid) != 1:
                    raise MachineryFailure('cannot re-key the fixture')
                nkf = d / 'nk_v7_enc.mp4'
                nkf.write_bytes(src_nk.replace(old_kid, new_kid))
                da.add_fixture('bbb', directory='nokey', title='key deleted after indexing', only={'bbb_a1'}, extra=[(nkf, 'nk_v7_enc')])
                with da.app.app_context():
                    row = models.Key.get(hkid=new_kid.hex())
                    if row is None:
                        raise MachineryFailure('indexing did not create the key row')
                    models.db.session.delete(row)
                    models.db.session.commit()
                reps = reps + [('nokey', 'nk_v7_enc', 'm4v', 1)]
                more_kids: dict[str, list[bytes]] = {}
                ninit = 0
                for stream, rid, ext, enc in reps:
                    sf = stored(da.blob_folder / stream / f'{rid}.mp4')
                    init = sf.data[:sf.init_end]
                    kdel = 1 if stream == 'nokey' else 0
                    pinit = Parsed(init)
                    kid = None
                    for b in pinit.boxes():
                        if b.name == 'tenc':
                            kid = b.f['default_kid']
                    for qv in vecs:
                        if enc and (qv in ('', 'drm=none') or qv.startswith('&') or qv.startswith('drm=none&')):
                            continue        # an encrypted file is not served without a DRM selection (404 by design)
                        for mode in ('live', 'vod'):
                            routes = [f'/dash/{mode}/{stream}/{rid}/init.{ext}']
                            if stream in ppk:
                                routes.append(f'/mps/{mode}/testmps/{ppk[stream]}/{rid}/init.{ext}')
                            for path in routes:
                                url = path + ('?' + qv.lstrip('&') if qv else '')
                                ninit += 1
                                if ninit % 40 == 0:
                                    c.get(history[(ninit // 40) % len(history)])
                                r = c.get(url)
                                tid += 1
                                if r.status_code != 200:
                                    lines.append({'tid': tid, 'ev': 'init_refused', 'url': url, 'status': r.status_code, 'rep': rid, 'mode': mode,
                                                  'encrypted': enc, 'key_deleted': kdel})
                                    continue
                                pr = Parsed(r.data)
                                moov = pr.find('moov')
                                psshs = [b for b in (moov.children if moov else []) if b.name == 'pssh']
                                stored_pssh = [b for b in (pinit.find('moov').children) if b.name == 'pssh']
                                new_pssh = psshs[len(stored_pssh):]
                                had_mehd = 1 if pinit.find('moov', 'mvex', 'mehd') is not None else 0
                                has_mehd = 1 if pr.find('moov', 'mvex', 'mehd') is not None else 0
                                # normal form: response without the appended pssh boxes; stored without mehd when it was removed
                                newset = {id(b) for b in new_pssh}
                                a = rebuild(r.data, pr.top, lambda b: id(b) in newset)
                                drop_mehd = had_mehd == 1 and has_mehd == 0
                                bb = rebuild(init, pinit.top, lambda b: drop_mehd and b.name == 'mehd')
                                same = 1 if a == bb else 0
                                # are the appended boxes really the last children of moov?
                                tail_ok = all(x in new_pssh for x in (moov.children[len(moov.children) - len(new_pssh):] if new_pssh else []))
                                diff = ''
                                if not same:
                                    k = next((i for i in range(min(len(a), len(bb))) if a[i] != bb[i]), min(len(a), len(bb)))
                                    diff = f'first difference at byte {k} (lengths {len(a)} / {len(bb)})'
                                pssh_ok = 1
                                for b in new_pssh:
                                    sid = b.f.get('system_id')
                                    if sid == CLEARKEY:
                                        if kid is None or kid not in b.f.get('key_ids', []):
                                            pssh_ok = 0
                                    elif sid == PLAYREADY:
                                        if kid is None or kid not in pro_kids(b.f.get('data', b'')):
                                            pssh_ok = 0
                                    if b.f.get('consumed') != b.size:
                                        pssh_ok = 0
                                    # a version 1 box carries a table of key ids: the track's own, in the byte order of the tenc box
                                    if b.f.get('version') == 1 and sid in (CLEARKEY, PLAYREADY) and not kdel:
                                        table = b.f.get('key_ids', [])
                                        allowed = [kid] + more_kids.get(rid, [])
                                        if kid not in table or any(x not in allowed for x in table):
                                            pssh_ok = 0
                                lines.append({'tid': tid, 'ev': 'init', 'url': url, 'rep': rid, 'mode': mode, 'encrypted': enc, 'key_deleted': kdel,
                                              'want_pssh': expected_pssh(qv, bool(enc)),
                                              'obs': {'wf': 1 if pr.well_formed() else 0, 'same_except': 1 if same and tail_ok else 0, 'diff': diff,
                                                      'pssh': [b.f.get('system_id', b'').hex() for b in new_pssh], 'pssh_ok': pssh_ok,
                                                      'pssh_sizes': [b.size for b in new_pssh],
                                                      'pssh_nkids': [len(b.f.get('key_ids', [])) if b.f.get('system_id') == CLEARKEY else -1 for b in new_pssh],
                                                      'mehd_removed': 1 if drop_mehd else 0, 'had_mehd': had_mehd}})
        good = [x for x in lines if x['ev'] in ('media', 'init')]
        refused = [x for x in lines if x['ev'] == 'refused']
        if len(good) < 100:
            raise MachineryFailure(f'only {len(good)} responses projected; refused {refused[:3]}')
        vs, st = validate_trace('SegmentRewriteTrace', lines, workdir=d, chunk=3000, parallel=8)
        seen: set[str] = set()
        for v in vs:
            lo = v['lineobj']
            if not v['clause'].startswith(prop + '_'):
                continue
            case = {'url': lo['url'], 'rep': lo.get('rep'), 'kind': lo.get('kind'), 'mode': lo.get('mode'), 'detail': v['detail'],
                    'obs': lo.get('obs'), 'layout': lo.get('layout'), 'want_pssh': lo.get('want_pssh'), 'key_deleted': lo.get('key_deleted', 0)}
            key = f"{v['clause']}|{lo.get('rep')}|{lo.get('kind')}|{lo.get('mode')}|{re.sub(r'[0-9]+', 'N', lo['url'].split('?')[-1])[:80]}"
            if key in seen:
                continue
            seen.add(key)
            out.add(Violation(prop, v['clause'], case))
        feats = {}
        if prop == 'C03':
            feats = {'with_emsg': sum(1 for x in good if x['obs']['nemsg'] > 0), 'with_piff': sum(1 for x in good if x['obs']['has_piff']),
                     'encrypted': sum(1 for x in good if x['obs']['has_senc']), 'tfdt_v1': sum(1 for x in good if x['obs']['tfdt_v'] == 1),
                     'bug_saio': sum(1 for x in good if x['bug_saio'])}
            for k, v_ in feats.items():
                if v_ == 0 and not out.violations:       # a feature that never shows is vacuity only when nothing else is wrong
                    raise MachineryFailure(f'vacuity guard: no response exercised "{k}"')
        else:
            feats = {'with_pssh': sum(1 for x in good if x['obs']['pssh']), 'two_pssh': sum(1 for x in good if len(x['obs']['pssh']) > 1),
                     'mehd_removed': sum(1 for x in good if x['obs']['mehd_removed']), 'mps_routes': sum(1 for x in good if x['url'].startswith('/mps'))}
            for k, v_ in feats.items():
                if v_ == 0 and not out.violations:
                    raise MachineryFailure(f'vacuity guard: no response exercised "{k}"')
        out.coverage.update({
            'states': ra.distinct, 'transitions': max(1, ra.generated), 'traces_validated_against_impl': len(good),
            'evaluations': len(good), 'distinct_nontrivial': len({(x.get('rep'), x.get('kind') or x.get('mode'), x['url'].split('?')[-1]) for x in good}),
            'rule': 'one evaluation per served segment; distinct = distinct (representation, addressing/mode, option vector)',
            'exhaustive': False, 'refused': len(refused), 'features': feats,
            'samples': [good[0], good[len(good) // 2]],
            'bounds': f'tier {tier_}: 8 representations (clear/encrypted video, audio, text; two streams) x DRM system/location subsets x '
                      'playready version/piff x events x bugs, vod by number and time + live 54 years after epoch',
        })
        if refused:
            out.notes.append('refused: ' + '; '.join(sorted({f"{x['status']} {x['url'][:90]}" for x in refused})[:5]))
    return out.finish('model_checking')
