"""Runs the real dash-live Flask application in-process, single-threaded, with a
controllable clock, a scratch SQLite file and a scratch blob folder populated from the
repository's fixture media (same rows as upstream's tests/mixins/flask_base.py creates).
"""
from __future__ import annotations

import binascii
import datetime
import json
import logging
import shutil
import sys
import time as _time
from pathlib import Path
from typing import Any
from unittest import mock

from harness.core import REPO, VERIF

for p in (str(REPO), str(VERIF / 'shims')):
    if p not in sys.path:
        sys.path.insert(0, p)

REAL_DATETIME = datetime.datetime
UTC = datetime.timezone.utc


class Clock:
    """Replaces datetime.datetime (module attribute) and time.time with a controllable
    clock - the technique of upstream's tests/mixins/mock_time.py."""

    def __init__(self, now: datetime.datetime | str = '2023-01-01T12:00:00Z') -> None:
        self.now = self._coerce(now)
        clock = self

        class _Meta(type):
            def __instancecheck__(cls, obj):
                return isinstance(obj, REAL_DATETIME)

        class _Base(REAL_DATETIME):
            @classmethod
            def now(cls, tz=None):
                n = clock.now
                if tz is None:
                    return n.replace(tzinfo=None)
                return n.astimezone(tz) if n.tzinfo else n.replace(tzinfo=tz)

            @classmethod
            def utcnow(cls):
                return clock.now.replace(tzinfo=None)

        self.cls = _Meta('datetime', (_Base,), {})
        self._patches = [
            mock.patch.object(datetime, 'datetime', self.cls),
            mock.patch.object(_time, 'time', lambda: clock.now.timestamp()),
        ]
        self._started = False

    @staticmethod
    def _coerce(v: datetime.datetime | str) -> datetime.datetime:
        if isinstance(v, str):
            v = REAL_DATETIME.fromisoformat(v.replace('Z', '+00:00'))
        if v.tzinfo is None:
            v = v.replace(tzinfo=UTC)
        return v

    def set(self, v: datetime.datetime | str) -> None:
        self.now = self._coerce(v)

    def advance(self, **kw) -> None:
        self.now = self.now + datetime.timedelta(**kw)

    def start(self) -> None:
        if self._started:
            return
        for p in self._patches:
            p.start()
        # modules that did `from datetime import datetime`
        self._extra = []
        for modname in ('dashlive.server.models.token', 'dashlive.server.requesthandler.csrf',
                        'dashlive.server.models.user', 'dashlive.server.requesthandler.user_management'):
            mod = sys.modules.get(modname)
            if mod is not None and getattr(mod, 'datetime', None) is REAL_DATETIME:
                pt = mock.patch.object(mod, 'datetime', self.cls)
                pt.start()
                self._extra.append(pt)
        self._started = True

    def stop(self) -> None:
        if not self._started:
            return
        for p in getattr(self, '_extra', []):
            p.stop()
        for p in reversed(self._patches):
            p.stop()
        self._started = False


FIXTURES = {
    'bbb': dict(title='Big Buck Bunny', media_duration=40, segment_duration=4),
    'tears': dict(title='Tears of Steel', media_duration=64, segment_duration=4),
}

USERS = {
    'admin': ('admin', 'admin@dashlive.unit.test', r'suuuperSecret!'),
    'user': ('user', 'user@dashlive.unit.test', r'pa55word'),
    'media': ('media', 'media@dashlive.unit.test', r'm3d!a'),
}


class DashApp:
    """One instance of the real application over a scratch directory."""

    def __init__(self, workdir: Path, now: str | datetime.datetime = '2023-01-01T12:00:00Z',
                 fixtures: tuple[str, ...] = ('bbb',), with_subs: bool = True,
                 propagate: bool = False) -> None:
        self.workdir = Path(workdir)
        self.instance = self.workdir / 'instance'
        self.instance.mkdir(parents=True, exist_ok=True)
        self.clock = Clock(now)
        self.clock.start()
        import os
        self.propagate = propagate or bool(os.environ.get('VERIF_PROPAGATE'))
        self.app = self._create()
        for name in fixtures:
            self.add_fixture(name, with_subs=with_subs)

    # -- life-cycle --------------------------------------------------------------------
    def _config(self) -> dict[str, Any]:
        return {
            'DASH': {
                'ALLOWED_DOMAINS': '*',
                'CSRF_SECRET': 'test.csrf.secret',
                'DEFAULT_ADMIN_USERNAME': USERS['admin'][0],
                'DEFAULT_ADMIN_PASSWORD': USERS['admin'][2],
            },
            'SECRET_KEY': 'cookie.secret',
            'JWT_SECRET_KEY': 'jwt.secret',
            'SQLALCHEMY_DATABASE_URI': f"sqlite:///{self.instance / 'models.db3'}",
            'TESTING': self.propagate,
            'PROPAGATE_EXCEPTIONS': self.propagate,
            'LOG_LEVEL': 'critical',
            'PREFERRED_URL_SCHEME': 'http',
            'SERVER_NAME': None,
        }

    def _create(self):
        from dashlive.server.app import create_app
        from dashlive.server import models
        logging.disable(logging.CRITICAL)
        app = create_app(config=self._config(), instance_path=str(self.instance),
                         create_default_user=False, wss=False)
        self.clock.start()   # patch modules imported by create_app
        import flask
        self.exceptions = getattr(self, 'exceptions', [])

        def _on_exc(sender, exception, **extra):
            import traceback
            tb = traceback.extract_tb(exception.__traceback__)
            # innermost frame inside the repository (function name: stable across edits)
            inner = [f for f in tb if '/dashlive/' in f.filename] or list(tb)
            where = f'{inner[-1].filename.split("/")[-1]}:{inner[-1].name}' if inner else ''
            self.exceptions.append({'type': type(exception).__name__, 'msg': str(exception)[:200], 'where': where})
        self._on_exc = _on_exc     # keep a strong reference (signals hold weak ones)
        flask.got_request_exception.connect(_on_exc, app)
        with app.app_context():
            if models.User.get(username=USERS['admin'][0]) is None:
                for role, (uname, email, pw) in USERS.items():
                    mask = {'admin': models.Group.ADMIN, 'user': models.Group.USER,
                            'media': models.Group.USER + models.Group.MEDIA}[role]
                    models.db.session.add(models.User(
                        username=uname, email=email, password=models.User.hash_password(pw),
                        groups_mask=mask, must_change=False))
                models.User.get_guest_user()
                models.db.session.commit()
        return app

    def restart(self) -> None:
        """A restart of the service over the same store (same SQLite file, same blobs)."""
        from dashlive.server import models
        with self.app.app_context():
            models.db.session.remove()
            models.db.engine.dispose()
        self.app = self._create()

    def close(self) -> None:
        try:
            from dashlive.server import models
            with self.app.app_context():
                models.db.session.remove()
                models.db.engine.dispose()
        except Exception:
            pass
        self.clock.stop()
        logging.disable(logging.NOTSET)

    def __enter__(self) -> 'DashApp':
        return self

    def __exit__(self, *a) -> None:
        self.close()

    # -- content -----------------------------------------------------------------------
    @property
    def blob_folder(self) -> Path:
        return Path(self.app.config['BLOB_FOLDER'])

    def add_fixture(self, name: str, with_subs: bool = True, directory: str | None = None,
                    title: str | None = None, only: set[str] | None = None,
                    extra: list[tuple[Path, str]] | None = None, ref_stem: str | None = None,
                    defaults: dict[str, Any] | None = None) -> None:
        """Same rows as FlaskTestBase.setup_media_fixture; files are copied to the blob folder.
        ref_stem: fixture stem of the file that becomes the stream's timing reference (default: the first video file)."""
        from dashlive.server import models
        from dashlive.drm.playready import PlayReady
        from dashlive.mpeg.dash.representation import Representation
        from dashlive.mpeg import mp4
        directory = directory or name
        src_dir = REPO / 'tests' / 'fixtures' / name
        dst_dir = self.blob_folder / directory
        dst_dir.mkdir(parents=True, exist_ok=True)
        with self.app.app_context():
            for ct in ["application", "video", "audio", "text", "image"]:
                if models.ContentType.get(name=ct) is None:
                    models.db.session.add(models.ContentType(name=ct))
            models.db.session.commit()
            if models.Stream.get(directory=directory) is not None:
                return
            stream = models.Stream(
                title=title if title is not None else FIXTURES[name]['title'], directory=directory,
                marlin_la_url=f"ms3://localhost/marlin/{name}",
                playready_la_url=PlayReady.TEST_LA_URL)
            if defaults:
                stream.defaults = dict(defaults)        # per-stream option defaults (full option names)
            pattern = f"{name}_[avt]*.mp4" if with_subs else f"{name}_[av]*.mp4"
            stems = sorted(p.stem for p in src_dir.glob(pattern))
            if only is not None:
                stems = [s for s in stems if s in only]
            mfs = []
            # blob and media-file names are unique across the store: copies of a fixture
            # under another directory are renamed <directory>_xx
            todo = [(src_dir / f'{stem0}.mp4', stem0, stem0 if directory == name else stem0.replace(name, directory, 1))
                    for stem0 in stems]
            # extra: (path of any fragmented MP4, media-file name such as <directory>_t2)
            todo += [(Path(pth), stem_x, stem_x) for pth, stem_x in (extra or [])]
            for src, stem0, stem in todo:
                dst = dst_dir / f'{stem}.mp4'
                if not dst.exists():
                    shutil.copyfile(src, dst)
                js = src_dir / f'rep-{stem0}.json'
                rep = None
                if js.exists():
                    rep_js = json.loads(js.read_text())
                    if rep_js['version'] == Representation.VERSION:
                        if stem != stem0:
                            rep_js['id'] = stem
                            rep_js['filename'] = f'{stem}.mp4'
                        rep = Representation(**rep_js)
                if rep is None:
                    with src.open('rb') as f:
                        atoms = mp4.Mp4Atom.load(f)
                    rep = Representation.load(f'{stem}.mp4', atoms)
                ctype = 'video' if '_v' in stem0 else ('audio' if '_a' in stem0 else 'text')
                blob = models.Blob(
                    filename=f'{stem}.mp4',
                    created=REAL_DATETIME(2022, 9, 1, 12, 23, 0, tzinfo=UTC),
                    size=src.stat().st_size, sha1_hash=str(src), content_type=ctype, auto_delete=False)
                mf = models.MediaFile(
                    name=stem, stream=stream, bitrate=rep.bitrate, content_type=rep.content_type,
                    codec_fourcc=rep.codecs.split('.')[0], track_id=rep.track_id,
                    encrypted=rep.encrypted, blob=blob)
                mf.set_representation(rep)
                mfs.append(mf)
                if stream.timing_reference is None and (stem0 == ref_stem if ref_stem else '_v' in stem0):
                    stream.timing_reference = mf.as_stream_timing_reference()
            models.db.session.add(stream)
            for mf in mfs:
                models.db.session.add(mf.blob)
                models.db.session.add(mf)
            models.db.session.commit()
            # keys
            kids: set[bytes] = set()
            for mf in models.MediaFile.all():
                r = mf.representation
                if r is None or not r.encrypted:
                    continue
                for kid in r.kids:
                    if kid.raw in kids:
                        continue
                    if models.Key.get(hkid=kid.hex) is None:
                        key = binascii.b2a_hex(PlayReady.generate_content_key(kid.raw))
                        models.db.session.add(models.Key(hkid=kid.hex, hkey=key, computed=True))
                    kids.add(kid.raw)
            models.db.session.commit()

    def add_mps(self, name: str = 'testmps', title: str = 'Example multi-period stream',
                periods: list[dict[str, Any]] | None = None) -> None:
        """periods: [{pid, stream, start_s, duration_s, tracks:[(ctype, tid, role)]}]"""
        from dashlive.server import models
        from dashlive.mpeg.dash.content_role import ContentRole
        if periods is None:
            periods = [
                dict(pid='p1', stream='bbb', start_s=4, duration_s=32,
                     tracks=[('video', 1, 'MAIN'), ('audio', 2, 'MAIN')]),
                dict(pid='p2', stream='tears', start_s=8, duration_s=44,
                     tracks=[('video', 1, 'MAIN'), ('audio', 2, 'MAIN')]),
            ]
        with self.app.app_context():
            mps = models.MultiPeriodStream(name=name, title=title)
            models.db.session.add(mps)
            for idx, p in enumerate(periods, start=1):
                stream = models.Stream.get(directory=p['stream'])
                prd = models.Period(
                    pid=p['pid'], parent=mps, ordering=idx, stream=stream,
                    start=datetime.timedelta(seconds=p['start_s']),
                    duration=datetime.timedelta(seconds=p['duration_s']))
                models.db.session.add(prd)
                for ctype, tid, role in p['tracks']:
                    ct = models.ContentType.get(name=ctype)
                    models.db.session.add(models.AdaptationSet(
                        period=prd, track_id=tid, role=ContentRole[role].value, content_type=ct))
            models.db.session.commit()

    # -- requests ----------------------------------------------------------------------
    def client(self):
        return self.app.test_client()

    def get(self, url: str, client=None, headers: dict[str, str] | None = None, **kw):
        c = client or self.app.test_client()
        return c.get(url, headers=headers or {}, **kw)

    def login(self, client, role: str) -> dict[str, Any]:
        uname, _, pw = USERS[role]
        r = client.post('/api/login', json={'username': uname, 'password': pw, 'rememberme': False})
        return r.get_json() or {}
