"""Independent MPD projection on lxml (does not use the repository's validator or its
date/time helpers). Projects a manifest to the abstract state the specifications talk
about: MPD attributes, Periods, and per Representation the effective SegmentTemplate /
SegmentTimeline / SegmentList and the fully resolved URLs."""
from __future__ import annotations

import datetime
import re
from fractions import Fraction
from typing import Any
from urllib.parse import urljoin

from lxml import etree

NS = 'urn:mpeg:dash:schema:mpd:2011'
UTC = datetime.timezone.utc

DUR_RE = re.compile(r'^(-)?P(?:(\d+)Y)?(?:(\d+)M)?(?:(\d+)D)?(?:T(?:(\d+)H)?(?:(\d+)M)?(?:(\d+)(?:\.(\d+))?S)?)?$')
DT_RE = re.compile(r'^(-?\d{4,})-(\d{2})-(\d{2})T(\d{2}):(\d{2}):(\d{2})(?:\.(\d+))?(Z|[+-]\d{2}:\d{2})?$')
UINT_RE = re.compile(r'^\+?\d+$')


def q(tag: str) -> str:
    return f'{{{NS}}}{tag}'


def local(el) -> str:
    t = el.tag
    if not isinstance(t, str):
        return '#'
    return t.split('}')[-1]


def parse_duration_us(text: str) -> int | None:
    """xs:duration -> microseconds (None when lexically invalid). Y/M are rejected as the
    service never needs them (and their length is not fixed)."""
    m = DUR_RE.match(text.strip())
    if not m or text.strip() in ('P', 'PT') or text.strip().endswith('T'):
        return None
    neg, y, mo, d, h, mi, s, frac = m.groups()
    if y or mo:
        return None
    us = 0
    us += int(d or 0) * 86400 * 10**6
    us += int(h or 0) * 3600 * 10**6
    us += int(mi or 0) * 60 * 10**6
    us += int(s or 0) * 10**6
    if frac:
        us += int(Fraction(int(frac), 10**len(frac)) * 10**6)
    return -us if neg else us


def duration_fields(text: str) -> dict[str, Any] | None:
    m = DUR_RE.match(text.strip())
    if not m:
        return None
    neg, y, mo, d, h, mi, s, frac = m.groups()
    return {'neg': bool(neg), 'd': int(d or 0), 'h': int(h or 0), 'm': int(mi or 0), 's': int(s or 0),
            'frac': frac or '', 'has_h': h is not None, 'has_m': mi is not None, 'has_s': s is not None}


def parse_datetime(text: str) -> datetime.datetime | None:
    m = DT_RE.match(text.strip())
    if not m:
        return None
    y, mo, d, h, mi, s, frac, tz = m.groups()
    try:
        us = int((frac or '0').ljust(6, '0')[:6])
        if tz in (None, 'Z'):
            tzinfo = UTC
        else:
            sign = 1 if tz[0] == '+' else -1
            tzinfo = datetime.timezone(sign * datetime.timedelta(hours=int(tz[1:3]), minutes=int(tz[4:6])))
        return datetime.datetime(int(y), int(mo), int(d), int(h), int(mi), int(s), us, tzinfo=tzinfo)
    except ValueError:
        return None


class MpdError(Exception):
    pass


def parse_xml(body: bytes):
    parser = etree.XMLParser(recover=False, resolve_entities=False, huge_tree=True)
    return etree.fromstring(body, parser)


def expand_timeline(st_el) -> list[dict[str, int]]:
    """SegmentTimeline -> [{t, d}] fully expanded (r>=0 only; negative r is reported)."""
    out: list[dict[str, int]] = []
    t = None
    for s in st_el:
        if local(s) != 'S':
            continue
        d = int(s.get('d'))
        r = int(s.get('r', '0'))
        if s.get('t') is not None:
            t = int(s.get('t'))
        if t is None:
            t = 0
        for _ in range(max(0, r) + 1):
            out.append({'t': t, 'd': d})
            t += d
    return out


def _inherit(chain: list[Any], tag: str):
    for el in reversed(chain):
        c = el.find(q(tag))
        if c is not None:
            return c
    return None


def project(body: bytes, request_url: str) -> dict[str, Any]:
    """Project an MPD. request_url is the absolute URL it was fetched from."""
    root = parse_xml(body)
    if local(root) != 'MPD':
        raise MpdError(f'root element is {local(root)}')
    mpd: dict[str, Any] = {'attrs': dict(root.attrib), 'type': root.get('type', 'static'), 'periods': []}
    for name in ('availabilityStartTime', 'publishTime'):
        v = root.get(name)
        mpd[name] = parse_datetime(v) if v is not None else None
    for name in ('timeShiftBufferDepth', 'minimumUpdatePeriod', 'mediaPresentationDuration',
                 'suggestedPresentationDelay', 'minBufferTime', 'maxSegmentDuration'):
        v = root.get(name)
        mpd[name] = parse_duration_us(v) if v is not None else None
    mpd['id'] = root.get('id')
    loc = root.find(q('Location'))
    mpd['location'] = loc.text.strip() if loc is not None and loc.text else None
    pl = root.find(q('PatchLocation'))
    mpd['patch_location'] = pl.text.strip() if pl is not None and pl.text else None
    mpd['patch_ttl'] = pl.get('ttl') if pl is not None else None
    base0 = request_url
    b = root.find(q('BaseURL'))
    if b is not None and b.text:
        base0 = urljoin(base0, b.text.strip())
    for p_el in root.findall(q('Period')):
        period: dict[str, Any] = {
            'id': p_el.get('id'),
            'start': parse_duration_us(p_el.get('start')) if p_el.get('start') is not None else None,
            'duration': parse_duration_us(p_el.get('duration')) if p_el.get('duration') is not None else None,
            'start_raw': p_el.get('start'), 'duration_raw': p_el.get('duration'),
            'adaptation_sets': [], 'event_streams': []}
        base1 = base0
        b = p_el.find(q('BaseURL'))
        if b is not None and b.text:
            base1 = urljoin(base1, b.text.strip())
        for es in p_el.findall(q('EventStream')):
            period['event_streams'].append(_event_stream(es))
        for a_el in p_el.findall(q('AdaptationSet')):
            adp: dict[str, Any] = {'id': a_el.get('id'), 'contentType': a_el.get('contentType'),
                                   'mimeType': a_el.get('mimeType'), 'representations': [],
                                   'inband_event_streams': [dict(x.attrib) for x in a_el.findall(q('InbandEventStream'))],
                                   'content_protection': [_cp(x) for x in a_el.findall(q('ContentProtection'))]}
            base2 = base1
            b = a_el.find(q('BaseURL'))
            if b is not None and b.text:
                base2 = urljoin(base2, b.text.strip())
            for r_el in a_el.findall(q('Representation')):
                rep: dict[str, Any] = {'id': r_el.get('id'), 'bandwidth': r_el.get('bandwidth'),
                                       'mimeType': r_el.get('mimeType') or a_el.get('mimeType'),
                                       'content_protection': [_cp(x) for x in r_el.findall(q('ContentProtection'))]}
                base3 = base2
                b = r_el.find(q('BaseURL'))
                if b is not None and b.text:
                    base3 = urljoin(base3, b.text.strip())
                rep['base'] = base3
                chain = [p_el, a_el, r_el]
                st = _inherit(chain, 'SegmentTemplate')
                if st is not None:
                    tmpl = {k: st.get(k) for k in ('startNumber', 'timescale', 'duration', 'initialization',
                                                   'media', 'presentationTimeOffset')}
                    tl = st.find(q('SegmentTimeline'))
                    rep['template'] = tmpl
                    rep['timeline'] = expand_timeline(tl) if tl is not None else None
                else:
                    rep['template'] = None
                    rep['timeline'] = None
                sl = _inherit(chain, 'SegmentList')
                if sl is not None:
                    init = sl.find(q('Initialization'))
                    rep['segment_list'] = {
                        'timescale': sl.get('timescale'), 'duration': sl.get('duration'),
                        'init_range': init.get('range') if init is not None else None,
                        'media_ranges': [s.get('mediaRange') for s in sl.findall(q('SegmentURL'))]}
                else:
                    rep['segment_list'] = None
                adp['representations'].append(rep)
            period['adaptation_sets'].append(adp)
        mpd['periods'].append(period)
    return mpd


def _cp(el) -> dict[str, Any]:
    out: dict[str, Any] = {'attrs': {local_attr(k): v for k, v in el.attrib.items()}, 'children': {}}
    for c in el:
        if isinstance(c.tag, str):
            out['children'][local(c)] = (c.text or '').strip()
    return out


def local_attr(k: str) -> str:
    return k.split('}')[-1]


def _event_stream(es) -> dict[str, Any]:
    return {'attrs': dict(es.attrib),
            'events': [{'attrs': dict(e.attrib), 'text': (e.text or '').strip(),
                        'children': [local(c) for c in e if isinstance(c.tag, str)],
                        'el': e} for e in es if local(e) == 'Event']}


def fill_template(tmpl: str, rep_id: str, bandwidth: str | None, number: int | None = None,
                  time: int | None = None) -> str:
    """Substitute DASH template identifiers ($$ -> $). Width formatting %0Nd supported."""
    def sub(m: re.Match) -> str:
        name, fmt = m.group(1), m.group(2)
        if name == '':
            return '$'
        val: Any
        if name == 'RepresentationID':
            return rep_id
        if name == 'Number':
            val = number
        elif name == 'Time':
            val = time
        elif name == 'Bandwidth':
            val = int(bandwidth or 0)
        else:
            raise MpdError(f'unknown template identifier ${name}$')
        if val is None:
            raise MpdError(f'${name}$ used but no value available')
        if fmt:
            return fmt % val
        return str(val)
    return re.sub(r'\$(\w*)(%0\d+d)?\$', sub, tmpl)


def template_identifiers(tmpl: str) -> list[str]:
    return [m.group(1) for m in re.finditer(r'\$(\w*)(?:%0\d+d)?\$', tmpl)]


def skeleton(body: bytes) -> list[Any]:
    """Element skeleton: tags + sorted attribute names, in document order (C05)."""
    root = parse_xml(body)

    def sk(el) -> list[Any]:
        return [local(el), sorted(local_attr(k) for k in el.attrib),
                [sk(c) for c in el if isinstance(c.tag, str)]]
    return sk(root)
