"""Command-line entry: ./check <Cxx> [--tier quick|thorough]"""
from __future__ import annotations

import argparse
import importlib
import sys

from harness.core import MachineryFailure, tier


def main() -> None:
    ap = argparse.ArgumentParser()
    ap.add_argument('target')
    ap.add_argument('--tier', default=None)
    ap.add_argument('--replay', default=None)
    args = ap.parse_args()
    t = tier(args.tier)
    name = args.target.lower()
    try:
        if name in ('setup', 'selftest'):
            mod = importlib.import_module(f'harness.{name}')
            code = mod.main()
        else:
            mod = importlib.import_module(f'checks.{name}')
            code = mod.main(t)
    except MachineryFailure as err:
        print(f'MACHINERY-FAILURE: {err}', file=sys.stderr)
        sys.exit(2)
    except Exception as err:      # noqa: BLE001  - an unexpected exception is never a verdict
        import traceback
        traceback.print_exc()
        print(f'MACHINERY-FAILURE: unexpected {type(err).__name__}: {err}', file=sys.stderr)
        sys.exit(2)
    sys.exit(code)


if __name__ == '__main__':
    main()
