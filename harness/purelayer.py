"""Drives the real pure timing layer (DashTiming, Representation, LiveMedia's index
calculation) with the layouts and states of the TLA+ small-scope model."""
from __future__ import annotations

import datetime
import sys
from typing import Any

from harness.core import REPO, VERIF

for p in (str(REPO), str(VERIF / 'shims')):
    if p not in sys.path:
        sys.path.insert(0, p)

AST = datetime.datetime(2024, 3, 1, 0, 0, 0, tzinfo=datetime.timezone.utc)


class PureLayer:
    def __init__(self, layouts: dict[str, Any], q: int) -> None:
        from dashlive.server.options.repository import OptionsRepository
        self.layouts = layouts
        self.q = q
        self.defaults = OptionsRepository.get_default_options()
        self.OptionsRepository = OptionsRepository

    def make(self, lay: str, e: int, o: dict[str, Any], mode: str = 'live'):
        from dashlive.mpeg.dash.reference import StreamTimingReference
        from dashlive.mpeg.dash.representation import Representation
        from dashlive.mpeg.dash.segment import Segment
        from dashlive.mpeg.dash.timing import DashTiming
        from dashlive.utils.timezone import UTC
        L = self.layouts[lay]
        rl, fl = L['rep'], L['ref']
        ref = StreamTimingReference(
            media_name='ref', media_duration=fl['mediaDur'],
            num_media_segments=max(1, fl['mediaDur'] // fl['segDur']),
            segment_duration=fl['segDur'], timescale=fl['ts'])
        ast = AST.replace(tzinfo=UTC())
        now = ast + datetime.timedelta(microseconds=(e * 1_000_000) // self.q)
        args = {'start': ast.strftime('%Y-%m-%dT%H:%M:%SZ')}
        if 'depth' in o:
            args['depth'] = str(o['depth'])
        if 'leeway' in o:
            args['leeway'] = str(o['leeway'])
        if 'mup' in o and o['mup'] is not None:
            args['mup'] = str(o['mup'])
        options = self.OptionsRepository.convert_cgi_options(args, self.defaults)
        options.add_field('mode', mode)
        timing = DashTiming(now, ref, options)
        segs = [Segment(pos=0, duration=0, size=10)]
        pos = 10
        for d in rl['durs']:
            segs.append(Segment(pos=pos, size=100, duration=d))
            pos += 100
        rep = Representation(content_type='video', segments=segs, timescale=rl['ts'],
                             segment_duration=rl['segdur'], start_number=rl['sn'], start_time=rl['st'])
        rep.set_dash_timing(timing)
        return ref, timing, rep

    @staticmethod
    def expand(timeline) -> list[dict[str, int]]:
        out = []
        t = None
        for el in timeline:
            if el.start is not None:
                t = el.start
            for _ in range(el.count):
                out.append({'t': t, 'd': el.duration})
                t += el.duration
        return out

    @staticmethod
    def serve(mode: str, rep, timing, by: str, key: int) -> dict[str, int]:
        from dashlive.server.requesthandler.media_requests import LiveMedia
        try:
            if by == 'number':
                mod, origin, seq = LiveMedia.calculate_media_segment_index(None, mode, rep, timing, key, None)
            else:
                mod, origin, seq = LiveMedia.calculate_media_segment_index(None, mode, rep, timing, None, key)
        except ValueError:
            return {'status': 404, 'mod': 0, 'origin': 0, 'seq': 0}
        except Exception:
            # the request handler turns ValueError into 404; anything else leaves it as a 500
            return {'status': 500, 'mod': 0, 'origin': 0, 'seq': 0}
        # generate_media_segment asserts these before loading the fragment
        if not (isinstance(mod, int) and isinstance(origin, int) and 0 <= mod <= rep.num_media_segments):
            return {'status': 500, 'mod': 0, 'origin': 0, 'seq': 0}
        return {'status': 200, 'mod': int(mod), 'origin': int(origin), 'seq': int(seq)}

    def observe_live(self, tid: int, s: dict[str, Any]) -> dict[str, Any]:
        """Run one model state on the real code; returns the trace line."""
        ref, timing, rep = self.make(s['lay'], s['e'], s['o'])
        try:
            tl = self.expand(rep.generateSegmentTimeline())
        except Exception:
            # the manifest that would carry this timeline is a 500: nothing is advertised by $Time$ (the trace spec
            # compares the timeline with the model's, so the loss is reported, not hidden)
            tl = []
        first, last = rep.calculate_first_and_last_segment_number()
        nkeys = list(s['nkeys'])
        line = {
            'tid': tid, 'lay': s['lay'], 'e': s['e'], 'o': s['o'],
            'tsbd': int(timing.timeShiftBufferDepth), 'first': int(first), 'last': int(last),
            'timeline': tl, 'nkeys': nkeys,
            'nserve': [self.serve('live', rep, timing, 'number', n) for n in nkeys],
            'tserve': [self.serve('live', rep, timing, 'time', x['t']) for x in tl],
        }
        return line


def observe_static(pl: PureLayer, tid: int, s: dict[str, Any]) -> dict[str, Any]:
    """Static (vod) mode of one layout on the real code, in the line format of
    LiveWindowHttpTrace.CheckStatic (two lines: $Time$ and $Number$ addressing)."""
    raise NotImplementedError


def static_lines(pl: PureLayer, tid: int, s: dict[str, Any]) -> list[dict[str, Any]]:
    name = s['lay']
    pl.layouts[name] = s['layout']
    ref, timing, rep = pl.make(name, 40, {'depth': 30, 'leeway': 0}, mode='vod')
    rl, fl = s['layout']['rep'], s['layout']['ref']
    R = fl['mediaDur'] * rl['ts'] // fl['ts']
    ref_lo = fl['mediaDur'] * 1000 // fl['ts']
    ref_hi = -((-fl['mediaDur'] * 1000) // fl['ts'])
    # the declared duration as a manifest would carry it: rendered by the project's formatter, read by our parser
    from dashlive.utils.date_time import toIsoDuration
    from harness import mpd as _M
    mpd_us = _M.parse_duration_us(toIsoDuration(timing.mediaDuration))
    common = {'tid': tid, 'ev': 'rep', 'mode': 'vod', 'rep': name, 'ts': rl['ts'], 'D': rl['segdur'], 'sn': rl['sn'],
              'durs': rl['durs'], 'st': rl['st'], 'R': R, 'init': 200, 'url': f'pure:{name}', 'now': '',
              'mpd_dur_ms': mpd_us // 1000 if mpd_us % 1000 == 0 else -1, 'ref_ms_lo': ref_lo, 'ref_ms_hi': ref_hi}

    def resp(by: str, key: int) -> dict[str, Any]:
        sv = pl.serve('vod', rep, timing, by, key)
        if sv['status'] != 200 or not (1 <= sv['mod'] <= len(rl['durs'])):
            return {'status': sv['status'] if sv['status'] != 200 else 500, 'tfdt': 0, 'seq': 0, 'dur': 0, 'mod': 0,
                    'mods': [], 'tmodr': 0, 'payload_ok': 0, 'wf': 0}
        tfdt = rl['st'] + sum(rl['durs'][:sv['mod'] - 1]) + sv['origin']
        return {'status': 200, 'tfdt': tfdt, 'seq': sv['seq'], 'dur': rl['durs'][sv['mod'] - 1], 'mod': sv['mod'],
                'mods': [sv['mod']], 'tmodr': tfdt % R, 'payload_ok': 1, 'wf': 1}
    tl = pl.expand(rep.generateSegmentTimeline())
    first, last = rep.calculate_first_and_last_segment_number()
    nums = list(range(rl['sn'], rl['sn'] + len(rl['durs'])))
    ln = {**common, 'by': 'number', 'tl': [], 'keys': nums, 'serve': [resp('number', n) for n in nums],
          'past': resp('number', rl['sn'] + len(rl['durs']))['status'], 'first': first, 'last': last}
    past_t = tl[-1]['t'] + tl[-1]['d'] if tl else 0
    lt = {**common, 'by': 'time', 'tl': tl, 'keys': [x['t'] for x in tl], 'serve': [resp('time', x['t']) for x in tl],
          'past': resp('time', past_t)['status']}
    return [ln, lt]
