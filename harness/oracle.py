#!/usr/bin/env python3
"""Primitive oracles called by the TLA+ specification through IOExec (DrmData.tla):
  oracle.py sha256 <hex>            -> hex digest (hashlib; the repository uses pycryptodome)
  oracle.py aes128ecb <hexkey> <hexblock>  -> hex ciphertext of one block (pure Python AES-128,
                                             checked against FIPS-197 appendix C.1 by `selftest`)
The spec decides *what* is hashed / encrypted; only the primitives are trusted."""
import hashlib
import sys

SBOX = None


def _init():
    global SBOX
    p = q = 1
    s = [0] * 256
    while True:
        p = p ^ ((p << 1) & 0xFF) ^ (0x1B if p & 0x80 else 0)
        q ^= q << 1
        q ^= q << 2
        q ^= q << 4
        q &= 0xFF
        if q & 0x80:
            q ^= 0x09
        x = q ^ ((q << 1) | (q >> 7)) & 0xFF ^ ((q << 2) | (q >> 6)) & 0xFF ^ ((q << 3) | (q >> 5)) & 0xFF ^ ((q << 4) | (q >> 4)) & 0xFF
        s[p] = (x ^ 0x63) & 0xFF
        if p == 1:
            break
    s[0] = 0x63
    SBOX = s


def xtime(a):
    return ((a << 1) ^ 0x1B) & 0xFF if a & 0x80 else (a << 1)


def aes128_encrypt_block(key: bytes, block: bytes) -> bytes:
    if SBOX is None:
        _init()
    assert len(key) == 16 and len(block) == 16
    w = [list(key[i:i + 4]) for i in range(0, 16, 4)]
    rcon = 1
    for i in range(4, 44):
        t = list(w[i - 1])
        if i % 4 == 0:
            t = t[1:] + t[:1]
            t = [SBOX[b] for b in t]
            t[0] ^= rcon
            rcon = xtime(rcon)
        w.append([a ^ b for a, b in zip(w[i - 4], t)])
    st = [block[i] for i in range(16)]

    def add(rk):
        for c in range(4):
            for r in range(4):
                st[4 * c + r] ^= w[4 * rk + c][r]
    add(0)
    for rnd in range(1, 11):
        st[:] = [SBOX[b] for b in st]
        # shift rows (state is column-major)
        st[:] = [st[4 * ((c + r) % 4) + r] for c in range(4) for r in range(4)]
        if rnd != 10:
            for c in range(4):
                a = st[4 * c:4 * c + 4]
                t = a[0] ^ a[1] ^ a[2] ^ a[3]
                st[4 * c + 0] = a[0] ^ t ^ xtime(a[0] ^ a[1])
                st[4 * c + 1] = a[1] ^ t ^ xtime(a[1] ^ a[2])
                st[4 * c + 2] = a[2] ^ t ^ xtime(a[2] ^ a[3])
                st[4 * c + 3] = a[3] ^ t ^ xtime(a[3] ^ a[0])
        add(rnd)
    return bytes(st)


def selftest() -> bool:
    k = bytes.fromhex('000102030405060708090a0b0c0d0e0f')
    p = bytes.fromhex('00112233445566778899aabbccddeeff')
    ok = aes128_encrypt_block(k, p).hex() == '69c4e0d86a7b0430d8cdb78070b4c55a'
    ok = ok and hashlib.sha256(b'abc').hexdigest() == 'ba7816bf8f01cfea414140de5dae2223b00361a396177a9cb410ff61f20015ad'
    return ok


if __name__ == '__main__':
    cmd = sys.argv[1]
    if cmd == 'sha256':
        sys.stdout.write(hashlib.sha256(bytes.fromhex(sys.argv[2])).hexdigest())
    elif cmd == 'aes128ecb':
        sys.stdout.write(aes128_encrypt_block(bytes.fromhex(sys.argv[2]), bytes.fromhex(sys.argv[3])).hex())
    elif cmd == 'selftest':
        sys.exit(0 if selftest() else 1)
    else:
        sys.exit(2)
