"""HTTP-level driver: fetches a manifest from the real service at a controlled clock,
fetches what it advertises through the URLs it spells out, and projects everything to
trace lines for LiveWindowHttpTrace (C01, C02, C06; C03 fields are carried along)."""
from __future__ import annotations

import datetime
from typing import Any
from urllib.parse import urljoin, urlsplit

from harness import mpd as M
from harness.app import DashApp
from harness.stored import StoredFile, project_media, stored

HOST = 'http://localhost'


def path_of(url: str) -> str:
    u = urlsplit(url)
    return u.path + (('?' + u.query) if u.query else '')


class HttpDriver:
    def __init__(self, da: DashApp) -> None:
        self.da = da
        self.client = da.client()
        self.requests = 0
        self._ref: dict[str, tuple[int, int]] = {}

    # -- stored media ----------------------------------------------------------------------
    def stored_for(self, stream: str, rep_id: str) -> StoredFile | None:
        p = self.da.blob_folder / stream / f'{rep_id}.mp4'
        if not p.exists():
            return None
        return stored(p)

    def reference(self, stream: str) -> tuple[int, int]:
        """(media duration, timescale) of the stream's timing reference, measured by the
        independent scan of the reference file named in the stream's configuration."""
        if stream not in self._ref:
            from dashlive.server import models
            with self.da.app.app_context():
                s = models.Stream.get(directory=stream)
                name = s.timing_reference.media_name
            sf = self.stored_for(stream, name)
            self._ref[stream] = (sf.media_duration, sf.timescale)
        return self._ref[stream]

    def get(self, url: str, headers: dict[str, str] | None = None):
        self.requests += 1
        return self.client.get(path_of(url), headers=headers or {})

    # -- live ------------------------------------------------------------------------------
    def live_manifest(self, tid: int, stream: str, tmpl: str, query: str, now: datetime.datetime,
                      limit: int = 40) -> list[dict[str, Any]]:
        self.da.clock.set(now)
        url = f'{HOST}/dash/live/{stream}/{tmpl}' + (('?' + query) if query else '')
        r = self.get(url)
        if r.status_code != 200:
            return [{'tid': tid, 'ev': 'manifest_refused', 'status': r.status_code, 'url': url}]
        try:
            proj = M.project(r.data, url)
        except Exception as err:    # not well-formed: C05's business; nothing to walk here
            return [{'tid': tid, 'ev': 'manifest_unparsable', 'url': url, 'err': str(err)[:200]}]
        lines: list[dict[str, Any]] = []
        ast = proj['availabilityStartTime']
        if proj['type'] != 'dynamic' or ast is None:
            return [{'tid': tid, 'ev': 'manifest_not_dynamic', 'url': url}]
        elapsed_us = _us(now - ast)
        tsbd_us = proj['timeShiftBufferDepth'] or 0
        ref_dur, ref_ts = self.reference(stream)
        for period in proj['periods']:
            pstart = period['start'] or 0
            for adp in period['adaptation_sets']:
                for rep in adp['representations']:
                    lines.append(self._live_rep(tid, url, stream, now, elapsed_us - pstart, tsbd_us, ref_dur, ref_ts,
                                                adp, rep, limit))
        return lines

    def _live_rep(self, tid, url, stream, now, elapsed_us, tsbd_us, ref_dur, ref_ts, adp, rep, limit):
        tm = rep['template']
        rid = rep['id']
        sf = self.stored_for(stream, rid)
        line: dict[str, Any] = {'tid': tid, 'ev': 'rep', 'mode': 'live', 'url': url, 'rep': rid,
                                'ctype': adp['contentType'], 'now': now.isoformat()}
        if tm is None or sf is None or tm.get('media') is None:
            line['ev'] = 'rep_unsupported'
            return line
        ts = int(tm['timescale'] or 1)
        sn = int(tm['startNumber'] or 1)
        D = int(tm['duration']) if tm.get('duration') else 0
        by = 'time' if '$Time$' in tm['media'] else 'number'
        efloor = elapsed_us * ts // 10**6
        eceil = -((-elapsed_us * ts) // 10**6)
        tsbd_ticks = tsbd_us * ts // 10**6
        R = ref_dur * ts // ref_ts
        init_url = urljoin(rep['base'], M.fill_template(tm['initialization'], rid, rep['bandwidth']))
        ri = self.get(init_url)
        line.update({'by': by, 'ts': ts, 'D': D if D else max(sf.durs), 'tsbd': tsbd_us // 10**6, 'R': R,
                     'durs': sf.durs, 'st': sf.segments[0].tfdt, 'init': ri.status_code, 'partial': 0,
                     'init_url': path_of(init_url)})
        keys: list[int] = []
        serve: list[dict[str, Any]] = []
        if by == 'number':
            nb = max(sn, sn + (efloor - tsbd_ticks) // D - 3)
            nhi = sn + max(efloor, 0) // D + 1
            cand = list(range(nb, nhi + 1))
            if len(cand) > limit:
                h = limit // 3
                step = max(1, (len(cand) - 2 * h) // h)
                cand = cand[:h] + cand[h:-h:step] + cand[-h:]
                line['partial'] = 1
            B = (nb - sn) * D
            line.update({'base': str(B), 'nb': str(nb), 'ef': efloor - B, 'ec': eceil - B, 'tl': []})
            for n in cand:
                u = urljoin(rep['base'], M.fill_template(tm['media'], rid, rep['bandwidth'], number=n))
                rr = self.get(u)
                keys.append(n - nb)
                serve.append(self._resp(rr, sf, B, nb, R))
            line['sample_url'] = path_of(u) if cand else ''
        else:
            tl = rep['timeline'] or []
            B = tl[0]['t'] if tl else 0
            line.update({'base': str(B), 'ef': efloor - B, 'ec': eceil - B})
            idx = list(range(len(tl)))
            if len(idx) > limit:
                h = limit // 3
                step = max(1, (len(idx) - 2 * h) // h)
                idx = idx[:h] + idx[h:-h:step] + idx[-h:]
                line['partial'] = 1
            sub = [tl[i] for i in idx]
            # a partial walk keeps only the fetched entries; gaplessness is then judged on the full list
            line['tl'] = [{'t': x['t'] - B, 'd': x['d']} for x in sub]
            line['gapless_full'] = 1 if all(tl[i]['t'] + tl[i]['d'] == tl[i + 1]['t'] for i in range(len(tl) - 1)) else 0
            u = ''
            for x in sub:
                u = urljoin(rep['base'], M.fill_template(tm['media'], rid, rep['bandwidth'], time=x['t']))
                rr = self.get(u)
                keys.append(x['t'] - B)
                serve.append(self._resp(rr, sf, B, 0, R))
            line['sample_url'] = path_of(u)
        line['keys'] = keys
        line['serve'] = serve
        return line

    def _resp(self, rr, sf: StoredFile, B: int, nb: int, R: int) -> dict[str, Any]:
        out = {'status': rr.status_code, 'tfdt': 0, 'seq': 0, 'dur': 0, 'mod': 0, 'mods': [], 'tmodr': 0, 'payload_ok': 0, 'wf': 0}
        if rr.status_code == 200:
            pm = project_media(rr.data, sf)
            out.update({'tfdt': pm['tfdt'] - B, 'seq': pm['seq'] - nb, 'dur': pm['dur'], 'mod': pm['mod'], 'mods': pm['mods'],
                        'tmodr': pm['tfdt'] % R, 'payload_ok': pm['payload_ok'], 'wf': pm['wf'],
                        'trun_ok': pm['trun_ok'], 'sizes_ok': pm['sizes_ok'], 'saio_ok': pm['saio_ok'],
                        'senc_n_ok': pm['senc_n_ok'], 'tfdt_v': pm['tfdt_v']})
            # keep rebased values inside 31 bits; anything else is reported through a flag
            for k in ('tfdt', 'seq'):
                if abs(out[k]) >= 2**31:
                    out[k] = 2**31 - 1 if out[k] > 0 else -(2**31 - 1)
        return out


def _us(td: datetime.timedelta) -> int:
    return (td.days * 86400 + td.seconds) * 10**6 + td.microseconds


# ---------------------------------------------------------------------------------------
# static (vod / odvod) manifests: C06
# ---------------------------------------------------------------------------------------
def _ms_bounds(num: int, den: int) -> tuple[int, int]:
    """floor and ceil of num/den seconds in milliseconds"""
    lo = num * 1000 // den
    hi = -((-num * 1000) // den)
    return lo, hi


class StaticDriver(HttpDriver):
    def static_manifest(self, tid: int, stream: str, tmpl: str, mode: str, query: str,
                        now: datetime.datetime) -> list[dict[str, Any]]:
        self.da.clock.set(now)
        url = f'{HOST}/dash/{mode}/{stream}/{tmpl}' + (('?' + query) if query else '')
        r = self.get(url)
        if r.status_code != 200:
            return [{'tid': tid, 'ev': 'manifest_refused', 'status': r.status_code, 'url': url}]
        try:
            proj = M.project(r.data, url)
        except Exception as err:
            return [{'tid': tid, 'ev': 'manifest_unparsable', 'url': url, 'err': str(err)[:200]}]
        ref_dur, ref_ts = self.reference(stream)
        ref_lo, ref_hi = _ms_bounds(ref_dur, ref_ts)
        if proj['mediaPresentationDuration'] is not None:
            mpd_us = proj['mediaPresentationDuration']
        else:
            mpd_us = sum((p['duration'] or 0) for p in proj['periods'])
        common = {'tid': tid, 'url': url, 'now': now.isoformat(), 'type': proj['type'],
                  'mpd_dur_ms': mpd_us // 1000 if mpd_us % 1000 == 0 else -1, 'mpd_dur_us': str(mpd_us),
                  'ref_ms_lo': ref_lo, 'ref_ms_hi': ref_hi}
        lines: list[dict[str, Any]] = []
        for period in proj['periods']:
            for adp in period['adaptation_sets']:
                for rep in adp['representations']:
                    sf = self.stored_for(stream, rep['id'])
                    if sf is None:
                        lines.append({**common, 'ev': 'rep_unsupported', 'rep': rep['id']})
                        continue
                    if rep['segment_list'] is not None:
                        lines.append(self._ondemand_rep(common, rep, sf))
                    elif rep['template'] is not None and rep['template'].get('media'):
                        lines.append(self._static_rep(common, stream, rep, sf, ref_dur, ref_ts))
                    else:
                        lines.append({**common, 'ev': 'rep_unsupported', 'rep': rep['id']})
        return lines

    def _static_rep(self, common, stream, rep, sf: StoredFile, ref_dur: int, ref_ts: int) -> dict[str, Any]:
        tm = rep['template']
        rid = rep['id']
        ts = int(tm['timescale'] or 1)
        sn = int(tm['startNumber'] or 1)
        D = int(tm['duration']) if tm.get('duration') else max(sf.durs)
        by = 'time' if '$Time$' in tm['media'] else 'number'
        R = ref_dur * ts // ref_ts
        line = {**common, 'ev': 'rep', 'mode': 'vod', 'rep': rid, 'by': by, 'ts': ts, 'D': D, 'sn': sn,
                'durs': sf.durs, 'st': sf.segments[0].tfdt, 'R': R}
        ri = self.get(urljoin(rep['base'], M.fill_template(tm['initialization'], rid, rep['bandwidth'])))
        line['init'] = ri.status_code
        keys: list[int] = []
        serve = []
        u = ''
        if by == 'number':
            line['tl'] = []
            n_stored = len(sf.durs)
            for n in range(sn, sn + n_stored):
                u = urljoin(rep['base'], M.fill_template(tm['media'], rid, rep['bandwidth'], number=n))
                keys.append(n)
                serve.append(self._resp(self.get(u), sf, 0, 0, R))
            pu = urljoin(rep['base'], M.fill_template(tm['media'], rid, rep['bandwidth'], number=sn + n_stored))
            line['past'] = self.get(pu).status_code
        else:
            tl = rep['timeline'] or []
            line['tl'] = tl
            for x in tl:
                u = urljoin(rep['base'], M.fill_template(tm['media'], rid, rep['bandwidth'], time=x['t']))
                keys.append(x['t'])
                serve.append(self._resp(self.get(u), sf, 0, 0, R))
            past_t = (tl[-1]['t'] + tl[-1]['d']) if tl else 0
            pu = urljoin(rep['base'], M.fill_template(tm['media'], rid, rep['bandwidth'], time=past_t))
            line['past'] = self.get(pu).status_code
        line['keys'] = keys
        line['serve'] = serve
        line['sample_url'] = path_of(u)
        line['past_url'] = path_of(pu)
        return line

    def _ondemand_rep(self, common, rep, sf: StoredFile) -> dict[str, Any]:
        sl = rep['segment_list']
        rid = rep['id']

        def rng(s: str | None) -> list[int]:
            if not s or '-' not in s:
                return [-1, -1]
            a, b = s.split('-', 1)
            try:
                return [int(a), int(b)]
            except ValueError:
                return [-1, -1]
        line = {**common, 'ev': 'ondemand', 'mode': 'odvod', 'rep': rid, 'base_url': path_of(rep['base']),
                'init_range': rng(sl['init_range']), 'media_ranges': [rng(x) for x in sl['media_ranges']],
                'seg_pos': [s.pos for s in sf.segments], 'seg_end': [s.pos + s.size for s in sf.segments],
                'init_end': sf.init_end, 'flen': len(sf.data),
                'init_start': next((pos for typ, pos, size in sf.layout if typ == 'ftyp'), 0)}
        # bytes between consecutive ranges (none when the ranges tile the file): which whole top-level boxes lie there?
        rs = [line['init_range']] + line['media_ranges']
        gaps = [(rs[i][1] + 1, rs[i + 1][0]) for i in range(len(rs) - 1) if rs[i][1] + 1 < rs[i + 1][0]]
        line['gap_kinds'] = [typ for typ, pos, size in sf.layout if any(ga <= pos and pos + size <= gb for ga, gb in gaps)]
        line['gap_bytes'] = sum(gb - ga for ga, gb in gaps)
        line['gap_box_bytes'] = sum(size for typ, pos, size in sf.layout if any(ga <= pos and pos + size <= gb for ga, gb in gaps))
        fetched = []
        for a, b in [line['init_range']] + line['media_ranges']:
            rr = self.get(rep['base'], headers={'Range': f'bytes={a}-{b}'})
            ok = 1 if (rr.status_code == 206 and rr.data == sf.data[a:b + 1]) else 0
            fetched.append({'status': rr.status_code, 'ok': ok, 'a': a, 'b': b})
        line['fetched'] = fetched
        return line
