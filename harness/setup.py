"""./check setup : offline build step. Parses every spec module with SANY and runs the
projection self-tests.  Nothing is compiled; the repository is pure Python."""
from __future__ import annotations

import sys
from pathlib import Path

from harness.core import SPEC, MachineryFailure, sany, scratch


def main() -> int:
    bad = 0
    with scratch() as d:
        for mod in sorted(SPEC.glob('*.tla')):
            try:
                sany(mod, d)
            except MachineryFailure as err:
                print(err, file=sys.stderr)
                bad += 1
    try:
        from harness import selfcheck
        bad += selfcheck.main()
    except ImportError:
        pass
    print(f'setup: {"ok" if bad == 0 else "FAILED"}')
    return 0 if bad == 0 else 2
