"""Independent scan of a stored fragmented MP4 file (walker only): the ground truth the
HTTP-level checks compare responses with."""
from __future__ import annotations

import hashlib
import struct
from pathlib import Path
from typing import Any

from harness.walker import Parsed, top_level_layout


class StoredSegment:
    __slots__ = ('index', 'pos', 'size', 'tfdt', 'has_tfdt', 'dur', 'seq', 'payload_sha', 'payload_len',
                 'nsamples', 'boxes')

    def __init__(self) -> None:
        self.index = 0
        self.pos = 0
        self.size = 0
        self.tfdt = 0
        self.has_tfdt = False
        self.dur = 0
        self.seq = 0
        self.payload_sha = ''
        self.payload_len = 0
        self.nsamples = 0
        self.boxes: list[str] = []


class StoredFile:
    def __init__(self, path: Path) -> None:
        self.path = Path(path)
        self.data = self.path.read_bytes()
        self.layout = top_level_layout(self.data)
        self.timescale = 0
        self.default_sample_duration = 0
        self.init_end = 0
        self.segments: list[StoredSegment] = []
        self.iv_size: int | None = None
        self.encrypted = False
        self.has_mehd = False
        self._scan()
        self.by_sha: dict[str, list[StoredSegment]] = {}
        for s in self.segments:
            self.by_sha.setdefault(s.payload_sha, []).append(s)

    def _scan(self) -> None:
        data = self.data
        # init segment = everything before the first moof (or sidx preceding it)
        first_media = None
        for typ, pos, size in self.layout:
            if typ in ('moof',):
                first_media = pos
                break
        assert first_media is not None, f'{self.path}: no moof'
        # a sidx / styp directly before the first moof belongs to the media part in this service's
        # indexer only if it follows the moov: the indexer extends the *previous* segment with sidx,
        # so the init segment runs up to the first moof.
        self.init_end = first_media
        init = Parsed(data[:first_media])
        mdhd = init.find('moov', 'trak', 'mdia', 'mdhd')
        self.timescale = mdhd.f['timescale'] if mdhd else 0
        trex = init.find('moov', 'mvex', 'trex')
        self.default_sample_duration = trex.f.get('default_sample_duration', 0) if trex else 0
        self.has_mehd = init.find('moov', 'mvex', 'mehd') is not None
        for b in init.boxes():
            if b.name == 'tenc':
                self.encrypted = True
                self.iv_size = b.f.get('iv_size')
        cur: StoredSegment | None = None
        end_time = 0
        for typ, pos, size in self.layout:
            if pos < first_media:
                continue
            if typ == 'moof':
                cur = StoredSegment()
                cur.index = len(self.segments) + 1
                cur.pos = pos
                cur.size = size
                moof = Parsed(data[pos:pos + size], iv_size=self.iv_size)
                mfhd = moof.find('moof', 'mfhd')
                cur.seq = mfhd.f['sequence_number'] if mfhd else 0
                traf = moof.find('moof', 'traf')
                tfhd = traf.find('tfhd')
                trun = traf.find('trun')
                tfdt = traf.find('tfdt')
                dsd = tfhd.f.get('default_sample_duration', self.default_sample_duration)
                durs = [d if d is not None else dsd for d in trun.f['durations']]
                cur.dur = sum(durs)
                cur.nsamples = trun.f['sample_count']
                if tfdt is not None:
                    cur.tfdt = tfdt.f['base_media_decode_time']
                    cur.has_tfdt = True
                else:
                    cur.tfdt = end_time
                end_time = cur.tfdt + cur.dur
                cur.boxes = ['moof']
                self.segments.append(cur)
            elif cur is not None:
                cur.size = pos + size - cur.pos
                cur.boxes.append(typ)
                if typ == 'mdat':
                    hdr = 8
                    if struct.unpack_from('>I', data, pos)[0] == 1:
                        hdr = 16
                    payload = data[pos + hdr:pos + size]
                    cur.payload_len += len(payload)
                    cur.payload_sha = hashlib.sha1(payload).hexdigest()

    @property
    def durs(self) -> list[int]:
        return [s.dur for s in self.segments]

    @property
    def media_duration(self) -> int:
        return sum(self.durs)

    def summary(self) -> dict[str, Any]:
        return {'ts': self.timescale, 'n': len(self.segments), 'durs': self.durs,
                'first_tfdt': self.segments[0].tfdt if self.segments else 0,
                'encrypted': self.encrypted, 'iv': self.iv_size}


_CACHE: dict[str, StoredFile] = {}


def stored(path: Path) -> StoredFile:
    k = str(path)
    if k not in _CACHE:
        _CACHE[k] = StoredFile(path)
    return _CACHE[k]


def project_media(body: bytes, sf: StoredFile) -> dict[str, Any]:
    """Project a media-segment response to the abstract state used by the trace specs."""
    out: dict[str, Any] = {'mods': [], 'wf': 0, 'tfdt': 0, 'tfdt_v': 0, 'seq': 0, 'dur': 0, 'mod': 0, 'payload_ok': 0,
                           'trun_ok': 0, 'sizes_ok': 0, 'saio_ok': -1, 'senc_n_ok': -1, 'nemsg': 0,
                           'has_sidx': 0, 'problems': []}
    p = Parsed(body, iv_size=sf.iv_size)
    out['wf'] = 1 if p.well_formed() else 0
    out['problems'] = p.problems[:3]
    moofs = p.all_top('moof')
    mdats = p.all_top('mdat')
    out['nemsg'] = len(p.all_top('emsg'))
    out['has_sidx'] = 1 if p.all_top('sidx') else 0
    out['layout'] = [b.name for b in p.top]
    if len(moofs) != 1 or len(mdats) != 1:
        out['problems'].append(f'moof x{len(moofs)} mdat x{len(mdats)}')
        return out
    moof, mdat = moofs[0], mdats[0]
    mfhd = moof.find('mfhd')
    traf = moof.find('traf')
    if mfhd is None or traf is None:
        out['problems'].append('no mfhd/traf')
        return out
    out['seq'] = mfhd.f.get('sequence_number', 0)
    tfhd, tfdt, trun = traf.find('tfhd'), traf.find('tfdt'), traf.find('trun')
    if tfdt is not None:
        out['tfdt'] = tfdt.f['base_media_decode_time']
        out['tfdt_v'] = tfdt.f['version']
        out['has_tfdt'] = 1
    else:
        out['has_tfdt'] = 0
    if trun is None or tfhd is None:
        out['problems'].append('no trun/tfhd')
        return out
    dsd = tfhd.f.get('default_sample_duration', sf.default_sample_duration)
    out['dur'] = sum(d if d is not None else dsd for d in trun.f['durations'])
    payload = body[mdat.pos + mdat.hdr:mdat.end]
    sha = hashlib.sha1(payload).hexdigest()
    segs = sf.by_sha.get(sha)
    out['mods'] = []
    if segs:
        # several stored segments may carry identical payload bytes (e.g. empty subtitle
        # documents): the response is byte-identical to each of them
        out['mod'] = segs[0].index
        out['mods'] = [s.index for s in segs]
        out['payload_ok'] = 1
    # trun data offset addresses the first payload byte
    if 'base_data_offset' in tfhd.f:
        base = tfhd.f['base_data_offset']
    else:
        base = moof.pos    # default-base-is-moof, or first traf: start of the enclosing moof
    doff = trun.f.get('data_offset')
    if doff is not None:
        out['trun_target'] = base + doff
        out['payload_start'] = mdat.pos + mdat.hdr
        out['trun_ok'] = 1 if base + doff == mdat.pos + mdat.hdr else 0
    else:
        # no data offset: data starts right after the moof for default-base-is-moof... treat as
        # "first byte after moof header" per 14496-12: offset 0 from base
        out['trun_ok'] = 1 if base == mdat.pos + mdat.hdr else 0
    dss = tfhd.f.get('default_sample_size')
    sizes = [s if s is not None else dss for s in trun.f['sizes']]
    if all(s is not None for s in sizes):
        out['sizes_ok'] = 1 if sum(sizes) == len(payload) else 0
    saio, senc = traf.find('saio'), traf.find('senc')
    piff = None
    for b in traf.children:
        if b.name == 'uuid' and b.f.get('first_sample_pos') is not None:
            piff = b
    out['has_senc'] = 1 if senc is not None else 0
    out['has_piff'] = 1 if piff is not None else 0
    if senc is not None:
        out['senc_n_ok'] = 1 if senc.f.get('sample_count') == trun.f['sample_count'] else 0
        out['senc_entries_parse'] = 1 if senc.f.get('entries_ok') else 0    # informative: the bbb audio fixture sets the subsample flag without subsample data
        if saio is not None and saio.f.get('offsets'):
            out['saio_target'] = base + saio.f['offsets'][0]
            out['senc_first'] = senc.f['first_sample_pos']
            out['saio_ok'] = 1 if base + saio.f['offsets'][0] == senc.f['first_sample_pos'] else 0
    return out
