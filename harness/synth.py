"""Synthetic variants of the fixture media, built with the harness's own walker (never with the code under test)."""
from __future__ import annotations

import hashlib
import struct

from harness.walker import Parsed


def _nrefs(buf, sidx) -> int:
    body = sidx.pos + sidx.hdr
    ver = buf[body]
    return struct.unpack_from('>H', buf, body + 4 + 8 + (8 if ver == 0 else 16) + 2)[0]


def enlarge_segment(data: bytes, seg_no: int, extra: int) -> bytes:
    """Returns a copy of a fragmented MP4 in which the last sample of media segment `seg_no` (1-based) is `extra`
    bytes longer: the trun sample size, the mdat size and the matching sidx reference are adjusted, the payload is
    extended with deterministic filler.  Used to obtain stored segments larger than the reader's cache
    (30 x 16 KiB), which none of the fixtures has."""
    p = Parsed(data)
    moofs = [b for b in p.top if b.name == 'moof']
    mdats = [b for b in p.top if b.name == 'mdat']
    if seg_no < 1 or seg_no > len(moofs) or len(moofs) != len(mdats):
        raise ValueError('no such segment')
    moof, mdat = moofs[seg_no - 1], mdats[seg_no - 1]
    if mdat.pos != moof.end:
        raise ValueError('mdat does not follow its moof')
    trun = moof.find('traf', 'trun')
    fl = trun.f['flags']
    n = trun.f['sample_count']
    if not fl & 0x200 or n < 1:
        raise ValueError('trun has no per-sample sizes')
    out = bytearray(data)
    pos = trun.pos + trun.hdr + 4 + 4
    if fl & 0x001:
        pos += 4
    if fl & 0x004:
        pos += 4
    per = (4 if fl & 0x100 else 0) + 4 + (4 if fl & 0x400 else 0) + (4 if fl & 0x800 else 0)
    size_pos = pos + per * (n - 1) + (4 if fl & 0x100 else 0)
    old = struct.unpack_from('>I', out, size_pos)[0]
    struct.pack_into('>I', out, size_pos, old + extra)
    if mdat.hdr != 8:
        raise ValueError('64-bit mdat header not supported')
    struct.pack_into('>I', out, mdat.pos, mdat.size + extra)
    # a sidx that describes this segment: either one per segment (just before the moof, a single reference) or one
    # for the whole file (before the first moof, one reference per segment)
    prev_end = mdats[seg_no - 2].end if seg_no > 1 else 0
    own = [b for b in p.top if b.name == 'sidx' and prev_end <= b.pos < moof.pos]
    whole = [b for b in p.top if b.name == 'sidx' and b.pos < moofs[0].pos]
    for sidx, idx in ([(own[-1], 0)] if own and (seg_no > 1 or not whole or _nrefs(out, own[-1]) == 1) else
                      [(whole[0], seg_no - 1)] if whole else []):
        body = sidx.pos + sidx.hdr
        ver = out[body]
        refs = body + 4 + 8 + (8 if ver == 0 else 16) + 4
        if idx < _nrefs(out, sidx):
            rpos = refs + 12 * idx
            word = struct.unpack_from('>I', out, rpos)[0]
            struct.pack_into('>I', out, rpos, (word & 0x80000000) | ((word & 0x7FFFFFFF) + extra))
    filler = b''
    seed = hashlib.sha256(b'enlarge%d' % seg_no).digest()
    while len(filler) < extra:
        seed = hashlib.sha256(seed).digest()
        filler += seed
    out[mdat.end:mdat.end] = filler[:extra]
    res = bytes(out)
    chk = Parsed(res)
    if not chk.well_formed():
        raise ValueError('enlarged file is not well formed')
    return res


def pad_with_free(data: bytes) -> bytes:
    """The same media with top-level `free` padding boxes where a packager may legally leave them: 24 bytes before ftyp (so the
    initialization segment does not begin at offset 0), 16 bytes between moov and the first fragment, 24 bytes after the second mdat, 8 bytes (header only) at the end of the file.  Offsets inside the fragments
    are relative to their moof and stay valid; the result is verified to be well-formed."""
    p = Parsed(data)
    moov = next(b for b in p.top if b.name == 'moov')
    mdats = [b for b in p.top if b.name == 'mdat']
    if len(mdats) < 2:
        raise ValueError('need at least two fragments')
    first_media = next(b for b in p.top if b.pos >= moov.end)
    cuts = [(0, 24), (first_media.pos, 16), (mdats[1].end, 24), (len(data), 8)]
    # a whole-file sidx (one entry per fragment) would have to be rewritten: only per-segment indexes are supported here
    for b in p.top:
        if b.name == 'sidx' and b.pos < first_media.pos + 1 and len(b.f.get('references', [])) > 1:
            raise ValueError('whole-file sidx')
    out = bytearray()
    last = 0
    for pos, n in cuts:
        out += data[last:pos]
        out += struct.pack('>I4s', n, b'free') + bytes(n - 8)
        last = pos
    out += data[last:]
    res = bytes(out)
    if not Parsed(res).well_formed():
        raise ValueError('padding produced a malformed file')
    return res


def add_moof_pssh(data: bytes, kid: bytes, system_id: bytes = bytes.fromhex('1077efecc0b24d02ace33c1e52e2fb4b')) -> bytes:
    """The same encrypted media with a version 1 pssh box naming one more key id appended to its first moof (what a packager writes
    for a track whose keys rotate): the indexer then knows two key ids for the track.  The moof grows by 52 bytes; the trun data
    offset and the preceding sidx reference are adjusted, the sample auxiliary information (before the new box) keeps its place."""
    p = Parsed(data)
    moof = next(b for b in p.top if b.name == 'moof')
    trun = moof.find('traf', 'trun')
    if trun is None:
        raise ValueError('no trun')
    box = struct.pack('>I4sI', 52, b'pssh', 1 << 24) + system_id + struct.pack('>I', 1) + kid + struct.pack('>I', 0)
    out = bytearray(data)
    flags = struct.unpack('>I', data[trun.pos + trun.hdr:trun.pos + trun.hdr + 4])[0] & 0xFFFFFF
    if not flags & 1:
        raise ValueError('trun without data offset')
    at = trun.pos + trun.hdr + 8
    out[at:at + 4] = struct.pack('>i', struct.unpack('>i', data[at:at + 4])[0] + len(box))
    out[moof.pos:moof.pos + 4] = struct.pack('>I', moof.size + len(box))
    prev = [b for b in p.top if b.end == moof.pos and b.name == 'sidx']
    if prev and data[prev[0].pos + 8] == 0:
        r = prev[0].pos + 8 + 4 + 4 + 4 + 4 + 4 + 4
        out[r:r + 4] = struct.pack('>I', struct.unpack('>I', data[r:r + 4])[0] + len(box))
    out[moof.end:moof.end] = box
    res = bytes(out)
    if not Parsed(res).well_formed():
        raise ValueError('adding the pssh produced a malformed file')
    return res


def irregular_durations(data: bytes) -> bytes:
    """The same media re-authored so that every trun carries per-sample durations that differ from the tfhd default (sample k of
    fragment n lasts default + ((n + k) % 5) * 3 ticks) and every tfdt is the running total.  Authored with the repository's own
    encoder (the only place where this module uses it); the result is verified with the independent reader: every trun has the
    sample-duration flag, durations are not all equal, and each tfdt equals the sum of all earlier sample durations."""
    import io
    from dashlive.mpeg import mp4
    from dashlive.utils.buffered_reader import BufferedReader
    wrap = mp4.Wrapper(children=mp4.Mp4Atom.load(BufferedReader(io.BytesIO(data)), options=mp4.Options(mode='rw')))
    decode_time = 0
    frag = 0
    for atom in wrap.children:
        if atom.atom_type != 'moof':
            continue
        frag += 1
        tfhd, trun = atom.traf.tfhd, atom.traf.trun
        if not tfhd.flags & 0x08:
            raise ValueError('tfhd without default sample duration')
        trun.flags |= 0x100
        atom.traf.tfdt.base_media_decode_time = decode_time
        for k, sample in enumerate(trun.samples):
            sample.duration = tfhd.default_sample_duration + ((frag + k) % 5) * 3
            decode_time += sample.duration
    res = bytes(wrap.encode())
    p = Parsed(res)
    if not p.well_formed():
        raise ValueError('re-authored file is malformed')
    total = 0
    for b in p.top:
        if b.name != 'moof':
            continue
        trun, tfdt = b.find('traf', 'trun'), b.find('traf', 'tfdt')
        durs = list(trun.f.get('durations', []))
        if not trun.f['flags'] & 0x100 or None in durs or len(set(durs)) < 2 or tfdt.f['base_media_decode_time'] != total:
            raise ValueError('re-authored file does not have the intended shape')
        total += sum(durs)
    return res


def strip_sidx(data: bytes) -> bytes:
    """The same media without its top-level sidx boxes (a packager that writes styp + moof + mdat per fragment): offsets inside the
    fragments are relative to their moof and stay valid."""
    p = Parsed(data)
    res = b''.join(data[b.pos:b.pos + b.size] for b in p.top if b.name != 'sidx')
    if not Parsed(res).well_formed() or len(res) == len(data):
        raise ValueError('no sidx boxes removed, or the result is malformed')
    return res


def renumber_mfhd(data: bytes, first: int = 1, step: int = 2) -> bytes:
    """The same media with the movie-fragment sequence numbers of the stored fragments rewritten to first, first+step, ...
    (what is left over when one track is cut out of a two-track multiplex); nothing else changes."""
    p = Parsed(data)
    out = bytearray(data)
    n = first
    for b in p.top:
        if b.name != 'moof':
            continue
        mfhd = next((c for c in b.children if c.name == 'mfhd'), None)
        if mfhd is None:
            raise ValueError('moof without mfhd')
        struct.pack_into('>I', out, mfhd.pos + mfhd.hdr + 4, n)
        n += step
    res = bytes(out)
    if not Parsed(res).well_formed():
        raise ValueError('renumbering produced a malformed file')
    return res


def relanguage(data: bytes, lang: str) -> bytes:
    """The same media with the language of its track (mdhd, ISO-639-2/T packed as three 5-bit letters) replaced."""
    assert len(lang) == 3 and lang.isalpha() and lang.islower()
    p = Parsed(data)
    mdhd = p.find('moov', 'trak', 'mdia', 'mdhd')
    if mdhd is None:
        raise ValueError('no mdhd')
    ver = data[mdhd.pos + mdhd.hdr]
    off = mdhd.pos + mdhd.hdr + 4 + (28 if ver == 1 else 16)
    packed = ((ord(lang[0]) - 0x60) << 10) | ((ord(lang[1]) - 0x60) << 5) | (ord(lang[2]) - 0x60)
    out = bytearray(data)
    struct.pack_into('>H', out, off, packed)
    return bytes(out)


def global_sidx(data: bytes, nrefs: int = 4) -> bytes:
    """The same media in the single-file layout ftyp / moov / sidx (one reference per fragment) / moof / mdat / moof / mdat ...:
    the per-segment styp and sidx boxes are dropped, one version-0 sidx with `nrefs` references (the first `nrefs` fragments;
    the file is cut after them) is inserted after moov.  Durations are taken from the per-segment sidx boxes."""
    p = Parsed(data)
    moov = next(b for b in p.top if b.name == 'moov')
    frags = []
    dur_of: list[int] = []
    pend_dur = None
    for b in p.top:
        if b.pos < moov.end:
            continue
        if b.name == 'sidx':
            body = b.pos + b.hdr
            ver = data[body]
            refs = body + 4 + 8 + (8 if ver == 0 else 16) + 4
            pend_dur = struct.unpack_from('>I', data, refs + 4)[0]
        elif b.name == 'moof':
            frags.append([b, None])
            dur_of.append(pend_dur or 0)
            pend_dur = None
        elif b.name == 'mdat' and frags and frags[-1][1] is None:
            frags[-1][1] = b
    frags = [f for f in frags if f[1] is not None][:nrefs]
    if len(frags) < 2:
        raise ValueError('need at least two fragments')
    first_sidx = next((b for b in p.top if b.name == 'sidx'), None)
    ts = first_sidx.f['timescale'] if first_sidx is not None else 1
    body = struct.pack('>IIIIHH', 1, ts, 0, 0, 0, len(frags))        # version/flags = 0 is packed below
    recs = b''
    for (moof, mdat), dur in zip(frags, dur_of):
        recs += struct.pack('>III', (moof.size + mdat.size) & 0x7FFFFFFF, dur, 0x90000000)
    payload = struct.pack('>I', 0) + body + recs
    sidx = struct.pack('>I4s', 8 + len(payload), b'sidx') + payload
    out = data[:moov.end] + sidx + b''.join(data[m.pos:d.end] for m, d in frags)
    if not Parsed(out).well_formed():
        raise ValueError('global sidx produced a malformed file')
    return out


def append_short_fragment(data: bytes, keep: int) -> bytes:
    """The same media followed by one more, shorter fragment: a copy of the first fragment cut down to its first `keep` samples,
    placed at the end of the track (decode time = end of the last fragment, next sequence number).  Gives a track whose duration
    is not a multiple of its segment duration (and, for suitable `keep`, not a whole number of seconds)."""
    p = Parsed(data)
    moofs = [b for b in p.top if b.name == 'moof']
    mdats = [b for b in p.top if b.name == 'mdat']
    if not moofs or len(moofs) != len(mdats) or mdats[0].pos != moofs[0].end or mdats[0].hdr != 8:
        raise ValueError('unsupported layout')
    moof, mdat = moofs[0], mdats[0]
    traf = moof.find('traf')
    trun, tfdt, mfhd, tfhd = traf.find('trun'), traf.find('tfdt'), moof.find('mfhd'), traf.find('tfhd')
    fl, n = trun.f['flags'], trun.f['sample_count']
    if not (fl & 0x200) or keep < 1 or keep >= n or tfdt is None or any(c.name in ('saiz', 'saio', 'senc') for c in traf.children):
        raise ValueError('unsupported fragment')
    first = trun.pos + trun.hdr + 8 + (4 if fl & 0x001 else 0) + (4 if fl & 0x004 else 0)
    per = (4 if fl & 0x100 else 0) + 4 + (4 if fl & 0x400 else 0) + (4 if fl & 0x800 else 0)
    cut_a, cut_b = first + keep * per, trun.end
    removed = cut_b - cut_a
    # durations of all fragments -> decode time of the new one
    last_moof = moofs[-1]
    lt = last_moof.find('traf', 'tfdt').f['base_media_decode_time']
    ltrun = last_moof.find('traf', 'trun')
    ltfhd = last_moof.find('traf', 'tfhd')
    dflt = ltfhd.f.get('default_sample_duration')
    if dflt is None:
        trex = p.find('moov', 'mvex', 'trex')
        dflt = trex.f.get('default_sample_duration', 0) if trex else 0
    ldur = sum(d if d is not None else dflt for d in ltrun.f['durations'])
    new_time = lt + ldur
    m = bytearray(data[moof.pos:moof.end])
    rel = lambda b: b.pos - moof.pos      # noqa: E731
    del m[cut_a - moof.pos:cut_b - moof.pos]
    for b in (moof, traf, trun):
        struct.pack_into('>I', m, rel(b), b.size - removed)
    struct.pack_into('>I', m, rel(trun) + trun.hdr + 4, keep)
    if fl & 0x001:
        struct.pack_into('>i', m, rel(trun) + trun.hdr + 8, moof.size - removed + 8)
    body = rel(tfdt) + tfdt.hdr
    if m[body] == 1:
        struct.pack_into('>Q', m, body + 4, new_time)
    else:
        struct.pack_into('>I', m, body + 4, new_time)
    struct.pack_into('>I', m, rel(mfhd) + mfhd.hdr + 4, last_moof.find('mfhd').f['sequence_number'] + 1)
    payload_len = sum(trun.f['sizes'][:keep])
    newmdat = struct.pack('>I4s', 8 + payload_len, b'mdat') + data[mdat.pos + 8:mdat.pos + 8 + payload_len]
    out = data + bytes(m) + newmdat
    if not Parsed(out).well_formed():
        raise ValueError('short fragment produced a malformed file')
    return out


def strip_tfdt(data: bytes) -> bytes:
    """The same media stored without tfdt boxes (legal for the first fragments of older packagers; the service then has to
    synthesise the decode times): every traf loses its tfdt, sizes of traf / moof, trun.data_offset, saio offsets (all
    relative to the start of the moof) and the per-segment sidx reference are adjusted."""
    p = Parsed(data)
    out = bytearray()
    last = 0
    tops = list(p.top)
    for i, b in enumerate(tops):
        if b.name != 'moof':
            continue
        traf = b.find('traf')
        tfdt = traf.find('tfdt') if traf is not None else None
        if tfdt is None:
            continue
        sz = tfdt.size
        m = bytearray(data[b.pos:b.end])
        rel = lambda x: x.pos - b.pos      # noqa: E731
        for c in traf.children:
            if c.pos < tfdt.pos:
                continue
            if c.name == 'trun' and c.f['flags'] & 0x001:
                off = rel(c) + c.hdr + 8
                struct.pack_into('>i', m, off, struct.unpack_from('>i', m, off)[0] - sz)
            if c.name == 'saio':
                body = rel(c) + c.hdr
                ver, fl = m[body], struct.unpack_from('>I', m, body)[0] & 0xFFFFFF
                q = body + 4 + (8 if fl & 1 else 0)
                n = struct.unpack_from('>I', m, q)[0]
                q += 4
                for _ in range(n):
                    if ver == 0:
                        struct.pack_into('>I', m, q, struct.unpack_from('>I', m, q)[0] - sz)
                        q += 4
                    else:
                        struct.pack_into('>Q', m, q, struct.unpack_from('>Q', m, q)[0] - sz)
                        q += 8
        if any(c.name == 'trun' and c.pos < tfdt.pos for c in traf.children):
            raise ValueError('trun before tfdt is not supported')
        struct.pack_into('>I', m, 0, b.size - sz)
        struct.pack_into('>I', m, rel(traf), traf.size - sz)
        del m[rel(tfdt):rel(tfdt) + sz]
        # a per-segment sidx directly in front of this moof
        head = bytearray(data[last:b.pos])
        prev = tops[i - 1] if i else None
        if prev is not None and prev.name == 'sidx' and prev.pos >= last:
            body = prev.pos - last + prev.hdr
            ver = head[body]
            refs = body + 4 + 8 + (8 if ver == 0 else 16) + 4
            if struct.unpack_from('>H', head, refs - 2)[0] == 1:
                word = struct.unpack_from('>I', head, refs)[0]
                struct.pack_into('>I', head, refs, (word & 0x80000000) | ((word & 0x7FFFFFFF) - sz))
        out += head + m
        last = b.end
    out += data[last:]
    res = bytes(out)
    chk = Parsed(res)
    if not chk.well_formed() or any(x.name == 'tfdt' for x in chk.boxes()):
        raise ValueError('stripping tfdt produced a malformed file')
    return res


def open_ended_last_box(data: bytes) -> bytes:
    """The same bytes with the size field of the last top-level box set to 0 ("extends to the end of the file", ISO/IEC 14496-12
    4.2): a muxer that streams its last mdat does not know the size when it writes the header."""
    p = Parsed(data)
    mdats = [b for b in p.top if b.name == 'mdat']
    if not mdats:
        raise ValueError('no mdat box')
    last = mdats[-1]
    # whatever follows the last fragment (an mfra random access table) is dropped: the open-ended box must be the last one
    data = data[:last.pos + last.size]
    p = Parsed(data)
    if data[last.pos:last.pos + 4] == b'\x00\x00\x00\x01':
        raise ValueError('the last mdat has a 64-bit size')
    res = data[:last.pos] + b'\x00\x00\x00\x00' + data[last.pos + 4:]
    q = Parsed(res)
    if not q.well_formed() or [b.name for b in q.top] != [b.name for b in p.top]:
        raise ValueError('the independent reader does not see the same layout')
    return res
