"""A DASH player following the live edge of the real service through (virtual) time: refreshes the manifest, fetches the
SegmentTimeline entries in order, sometimes lags, sometimes skips.  Produces the lines of spec/PlayerSessionTrace.tla."""
from __future__ import annotations

import datetime
import random
from typing import Any
from urllib.parse import urljoin

from harness import mpd as M
from harness.httplive import HOST, path_of
from harness.stored import project_media

EPOCH = datetime.datetime(1970, 1, 1, tzinfo=datetime.timezone.utc)


def _inst(d: datetime.datetime | None) -> dict[str, int]:
    if d is None:
        return {'d': -1, 's': 0, 'u': 0}
    x = d - EPOCH
    return {'d': x.days, 's': x.seconds, 'u': x.microseconds}


def play(drv, tid: int, stream: str, tmpl: str, query: str, t0: datetime.datetime, steps: int, rng: random.Random,
         max_fetch: int = 3) -> list[dict[str, Any]]:
    """one session; `query` must select SegmentTimeline addressing"""
    da = drv.da
    url = f'{HOST}/dash/live/{stream}/{tmpl}' + (('?' + query) if query else '')
    now = t0
    lines: list[dict[str, Any]] = []
    held: dict[str, dict[str, Any]] = {}      # rep -> {at, keys, durs, tmpl, base, bw, pub}
    nxt: dict[str, int] = {}                  # rep -> absolute start the player wants next
    lastf: dict[str, dict[str, Any]] = {}
    base: dict[str, int] = {}
    ast0: dict[str, datetime.datetime] = {}   # rep -> availabilityStartTime of the first manifest: the session's time axis
    skipped: dict[str, int] = {}
    for step in range(steps):
        if step:
            now = now + datetime.timedelta(seconds=rng.choice([0.5, 1, 2.5, 4, 4, 7, 13, 31]))
        da.clock.set(now)
        if step == 0 or rng.random() < 0.7:
            r = drv.get(url)
            if r.status_code != 200:
                lines.append({'tid': tid, 'ev': 'refused', 'status': r.status_code, 'url': url})
                continue
            proj = M.project(r.data, url)
            for adp in proj['periods'][0]['adaptation_sets']:
                if not adp['representations']:
                    continue
                rep = adp['representations'][0]
                tl = rep['timeline'] or []
                tm = rep['template']
                if not tl or tm is None or '$Time$' not in (tm.get('media') or ''):
                    continue
                rid = rep['id']
                ts = int(tm['timescale'] or 1)
                # S@t counts from availabilityStartTime: when a symbolic start (today, ...) resolves to another day later in the
                # session, the entries are expressed on the time axis of the session's first manifest
                a0 = ast0.setdefault(rid, proj['availabilityStartTime'])
                shift = 0
                if a0 is not None and proj['availabilityStartTime'] is not None and proj['availabilityStartTime'] != a0:
                    sh = (proj['availabilityStartTime'] - a0).total_seconds() * ts
                    if sh != int(sh):
                        continue
                    shift = int(sh)
                B = base.setdefault(rid, tl[0]['t'] + shift)
                keys = [x['t'] + shift - B for x in tl]
                durs = [x['d'] for x in tl]
                prev = held.get(rid)
                ln = {'tid': tid, 'ev': 'manifest', 'rep': rid, 'now': now.isoformat(), 'url': url, 'pub': _inst(proj['publishTime']),
                      'keys': keys, 'durs': durs, 'has_prev': 1 if prev else 0,
                      'prev_pub': prev['pub'] if prev else _inst(None), 'prev_keys': prev['keys'] if prev else [],
                      'prev_durs': prev['durs'] if prev else []}
                if any(abs(k) >= 2**31 for k in keys):
                    continue
                lines.append(ln)
                held[rid] = {'at': now, 'keys': keys, 'durs': durs, 'tm': tm, 'repbase': rep['base'], 'bw': rep['bandwidth'],
                             'pub': ln['pub'], 'ast': proj['availabilityStartTime'], 'ts': ts, 'shift': shift}
                if rid not in nxt:
                    nxt[rid] = keys[max(0, len(keys) - 2)]        # join near the live edge
        # fetch
        for rid, h in held.items():
            if not h['keys']:
                continue
            if nxt[rid] < h['keys'][0]:
                nxt[rid] = h['keys'][0]          # fell out of the window: resume at its oldest entry
                skipped[rid] = 1
            n = 0
            while n < max_fetch and nxt[rid] in h['keys'] and rng.random() < 0.85:
                i = h['keys'].index(nxt[rid])
                key, adv = h['keys'][i], h['durs'][i]
                u = urljoin(h['repbase'], M.fill_template(h['tm']['media'], rid, h['bw'], time=key + base[rid] - h['shift']))
                rr = drv.get(u)
                sf = drv.stored_for(stream, rid)
                tfdt, dur = 0, 0
                if rr.status_code == 200 and sf is not None:
                    pm = project_media(rr.data, sf)
                    tfdt, dur = pm['tfdt'] + h['shift'] - base[rid], pm['dur']
                    if abs(tfdt) >= 2**31:
                        tfdt = 2**31 - 1
                p = lastf.get(rid)
                # C01 only speaks about entries whose end is not later than the instant of the request
                end_us = ((key + base[rid] - h['shift'] + adv) * 10**6) // h['ts']
                ended = 1 if h['ast'] is not None and h['ast'] + datetime.timedelta(microseconds=end_us) <= now else 0
                lines.append({'tid': tid, 'ev': 'fetch', 'rep': rid, 'now': now.isoformat(), 'url': path_of(u), 'key': key, 'ended': ended,
                              'status': rr.status_code, 'tfdt': tfdt, 'dur': dur, 'adv_dur': adv,
                              'same_instant': 1 if h['at'] == now else 0, 'has_prev': 1 if p else 0, 'skipped': skipped.get(rid, 0),
                              'prev': p or {'key': 0, 'status': 0, 'adv_dur': 0}})
                lastf[rid] = {'key': key, 'status': rr.status_code, 'adv_dur': adv}
                skipped[rid] = 0
                nxt[rid] = key + adv
                n += 1
    return lines
