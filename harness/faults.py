"""Catalogue of single specification violations injected between server and validator (C18).

Every patcher works on the bytes of one HTTP response using this repository's independent
walker / regular expressions over the XML text (never the code under test) and returns None
when the response offers nothing to corrupt, so that the driver can count *applicable*
occurrences.  `info` is filled with what was changed (used to decide `located`)."""
from __future__ import annotations

import re
import struct
from typing import Callable

from harness.walker import Parsed, Box

Patcher = Callable[[bytes, dict], 'bytes | None']


def _fullbody(b: Box) -> int:
    return b.pos + b.hdr + 4


def _first(p: Parsed, *path: str) -> Box | None:
    return p.find(*path)


# -- media segments -------------------------------------------------------------------------
def tfdt_shift(delta: int) -> Patcher:
    def f(data: bytes, info: dict):
        p = Parsed(data)
        b = _first(p, 'moof', 'traf', 'tfdt')
        if b is None:
            return None
        old = b.f['base_media_decode_time']
        new = old + delta
        if new < 0:
            return None
        info.update(box='tfdt', old=str(old), new=str(new))
        out = bytearray(data)
        if b.f['version'] == 1:
            struct.pack_into('>Q', out, _fullbody(b), new)
        else:
            if new >= 1 << 32:
                return None
            struct.pack_into('>I', out, _fullbody(b), new)
        return bytes(out)
    return f


def tfdt_shift_durations(k: int) -> Patcher:
    """shift by k times the segment's own duration (sum of the trun sample durations)"""
    def f(data: bytes, info: dict):
        p = Parsed(data)
        tr = _first(p, 'moof', 'traf', 'trun')
        tfhd = _first(p, 'moof', 'traf', 'tfhd')
        if tr is None or tfhd is None:
            return None
        dflt = tfhd.f.get('default_sample_duration')
        total = 0
        for d in tr.f['durations']:
            total += d if d is not None else (dflt or 0)
        if total == 0:
            return None
        return tfdt_shift(k * total)(data, info)
    return f


def mfhd_shift(delta: int) -> Patcher:
    def f(data: bytes, info: dict):
        p = Parsed(data)
        b = _first(p, 'moof', 'mfhd')
        if b is None:
            return None
        old = b.f['sequence_number']
        new = old + delta
        if not 0 <= new < 1 << 32:
            return None
        info.update(box='mfhd', old=str(old), new=str(new))
        out = bytearray(data)
        struct.pack_into('>I', out, _fullbody(b), new)
        return bytes(out)
    return f


def trun_offset(where: str) -> Patcher:
    """where: 'past' - beyond the end of the mdat; 'before' - inside the moof"""
    def f(data: bytes, info: dict):
        p = Parsed(data)
        b = _first(p, 'moof', 'traf', 'trun')
        moof = _first(p, 'moof')
        mdat = _first(p, 'mdat')
        if b is None or moof is None or mdat is None or 'data_offset' not in b.f:
            return None
        old = b.f['data_offset']
        if where == 'past':
            new = (mdat.end - moof.pos) + 64
        else:
            new = 8
        info.update(box='trun', old=str(old), new=str(new))
        out = bytearray(data)
        struct.pack_into('>i', out, _fullbody(b) + 4, new)
        return bytes(out)
    return f


def saio_shift(delta: int) -> Patcher:
    def f(data: bytes, info: dict):
        p = Parsed(data)
        b = _first(p, 'moof', 'traf', 'saio')
        if b is None or not b.f.get('offsets'):
            return None
        old = b.f['offsets'][0]
        new = old + delta
        if new < 0:
            return None
        info.update(box='saio', old=str(old), new=str(new))
        out = bytearray(data)
        # version/flags, [aux_info_type+param], count, offset[0]
        pos = b.pos + b.f['consumed'] - (4 if b.f['version'] == 0 else 8) * len(b.f['offsets'])
        if b.f['version'] == 0:
            struct.pack_into('>I', out, pos, new)
        else:
            struct.pack_into('>Q', out, pos, new)
        return bytes(out)
    return f


# -- init segments --------------------------------------------------------------------------
def remove_box(*path: str) -> Patcher:
    """splice the box out and shrink every ancestor's size field"""
    def f(data: bytes, info: dict):
        p = Parsed(data)
        b = _first(p, *path)
        if b is None:
            return None
        out = bytearray(data)
        anc = b.parent
        while anc is not None:
            size = struct.unpack_from('>I', out, anc.pos)[0]
            if size in (0, 1):
                return None
            struct.pack_into('>I', out, anc.pos, size - b.size)
            anc = anc.parent
        del out[b.pos:b.end]
        info.update(box=path[-1], path='/'.join(path))
        return bytes(out)
    return f


# -- manifests ------------------------------------------------------------------------------
def _line_of(text: str, pos: int) -> int:
    return text.count('\n', 0, pos) + 1


def remove_attribute(element: str, attr: str, index: int = 0) -> Patcher:
    """remove `attr` from the index'th <element ...> start tag (text surgery that keeps
    every line number of the document unchanged)"""
    tag = re.compile(r'<' + re.escape(element) + r'(?=[\s>/])[^>]*>', re.S)
    att = re.compile(r'\s' + re.escape(attr) + r'\s*=\s*("[^"]*"|\'[^\']*\')', re.S)

    def f(data: bytes, info: dict):
        text = data.decode('utf-8')
        n = 0
        for m in tag.finditer(text):
            a = att.search(m.group(0))
            if a is None:
                continue
            if n < index:
                n += 1
                continue
            start = m.start() + a.start()
            end = m.start() + a.end()
            removed = text[start:end]
            # keep the newlines the attribute text contained
            keep = '\n' * removed.count('\n')
            info.update(element=element, attr=attr, line=_line_of(text, start),
                        elt_line=_line_of(text, m.start()), old=removed.strip()[:120])
            return (text[:start] + keep + text[end:]).encode('utf-8')
        return None
    return f


def change_attribute(element: str, attr: str, fn: Callable[[str], 'str | None'],
                     index: int = 0) -> Patcher:
    tag = re.compile(r'<' + re.escape(element) + r'(?=[\s>/])[^>]*>', re.S)
    att = re.compile(r'(\s' + re.escape(attr) + r'\s*=\s*)("[^"]*"|\'[^\']*\')', re.S)

    def f(data: bytes, info: dict):
        text = data.decode('utf-8')
        n = 0
        for m in tag.finditer(text):
            a = att.search(m.group(0))
            if a is None:
                continue
            if n < index:
                n += 1
                continue
            old = a.group(2)[1:-1]
            new = fn(old)
            if new is None or new == old:
                return None
            start = m.start() + a.start(2)
            end = m.start() + a.end(2)
            info.update(element=element, attr=attr, line=_line_of(text, start),
                        elt_line=_line_of(text, m.start()), old=old[:120], new=new[:120])
            return (text[:start] + '"' + new + '"' + text[end:]).encode('utf-8')
        return None
    return f


def timeline_gap(gap_segments: int = 3, which: int = 0) -> Patcher:
    """open a gap inside the which'th SegmentTimeline: the second <S> entry gets an explicit
    @t that lies `gap_segments` durations after the end of the first entry.  When the
    timeline has a single <S r=N> entry it is split into <S r=0> + <S t=.. r=N-1>."""
    tl = re.compile(r'<SegmentTimeline\b[^>]*>(.*?)</SegmentTimeline>', re.S)
    s_re = re.compile(r'<S\b([^>]*?)/>', re.S)

    def attrs(txt: str) -> dict[str, str]:
        return dict(re.findall(r'(\w+)\s*=\s*"([^"]*)"', txt))

    def f(data: bytes, info: dict):
        text = data.decode('utf-8')
        ms = list(tl.finditer(text))
        if which >= len(ms):
            return None
        m = ms[which]
        entries = list(s_re.finditer(m.group(1)))
        if not entries:
            return None
        base = m.start(1)
        first = attrs(entries[0].group(1))
        if 'd' not in first:
            return None
        d = int(first['d'])
        r = int(first.get('r', '0'))
        t0 = first.get('t')
        if len(entries) >= 2:
            second = entries[1]
            a2 = attrs(second.group(1))
            if t0 is None:
                return None
            end_first = int(t0) + d * (r + 1)
            new_t = end_first + gap_segments * d
            a2['t'] = str(new_t)
            repl = '<S ' + ' '.join(f'{k}="{v}"' for k, v in a2.items()) + '/>'
            s, e = base + second.start(), base + second.end()
            info.update(element='S', attr='t', line=_line_of(text, s), elt_line=_line_of(text, s),
                        old=second.group(0)[:80], new=repl[:80], expected_t=str(end_first))
            return (text[:s] + repl + text[e:]).encode('utf-8')
        if r < 1 or t0 is None:
            return None
        e0 = entries[0]
        s, e = base + e0.start(), base + e0.end()
        new_t = int(t0) + d + gap_segments * d
        repl = (f'<S t="{t0}" d="{d}"/><S t="{new_t}" d="{d}"' +
                (f' r="{r - 1}"' if r > 1 else '') + '/>')
        info.update(element='S', attr='t', line=_line_of(text, s), elt_line=_line_of(text, s),
                    old=e0.group(0)[:80], new=repl[:80], expected_t=str(int(t0) + d))
        return (text[:s] + repl + text[e:]).encode('utf-8')
    return f


def shift_iso_datetime(seconds: int) -> Callable[[str], 'str | None']:
    import datetime

    def fn(old: str) -> 'str | None':
        try:
            dt = datetime.datetime.fromisoformat(old.replace('Z', '+00:00'))
        except ValueError:
            return None
        new = dt + datetime.timedelta(seconds=seconds)
        txt = new.strftime('%Y-%m-%dT%H:%M:%S')
        if new.microsecond:
            txt += '.%06d' % new.microsecond
        return txt + 'Z'
    return fn


# name -> (target kind, patcher, requirements on the configuration)
# requirements: 'encrypted', 'timeline', 'live' (+ 'refresh': nth >= 1 only)
CATALOGUE: dict[str, dict] = {
    'tfdt_plus3': dict(target='media', patch=tfdt_shift_durations(3), family='decode_time'),
    'tfdt_minus2': dict(target='media', patch=tfdt_shift_durations(-2), family='decode_time'),
    'mfhd_plus7': dict(target='media', patch=mfhd_shift(7), family='sequence_number'),
    'mfhd_minus1': dict(target='media', patch=mfhd_shift(-1), family='sequence_number'),
    'trun_past_mdat': dict(target='media', patch=trun_offset('past'), family='trun_offset'),
    'trun_into_moof': dict(target='media', patch=trun_offset('before'), family='trun_offset'),
    'saio_plus16': dict(target='media', patch=saio_shift(16), family='saio_offset', needs=('encrypted',)),
    'saio_minus8': dict(target='media', patch=saio_shift(-8), family='saio_offset', needs=('encrypted',)),
    'init_no_mvhd': dict(target='init', patch=remove_box('moov', 'mvhd'), family='init_box'),
    'init_no_trak': dict(target='init', patch=remove_box('moov', 'trak'), family='init_box'),
    'init_no_mvex': dict(target='init', patch=remove_box('moov', 'mvex'), family='init_box'),
    'init_no_tkhd': dict(target='init', patch=remove_box('moov', 'trak', 'tkhd'), family='init_box'),
    'init_no_mdhd': dict(target='init', patch=remove_box('moov', 'trak', 'mdia', 'mdhd'), family='init_box'),
    'init_no_stsd': dict(target='init', patch=remove_box('moov', 'trak', 'mdia', 'minf', 'stbl', 'stsd'),
                         family='init_box'),
    'init_no_moov': dict(target='init', patch=remove_box('moov'), family='init_box'),
    'timeline_gap': dict(target='manifest', patch=timeline_gap(3, 0), family='timeline_gap',
                         needs=('timeline',)),
    'timeline_gap_last': dict(target='manifest', patch=timeline_gap(2, -1 + 1), family='timeline_gap',
                              needs=('timeline',)),
    'mpd_no_minBufferTime': dict(target='manifest', patch=remove_attribute('MPD', 'minBufferTime'),
                                 family='mpd_attr'),
    'mpd_no_profiles': dict(target='manifest', patch=remove_attribute('MPD', 'profiles'),
                            family='mpd_attr'),
    'mpd_no_availabilityStartTime': dict(target='manifest',
                                         patch=remove_attribute('MPD', 'availabilityStartTime'),
                                         family='mpd_attr', needs=('live',)),
    'mpd_no_publishTime': dict(target='manifest', patch=remove_attribute('MPD', 'publishTime'),
                               family='mpd_attr', needs=('live',)),
    'rep_no_bandwidth': dict(target='manifest', patch=remove_attribute('Representation', 'bandwidth'),
                             family='mpd_attr'),
    'rep_no_id': dict(target='manifest', patch=remove_attribute('Representation', 'id'),
                      family='mpd_attr'),
    's_no_d': dict(target='manifest', patch=remove_attribute('S', 'd'), family='mpd_attr',
                   needs=('timeline',)),
    'ast_plus60': dict(target='manifest',
                       patch=change_attribute('MPD', 'availabilityStartTime', shift_iso_datetime(60)),
                       family='ast_changed', needs=('live', 'refresh')),
    'ast_minus1': dict(target='manifest',
                       patch=change_attribute('MPD', 'availabilityStartTime', shift_iso_datetime(-1)),
                       family='ast_changed', needs=('live', 'refresh')),
    # the corrupted response is the MPD patch document of a refresh (5.15.3.2: all three are mandatory)
    'patch_no_mpdId': dict(target='patch', patch=remove_attribute('Patch', 'mpdId'), family='patch_attr',
                           needs=('live', 'patch')),
    'patch_no_publishTime': dict(target='patch', patch=remove_attribute('Patch', 'publishTime'), family='patch_attr',
                                 needs=('live', 'patch')),
    'patch_no_originalPublishTime': dict(target='patch', patch=remove_attribute('Patch', 'originalPublishTime'),
                                         family='patch_attr', needs=('live', 'patch')),
}

FAMILIES = sorted({v['family'] for v in CATALOGUE.values()})
