"""Drives the bundled DASH validator (dashlive.mpeg.dash.validator) in-process against the
real application: an HTTP client adapter over the Werkzeug test client that can rewrite exactly
one response of the session (the fault), an inline worker pool (so that the whole session is
one deterministic single-threaded schedule), and a virtual asyncio.sleep that advances the
application's clock.

Every session is observed at the validator's public surface only: finished(), get_errors(),
get_validation_history() and the list of URLs it fetched.
"""
from __future__ import annotations

import asyncio
import logging
import re
from dataclasses import dataclass, field
from typing import Any, Callable
from unittest import mock


class _Resp:
    def __init__(self, status_code: int, headers: dict, data: bytes, status: str) -> None:
        self.status_code = status_code
        self.headers = headers
        self._data = data
        self.status = status
        self.content_type = headers.get('Content-Type')
        self.mimetype = (self.content_type or '').split(';')[0]

    def get_data(self, as_text: bool = False):
        if as_text:
            return self._data.decode('utf-8', errors='replace')
        return self._data

    @property
    def data(self) -> bytes:
        return self._data

    @property
    def text(self) -> str:
        return self._data.decode('utf-8', errors='replace')

    @property
    def content(self) -> bytes:
        return self._data

    @property
    def json(self):
        import json
        return json.loads(self._data)

    @property
    def xml(self):
        from lxml import etree as ET
        return ET.fromstring(self._data)


def classify(url: str, content_type: str, data: bytes = b'') -> str:
    path = url.split('?')[0]
    if data[4:8] in (b'ftyp', b'styp', b'moov', b'moof', b'sidx', b'emsg', b'mdat', b'free'):
        from harness.walker import top_level_layout
        try:
            names = [n for n, _, _ in top_level_layout(data)]
        except Exception:
            names = []
        if 'moov' in names:
            return 'init'
        if 'moof' in names:
            return 'media'
        return 'other'
    if 'patch' in content_type or '/patch/' in path:
        return 'patch'
    if path.endswith('.mpd') or 'dash+xml' in content_type:
        return 'manifest'
    if re.search(r'init\.(mp4|m4v|m4a)$', path) or path.endswith('/init.m4v') or \
            path.endswith('/init.m4a') or path.endswith('/init.mp4'):
        return 'init'
    if re.search(r'\.(m4v|m4a|mp4|m4s)$', path):
        return 'media'
    return 'other'


@dataclass
class Fault:
    """One corruption applied to the `nth` response (0-based) of kind `target` for which
    `rewrite` returns something other than None."""
    name: str
    target: str                                   # manifest | init | media | patch
    rewrite: Callable[[bytes, dict], bytes | None]
    nth: int = 0
    url_filter: str | None = None                 # regex on the URL
    min_occ: int = 0                              # cross-refresh faults need a predecessor
    min_manifests: int = 0                        # only responses served after this many manifests offer anything
    family: str = ''
    applied_url: str | None = None
    original: bytes = b''
    rewritten: bytes = b''
    applied_info: dict = field(default_factory=dict)
    seen: int = 0
    manifests_seen: int = 0

    def offer(self, kind: str, url: str, data: bytes) -> tuple[bytes, int, int]:
        """returns (data, offers, faulted) - the schedule of ValidatorFaults!Serve: every
        response of the target kind that offers something to corrupt counts as one occurrence
        until the fault has been applied; the nth (and not before min_occ) is rewritten."""
        if kind in ('manifest', 'patch'):
            self.manifests_seen += 1          # a refresh is a full manifest or an MPD patch
        if self.applied_url is not None or kind != self.target:
            return data, 0, 0
        if self.url_filter and not re.search(self.url_filter, url):
            return data, 0, 0
        if self.manifests_seen < self.min_manifests:
            return data, 0, 0
        info: dict = {'url': url, 'occurrence': self.seen}
        out = self.rewrite(data, info)
        if out is None:
            return data, 0, 0
        hit = self.seen == self.nth and self.seen >= self.min_occ
        self.seen += 1
        if not hit:
            return data, 1, 0
        self.applied_url = url
        self.applied_info = info
        self.original = data
        self.rewritten = out
        return out, 1, 1


class AdapterClient:
    """HttpClient protocol over the Werkzeug test client."""

    def __init__(self, client, fault: Fault | None = None, events: list | None = None) -> None:
        self.client = client
        self.fault = fault
        self.fetches: list[dict] = []
        self.events: list[dict] = events if events is not None else []
        self.manifests: list[bytes] = []

    def _strip(self, url: str) -> str:
        return re.sub(r'^https?://[^/]+', '', url)

    async def get(self, url: str, headers: dict | None = None, params=None,
                  status: int | None = None, xhr: bool = False):
        r = self.client.get(self._strip(url), headers=headers, query_string=params)
        data = r.get_data()
        ctype = r.headers.get('Content-Type', '')
        kind = classify(url, ctype, data)
        rng = (headers or {}).get('Range') or (headers or {}).get('range')
        self.fetches.append({'kind': kind, 'url': url, 'status': r.status_code,
                             'range': rng or '', 'len': len(data)})
        offers = faulted = 0
        if self.fault is not None and r.status_code in (200, 206):
            data, offers, faulted = self.fault.offer(kind, url, data)
        if kind == 'manifest' and r.status_code == 200:
            self.manifests.append(data)
        self.events.append({'ev': 'fetch', 'kind': kind, 'offers': offers, 'faulted': faulted,
                            'status': r.status_code, 'url': url[-90:]})
        hdrs = dict(r.headers)
        hdrs['Content-Length'] = str(len(data))
        return _Resp(r.status_code, hdrs, data, r.status)

    async def head(self, url: str, headers: dict | None = None, params=None,
                   status: int | None = None, xhr: bool = False):
        r = self.client.head(self._strip(url), headers=headers, query_string=params)
        return _Resp(r.status_code, dict(r.headers), b'', r.status)


class _Group:
    def __init__(self, progress) -> None:
        self.progress = progress

    async def __aenter__(self):
        return self

    async def __aexit__(self, exc_type, exc, tb):
        return False

    def submit(self, fn, *args):
        fut = asyncio.get_running_loop().create_future()
        try:
            fut.set_result(fn(*args))
        except Exception as err:                      # pragma: no cover - reported
            fut.set_exception(err)
        if self.progress:
            self.progress.inc(1)
        return fut


def make_pool():
    from dashlive.mpeg.dash.validator import WorkerPool

    class InlinePool(WorkerPool):
        def group(self, progress=None):
            return _Group(progress)

        def submit(self, fn, *args, **kwargs):
            fut = asyncio.get_running_loop().create_future()
            try:
                fut.set_result(fn(*args, **kwargs))
            except Exception as err:                  # pragma: no cover
                fut.set_exception(err)
            return fut

        async def wait_for_completion(self, timeout: int = 0):
            return []

    return InlinePool()


def error_record(err) -> dict:
    d = err.to_dict()
    return {'msg': str(d['msg'])[:400], 'clause': d['clause'] or '',
            'location': list(d['location']), 'source': d['source'],
            'file': d['assertion']['filename'], 'line': d['assertion']['line'],
            'func': d['assertion']['module']}


def run_session(app, url: str, mode: str, encrypted: bool, duration: int,
                fault: Fault | None = None, max_loops: int = 40,
                representation_info: bool = True, wall_cap: float = 60.0) -> dict[str, Any]:
    """One validator session in the style of upstream's check_manifest_url (load, then
    validate / sleep / refresh until finished).  Unlike upstream the loop does not stop at
    the first error: the session is run to its end so that termination is observed too."""
    import time as real_time
    from dashlive.mpeg.dash.validator import DashValidator, ValidatorOptions
    from dashlive.server import models

    clock = app.clock
    events: list[dict] = []
    http = AdapterClient(app.client(), fault, events)
    slept: list[float] = []
    real_sleep = asyncio.sleep

    async def fake_sleep(delay, result=None):
        if delay and delay > 0:
            clock.advance(seconds=float(delay))
            slept.append(float(delay))
        await real_sleep(0)
        return result

    out: dict[str, Any] = {'url': url, 'mode': mode, 'encrypted': encrypted,
                           'duration': duration, 'crash': '', 'loops': 0}

    async def go() -> None:
        opts = ValidatorOptions(duration=duration, encrypted=encrypted, pool=make_pool())
        log = logging.getLogger('verif.validator')
        log.setLevel(logging.CRITICAL)
        opts.log = log
        dv = DashValidator(url=url, http_client=http, mode=mode, options=opts)
        out['dv'] = dv
        loaded = await dv.load()
        if loaded and representation_info:
            with app.app.app_context():
                for mf in models.MediaFile.all():
                    dv.set_representation_info(mf.representation)
        out['loaded'] = bool(loaded)
        loops = 0
        t0 = real_time.monotonic()
        while loaded and not dv.finished() and loops < max_loops:
            await dv.validate()
            loops += 1
            events.append({'ev': 'validated', 'nerr': len(dv.get_errors())})
            if real_time.monotonic() - t0 > wall_cap:
                out['crash'] = 'wall-clock cap'
                break
            if mode != 'live':
                break                         # a static presentation is one validate step
            if not dv.finished():
                events.append({'ev': 'sleep'})
                await dv.sleep()
                ok = await dv.refresh()
                events.append({'ev': 'refresh', 'ok': 0 if ok is False else 1})
                if representation_info:
                    with app.app.app_context():
                        for mf in models.MediaFile.all():
                            dv.set_representation_info(mf.representation)
                if ok is False:
                    out['refresh_failed'] = True
        out['loops'] = loops
        out['finished'] = bool(dv.finished())

    with mock.patch.object(asyncio, 'sleep', fake_sleep):
        try:
            asyncio.run(go())
        except Exception as err:                          # validator crashed
            import traceback
            tb = traceback.extract_tb(err.__traceback__)
            where = ''
            for fr in reversed(tb):
                if '/dashlive/' in fr.filename:
                    where = f'{fr.filename.split("/dashlive/")[-1]}:{fr.name}'
                    break
            out['crash'] = f'{type(err).__name__}: {str(err)[:200]} @ {where}'
            out.setdefault('finished', False)
            out.setdefault('loaded', False)
    dv = out.pop('dv', None)
    errors = []
    lines: list[str] = []
    if dv is not None:
        try:
            errors = [error_record(e) for e in dv.get_errors()]
        except Exception as err:                          # pragma: no cover
            out['crash'] = out['crash'] or f'get_errors: {err!r}'
        lines = list(dv.get_manifest_lines())
    out['errors'] = errors
    out['fetches'] = http.fetches
    out['events'] = events
    out['manifests'] = http.manifests
    out['slept'] = slept
    out['manifest_lines'] = lines
    out['fault'] = None
    if fault is not None:
        out['fault'] = {'name': fault.name, 'target': fault.target, 'nth': fault.nth,
                        'applied': fault.applied_url is not None,
                        'url': fault.applied_url or '', 'info': fault.applied_info,
                        'family': fault.family}
    return out
