"""Core of the verification harness: paths, seeds, scratch space, TLC runner, the
violation classifier (known findings) and the evidence writer.

Exit-code contract of every check (see DESIGN.md 6.1):
  0  the property held on everything explored (KNOWN-FINDING lines may be printed)
  1  a property-level clause is false on behaviour observed from the real code
     (stdout carries `VIOLATION property=<id> replay=<path>`)
  2  machinery failure (SANY error, TLC crash, vacuity guard, model-only counter-example)
"""
from __future__ import annotations

import contextlib
import json
import os
import re
import shutil
import subprocess
import sys
import tempfile
import time
from pathlib import Path
from typing import Any, Iterable

VERIF = Path(__file__).resolve().parent.parent
REPO = Path(os.environ.get('DASHLIVE_REPO', '/repo'))
SPEC = VERIF / 'spec'
EVIDENCE = Path(os.environ.get('VERIF_EVIDENCE_DIR') or (VERIF / 'evidence'))
REPLAY = EVIDENCE / 'replay'
TLA_JAR = '/opt/veriftools/tla/tla2tools.jar'
TLA_CP = f'{TLA_JAR}:/opt/veriftools/tla/CommunityModules-deps.jar'
GUARD = 'DASHLIVE_VERIF_TRACE'


class MachineryFailure(Exception):
    """Raised when the machinery itself (not the code under test) failed: exit 2."""


def seed() -> int:
    try:
        return int(os.environ.get('VERIF_SEED', '0'))
    except ValueError:
        return 0


def tier(argv_tier: str | None = None) -> str:
    t = argv_tier or os.environ.get('VERIF_TIER') or 'quick'
    return 'thorough' if t == 'thorough' else 'quick'


@contextlib.contextmanager
def scratch(prefix: str = 'dlv-'):
    d = Path(tempfile.mkdtemp(prefix=prefix))
    try:
        yield d
    finally:
        shutil.rmtree(d, ignore_errors=True)


# ---------------------------------------------------------------------------------------
# TLC
# ---------------------------------------------------------------------------------------

_RE_STATES = re.compile(
    r'(\d+) states generated, (\d+) distinct states found, (\d+) states left on queue')
_RE_DEPTH = re.compile(r'The depth of the complete state graph search is (\d+)')


class TlcResult:
    def __init__(self, out: str, code: int, wall: float) -> None:
        self.out = out
        self.code = code
        self.wall = wall
        self.generated = 0
        self.distinct = 0
        self.depth = 0
        for m in _RE_STATES.finditer(out):
            self.generated, self.distinct = int(m.group(1)), int(m.group(2))
        m = _RE_DEPTH.search(out)
        if m:
            self.depth = int(m.group(1))

    @property
    def ok(self) -> bool:
        return self.code == 0 and 'Model checking completed. No error has been found' in self.out

    def invariant_violated(self) -> str | None:
        m = re.search(r'Invariant (\S+) is violated', self.out)
        if m:
            return m.group(1)
        m = re.search(r'Action property (\S+) is violated', self.out)
        if m:
            return m.group(1)
        return None

    def tagged(self, tag: str) -> list[Any]:
        """Lines printed by the spec as PrintT(<<tag, ToJson(x)>>) -> list of decoded x."""
        return parse_tagged(self.out, tag)

    def coverage(self) -> dict[str, int]:
        """Per-action distinct-state counts from `-coverage 1` output."""
        cov: dict[str, int] = {}
        for m in re.finditer(r'<(\w+) line \d+, col \d+ to line \d+, col \d+ of module (\w+)>: (\d+):(\d+)', self.out):
            cov[m.group(1)] = max(cov.get(m.group(1), 0), int(m.group(4)))
        return cov


def _unescape_tla_string(s: str) -> str:
    # TLC prints strings with \" and \\ escapes
    out = []
    i = 0
    while i < len(s):
        c = s[i]
        if c == '\\' and i + 1 < len(s):
            n = s[i + 1]
            if n == 'n':
                out.append('\n')
            elif n == 't':
                out.append('\t')
            else:
                out.append(n)
            i += 2
        else:
            out.append(c)
            i += 1
    return ''.join(out)


def parse_tagged(out: str, tag: str) -> list[Any]:
    """Find every `<<"TAG", "....json....">>` printed by TLC and decode the JSON."""
    res = []
    needle = f'<<"{tag}", "'
    pos = 0
    while True:
        i = out.find(needle, pos)
        if i < 0:
            break
        j = i + len(needle)
        # scan to the closing unescaped quote
        k = j
        while k < len(out):
            if out[k] == '\\':
                k += 2
                continue
            if out[k] == '"':
                break
            k += 1
        raw = out[j:k]
        pos = k
        try:
            res.append(json.loads(_unescape_tla_string(raw)))
        except json.JSONDecodeError as err:
            raise MachineryFailure(f'cannot decode {tag} record from TLC: {err}: {raw[:200]}')
    return res


def run_tlc(module: str, cfg: str | None = None, *, workdir: Path, workers: int | str = 'auto',
            env: dict[str, str] | None = None, timeout: int = 600,
            extra: Iterable[str] = (), deque: bool = False, heap: str = '4g',
            coverage: bool = False) -> TlcResult:
    """Run TLC on SPEC/<module>.tla with SPEC/<cfg> (default <module>.cfg).
    The spec directory is used read-only; metadata goes to `workdir`."""
    cfg = cfg or f'{module}.cfg'
    cfg_path = Path(cfg)
    if not cfg_path.is_absolute():
        cfg_path = SPEC / cfg
    meta = Path(workdir) / f'meta-{module}-{os.getpid()}-{time.time_ns()}'
    meta.mkdir(parents=True, exist_ok=True)
    java = ['java', '-XX:+UseParallelGC', f'-Xmx{heap}', '-Xss32m']
    if deque:
        java.append('-Dtlc2.tool.queue.IStateQueue=StateDeque')
    # module search path: spec dir + workdir/gen (generated modules)
    libs = [str(SPEC), str(Path(workdir))]
    java.append('-DTLA-Library=' + os.pathsep.join(libs))
    cmd = java + ['-cp', TLA_CP, 'tlc2.TLC', '-noGenerateSpecTE', '-metadir', str(meta),
                  '-workers', str(workers), '-config', str(cfg_path)]
    if coverage:
        cmd += ['-coverage', '1']
    cmd += list(extra)
    mod_path = SPEC / f'{module}.tla'
    if not mod_path.exists():
        mod_path = Path(workdir) / f'{module}.tla'
    cmd.append(str(mod_path))
    full_env = dict(os.environ)
    full_env.pop('JAVA_TOOL_OPTIONS', None)
    if env:
        full_env.update(env)
    t0 = time.time()
    try:
        p = subprocess.run(cmd, cwd=str(workdir), env=full_env, stdout=subprocess.PIPE,
                           stderr=subprocess.STDOUT, timeout=timeout, text=True)
        out, code = p.stdout, p.returncode
    except subprocess.TimeoutExpired as err:
        subprocess.run(['pkill', '-f', f'metadir {meta}'], check=False)
        out = (err.stdout or b'').decode('utf-8', 'replace') if isinstance(err.stdout, bytes) else (err.stdout or '')
        raise MachineryFailure(f'TLC timed out after {timeout}s on {module}/{cfg}\n{out[-2000:]}')
    finally:
        shutil.rmtree(meta, ignore_errors=True)
    return TlcResult(out, code, time.time() - t0)


def run_apalache(module: str, *, workdir: Path, inv: str = 'Inv', length: int = 0, timeout: int = 300) -> dict[str, Any]:
    """Unbounded (SMT) check of a state invariant with Apalache on SPEC/<module>.tla (a wrapper module with typed
    VARIABLES whose Init draws the inputs from Nat / Int).  Returns {'outcome': 'NoError' | 'Error' | 'unavailable', ...}.
    'unavailable' (tool missing, time-out, crash) is not a verdict and not a failure: TLC's small scope stays the
    primary design-level check; a reported counter-example is a machinery failure like any model-only counter-example."""
    exe = shutil.which('apalache-mc')
    if exe is None:
        return {'outcome': 'unavailable', 'why': 'apalache-mc not on PATH'}
    src = Path(workdir) / f'apa-{module}'
    src.mkdir(parents=True, exist_ok=True)
    for f in SPEC.glob('*.tla'):
        shutil.copyfile(f, src / f.name)
    t0 = time.time()
    try:
        pr = subprocess.run([exe, 'check', '--init=Init', '--next=Next', f'--inv={inv}', f'--length={length}',
                             f'--out-dir={src / "out"}', f'{module}.tla'], cwd=src, capture_output=True, text=True, timeout=timeout)
    except subprocess.TimeoutExpired:
        return {'outcome': 'unavailable', 'why': f'timeout after {timeout} s'}
    out = pr.stdout + pr.stderr
    wall = round(time.time() - t0, 1)
    if 'The outcome is: NoError' in out:
        return {'outcome': 'NoError', 'wall_s': wall}
    if 'The outcome is: Error' in out and 'invariant' in out:
        return {'outcome': 'Error', 'wall_s': wall, 'tail': out[-1500:]}
    return {'outcome': 'unavailable', 'why': out[-400:], 'wall_s': wall}


def apalache_must_not_refute(res: dict[str, Any], what: str) -> None:
    if res['outcome'] == 'Error':
        raise MachineryFailure(f'{what}: Apalache refutes the invariant over unbounded integers (model-only counter-example)\n{res.get("tail", "")}')


def tlc_must_pass(res: TlcResult, what: str) -> None:
    """Design-level run must complete without error; anything else is a machinery failure
    (a model-only counter-example is never reported as a violation: DESIGN 2.1)."""
    if not res.ok:
        inv = res.invariant_violated()
        tail = res.out[-3000:]
        if inv:
            raise MachineryFailure(
                f'{what}: design-level model violates {inv} (model-only counter-example; '
                f'either the model misrepresents the code or a defect must first be reproduced '
                f'on the real code)\n{tail}')
        raise MachineryFailure(f'{what}: TLC failed (exit {res.code})\n{tail}')


def sany(module_path: Path, workdir: Path) -> None:
    cmd = ['java', '-DTLA-Library=' + os.pathsep.join([str(SPEC), str(workdir)]),
           '-cp', TLA_CP, 'tla2sany.SANY', str(module_path)]
    p = subprocess.run(cmd, cwd=str(workdir), stdout=subprocess.PIPE, stderr=subprocess.STDOUT, text=True)
    if p.returncode != 0 or 'error' in p.stdout.lower().replace('semantic errors:\n\n', ''):
        if 'Semantic processing of module' in p.stdout and '*** Errors' not in p.stdout and \
                'Parsing or semantic analysis failed' not in p.stdout and p.returncode == 0:
            return
        raise MachineryFailure(f'SANY rejected {module_path}:\n{p.stdout[-2000:]}')


# ---------------------------------------------------------------------------------------
# Violations, known findings, evidence
# ---------------------------------------------------------------------------------------

class Violation:
    def __init__(self, prop: str, clause: str, case: dict[str, Any], what: str = '') -> None:
        self.prop = prop
        self.clause = clause
        self.case = case
        self.what = what

    def record(self) -> dict[str, Any]:
        return {'property': self.prop, 'clause': self.clause, 'what': self.what, 'case': self.case}


def load_known() -> list[dict[str, Any]]:
    p = VERIF / 'known_findings.json'
    if not p.exists():
        return []
    with p.open() as f:
        return json.load(f).get('findings', [])


class _Dot(dict):
    """dict with attribute access, missing keys -> None (for signature expressions)."""
    def __getattr__(self, k):
        v = self.get(k)
        return _Dot(v) if isinstance(v, dict) else v


def _matches(entry: dict[str, Any], v: Violation) -> bool:
    if entry.get('status') != 'known':
        return False    # "fixed" entries suppress nothing
    if entry.get('property') != v.prop:
        return False
    if entry.get('clause') and entry['clause'] != v.clause:
        return False
    sig = entry.get('signature')
    if not sig:
        return False    # a finding without a signature matches nothing (never a blanket)
    env = {'case': _Dot(v.case), 'clause': v.clause, 're': re, 'len': len, 'abs': abs,
           'str': str, 'int': int, 'any': any, 'all': all, 'isinstance': isinstance,
           'min': min, 'max': max, 'set': set, 'sorted': sorted, 'enumerate': enumerate, 'range': range}
    try:
        return bool(eval(sig, {'__builtins__': {}, **env}))   # noqa: S307  (own committed file; env as globals so nested generators see it)
    except Exception:
        return False


class Outcome:
    """Collects violations, classifies them, prints the verdict lines, writes evidence."""

    def __init__(self, prop: str, tier_: str) -> None:
        self.prop = prop
        self.tier = tier_
        self.t0 = time.time()
        self.violations: list[Violation] = []
        self.coverage: dict[str, Any] = {}
        self.assumptions: list[str] = []
        self.notes: list[str] = []
        # stale replay files of earlier runs would be misleading
        if REPLAY.exists():
            for f in REPLAY.glob(f'{prop}-*.json'):
                f.unlink()

    def add(self, v: Violation) -> None:
        self.violations.append(v)

    def count(self, key: str, n: int = 1) -> None:
        self.coverage[key] = self.coverage.get(key, 0) + n

    def finish(self, level: str = 'model_checking') -> int:
        known = load_known()
        new: list[Violation] = []
        seen_known: dict[str, tuple[dict[str, Any], int]] = {}
        for v in self.violations:
            hit = next((e for e in known if _matches(e, v)), None)
            if hit is None:
                new.append(v)
            else:
                k = hit.get('id') or hit.get('what', '')
                seen_known[k] = (hit, seen_known.get(k, (hit, 0))[1] + 1)
        for k, (hit, n) in sorted(seen_known.items()):
            print(f"KNOWN-FINDING: property={self.prop} {hit.get('what', k)} [{n} occurrence(s)]")
        code = 0
        if new:
            REPLAY.mkdir(parents=True, exist_ok=True)
            # group by clause, write one replay file per clause (first 20 cases)
            by_clause: dict[str, list[Violation]] = {}
            for v in new:
                by_clause.setdefault(v.clause, []).append(v)
            for clause, vs in sorted(by_clause.items()):
                path = REPLAY / f'{self.prop}-{clause}.json'
                with path.open('w') as f:
                    json.dump({'property': self.prop, 'clause': clause, 'count': len(vs),
                               'cases': [x.record() for x in vs[:int(os.environ.get('VERIF_REPLAY_CAP', '20'))]]}, f, indent=1, default=str)
                print(f'VIOLATION property={self.prop} replay={path}')
                print(f'  clause={clause} cases={len(vs)} first={json.dumps(vs[0].case, default=str)[:600]}')
            code = 1
        cov = dict(self.coverage)
        cov.setdefault('samples', [])
        if not cov['samples']:
            cov['samples'] = ['(none recorded)']
        cov['known_findings_seen'] = {k: n for k, (_, n) in seen_known.items()}
        ev = {
            'property_id': self.prop,
            'tier': self.tier,
            'seed': seed(),
            'level': level,
            'coverage': cov,
            'assumptions': self.assumptions,
            'wall_s': round(time.time() - self.t0, 2),
            'violations': len(new),
        }
        if self.notes:
            ev['coverage']['notes'] = self.notes
        # checks beyond the listed properties (X..) keep their evidence apart from the per-property files
        evdir = EVIDENCE if self.prop.startswith('C') else EVIDENCE / 'extra'
        evdir.mkdir(parents=True, exist_ok=True)
        with (evdir / f'{self.prop}.json').open('w') as f:
            json.dump(ev, f, indent=1, default=str)
        return code


def _sanitize(x: Any) -> Any:
    """TLC's Json module rejects null and mangles floats / big ints: None -> "null",
    bool -> 0/1, float -> str, |int| >= 2^31 -> str."""
    if x is None:
        return 'null'
    if isinstance(x, bool):
        return 1 if x else 0
    if isinstance(x, int):
        return x if -2**31 < x < 2**31 else str(x)
    if isinstance(x, float):
        return str(x)
    if isinstance(x, dict):
        return {str(k): _sanitize(v) for k, v in x.items()}
    if isinstance(x, (list, tuple)):
        return [_sanitize(v) for v in x]
    if isinstance(x, bytes):
        return list(x)
    return x


def write_ndjson(path: Path, lines: Iterable[dict[str, Any]]) -> int:
    n = 0
    with path.open('w') as f:
        for ln in lines:
            f.write(json.dumps(_sanitize(ln), separators=(',', ':'), default=str))
            f.write('\n')
            n += 1
    return n


def main_wrapper(fn) -> None:
    """Run a check's main(); map MachineryFailure to exit 2."""
    try:
        code = fn()
    except MachineryFailure as err:
        print(f'MACHINERY-FAILURE: {err}', file=sys.stderr)
        sys.exit(2)
    sys.exit(code)


# ---------------------------------------------------------------------------------------
# Trace validation (code -> spec)
# ---------------------------------------------------------------------------------------

def validate_trace(module: str, lines: list[dict[str, Any]], *, workdir: Path, cfg: str | None = None,
                   chunk: int = 150000, parallel: int = 4, timeout: int = 900,
                   env: dict[str, str] | None = None, deque: bool = False) -> tuple[list[dict[str, Any]], dict[str, int]]:
    """Validate NDJSON `lines` with SPEC/<module>.tla (a *Trace module reading
    IOEnv.TRACE_FILE).  Lines are split into chunks at `tid` boundaries, each chunk is
    one TLC run (-workers 1).  Returns (violation records, stats).  Every violation record
    is the spec's "V" record extended with `lineobj` (the offending trace line) and
    `index` (its index in `lines`).  A chunk that TLC does not consume completely is a
    machinery failure, never a verdict."""
    from concurrent.futures import ThreadPoolExecutor
    chunks: list[tuple[int, int]] = []
    start = 0
    n = len(lines)
    while start < n:
        end = min(n, start + chunk)
        while end < n and lines[end].get('tid') == lines[end - 1].get('tid'):
            end += 1
        chunks.append((start, end))
        start = end
    stats = {'lines': n, 'chunks': len(chunks), 'tlc_states': 0}

    def one(idx: int) -> list[dict[str, Any]]:
        a, b = chunks[idx]
        path = Path(workdir) / f'trace-{module}-{idx}.ndjson'
        write_ndjson(path, lines[a:b])
        e = {'TRACE_FILE': str(path)}
        if env:
            e.update(env)
        r = run_tlc(module, cfg, workdir=workdir, workers=1, env=e, timeout=timeout, deque=deque)
        if not r.ok and os.environ.get('VERIF_KEEP'):
            shutil.copyfile(path, Path(os.environ['VERIF_KEEP']) / path.name)
            (Path(os.environ['VERIF_KEEP']) / (path.name + '.out')).write_text(r.out)
        path.unlink(missing_ok=True)
        if not r.ok:
            i = r.out.find('Error:')
            raise MachineryFailure(
                f'trace validation {module} chunk {idx} (lines {a}..{b}) not accepted by TLC '
                f'(exit {r.code}):\n{r.out[i:i + 1500] if i >= 0 else ""}\n...\n{r.out[-1200:]}')
        stats['tlc_states'] += r.distinct
        vs = r.tagged('V')
        for v in vs:
            li = a + int(v['line']) - 1
            v['index'] = li
            v['lineobj'] = lines[li]
        return vs

    out: list[dict[str, Any]] = []
    with ThreadPoolExecutor(max_workers=max(1, parallel)) as ex:
        for vs in ex.map(one, range(len(chunks))):
            out.extend(vs)
    return out, stats
