"""Management-API client for the real application (sessions per role, CSRF token
harvesting, state digest, snapshot / restore).  Used by C15 (role sweep), C17 (store
histories) and C16."""
from __future__ import annotations

import hashlib
import io
import json
import shutil
import sqlite3
from pathlib import Path
from typing import Any

from harness.app import USERS, DashApp

ROLES = ('anonymous', 'user', 'media', 'admin')


class Session:
    """One browser-like client: cookie jar, optional login, JWT access token."""

    def __init__(self, da: DashApp, role: str) -> None:
        self.da = da
        self.role = role
        self.client = da.client()
        self.jwt: str | None = None
        self.user_pk: int | None = None
        if role != 'anonymous':
            info = da.login(self.client, role)
            if not info.get('success'):
                raise RuntimeError(f'login failed for {role}: {info}')
            self.jwt = info['accessToken']['jwt']
            self.user_pk = info['user']['pk']

    def headers(self, extra: dict[str, str] | None = None) -> dict[str, str]:
        h: dict[str, str] = {}
        if self.jwt:
            h['Authorization'] = f'Bearer {self.jwt}'
        if extra:
            h.update(extra)
        return h

    def csrf_cookie(self) -> str:
        c = self.client.get_cookie('csrf')
        return c.value if c is not None else ''

    def harvest(self, spk: int) -> dict[str, str]:
        """CSRF tokens this client can obtain from a public page: service -> token."""
        r = self.client.get(f'/stream/{spk}?ajax=1', headers=self.headers())
        js = r.get_json(silent=True) or {}
        t = js.get('csrf_tokens') or {}
        out = {}
        if t.get('streams'):
            out['streams'] = t['streams']
        if t.get('files'):
            out['files'] = t['files']
        if t.get('kids'):
            out['keys'] = t['kids']          # issued for service 'keys' (streams.py)
        if t.get('upload'):
            out['upload'] = t['upload']
        return out

    def mint(self, service: str) -> str:
        """A further token for this client's csrf cookie, produced by the application's own
        generator in a request context - the same value a page would hand to this client.
        (The cookie itself is always obtained from a real page by harvest().)"""
        cookie = self.csrf_cookie()
        if not cookie:
            return ''
        from dashlive.server.requesthandler.csrf import CsrfProtection
        with self.da.app.test_request_context('/stream/1', base_url='http://localhost'):
            return CsrfProtection.generate_token(service, cookie)

    def rebind(self) -> None:
        """after a restart of the application: same cookies, new application object"""
        self.client.application = self.da.app

    def request(self, method: str, url: str, **kw):
        h = self.headers(kw.pop('headers', None))
        return self.client.open(url, method=method, headers=h, **kw)


# ---------------------------------------------------------------------------------------
# persistent state: digest and snapshots (read with sqlite3, not through the application)
# ---------------------------------------------------------------------------------------
EXCLUDE_TABLES = {'Token', 'alembic_version'}
EXCLUDE_COLUMNS = {'User': {'last_login'}}


def table_rows(db_path: Path) -> dict[str, list[tuple]]:
    con = sqlite3.connect(f'file:{db_path}?mode=ro', uri=True)
    try:
        out: dict[str, list[tuple]] = {}
        names = [r[0] for r in con.execute("select name from sqlite_master where type='table' and name not like 'sqlite_%'")]
        for n in sorted(names):
            if n in EXCLUDE_TABLES:
                continue
            cols = [r[1] for r in con.execute(f'pragma table_info("{n}")')]
            keep = [c for c in cols if c not in EXCLUDE_COLUMNS.get(n, set())]
            sel = ', '.join(f'"{c}"' for c in keep)
            rows = [tuple(r) for r in con.execute(f'select {sel} from "{n}"')]
            out[n] = sorted(rows, key=repr)
        return out
    finally:
        con.close()


def blob_listing(blob_folder: Path) -> list[tuple[str, int]]:
    out = []
    if blob_folder.exists():
        for p in sorted(blob_folder.rglob('*')):
            if p.is_file():
                out.append((str(p.relative_to(blob_folder)), p.stat().st_size))
    return out


class StateDigest:
    def __init__(self, da: DashApp) -> None:
        self.tables = table_rows(da.instance / 'models.db3')
        self.blobs = blob_listing(da.blob_folder)

    def digest(self) -> str:
        h = hashlib.sha256()
        h.update(repr(self.tables).encode())
        h.update(repr(self.blobs).encode())
        return h.hexdigest()

    def diff(self, other: 'StateDigest') -> dict[str, Any]:
        """what differs: table names, and whether only one User row differs"""
        changed = [t for t in sorted(set(self.tables) | set(other.tables)) if self.tables.get(t) != other.tables.get(t)]
        blobs = self.blobs != other.blobs
        user_rows: list[Any] = []
        if 'User' in changed:
            a = {r[0]: r for r in self.tables.get('User', [])}
            b = {r[0]: r for r in other.tables.get('User', [])}
            user_rows = sorted(pk for pk in set(a) | set(b) if a.get(pk) != b.get(pk))
        return {'tables': changed, 'blobs': blobs, 'user_rows': user_rows}


class Snapshot:
    """Copy of the SQLite file and the blob folder; restore() puts them back and restarts the app."""

    def __init__(self, da: DashApp, where: Path) -> None:
        self.da = da
        self.where = Path(where)
        self.where.mkdir(parents=True, exist_ok=True)
        self._dispose()
        shutil.copyfile(da.instance / 'models.db3', self.where / 'models.db3')
        if (self.where / 'blobs').exists():
            shutil.rmtree(self.where / 'blobs')
        shutil.copytree(da.blob_folder, self.where / 'blobs')

    def _dispose(self) -> None:
        from dashlive.server import models
        with self.da.app.app_context():
            models.db.session.remove()
            models.db.engine.dispose()

    def restore(self) -> None:
        self._dispose()
        shutil.copyfile(self.where / 'models.db3', self.da.instance / 'models.db3')
        for extra in ('models.db3-journal', 'models.db3-wal', 'models.db3-shm'):
            (self.da.instance / extra).unlink(missing_ok=True)
        shutil.rmtree(self.da.blob_folder)
        shutil.copytree(self.where / 'blobs', self.da.blob_folder)
        self.da.restart()


def ids(da: DashApp) -> dict[str, Any]:
    """primary keys of existing objects, read straight from the database file"""
    rows = table_rows(da.instance / 'models.db3')
    streams = {r[2]: r[0] for r in rows.get('Stream', [])}          # directory -> pk
    con = sqlite3.connect(f'file:{da.instance / "models.db3"}?mode=ro', uri=True)
    try:
        mfs = {r[1]: (r[0], r[2]) for r in con.execute('select pk, name, stream from media_file')}
        keys = {r[1]: r[0] for r in con.execute('select pk, hkid from key')}
        users = {r[1]: r[0] for r in con.execute('select pk, username from "User"')}
        periods = [r[0] for r in con.execute('select pk from period order by pk')]
        mps = [r[0] for r in con.execute('select name from mp_stream order by pk')]
    finally:
        con.close()
    return {'streams': streams, 'media': mfs, 'keys': keys, 'users': users, 'periods': periods, 'mps': mps}


def small_mp4(da: DashApp, stream: str = 'bbb', name: str = 'bbb_t1') -> bytes:
    return (da.blob_folder / stream / f'{name}.mp4').read_bytes()
