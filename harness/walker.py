"""Independent ISO-BMFF reader (struct only). Shares nothing with dashlive.mpeg.mp4.
Produces a tree of Box objects with absolute positions and decodes the handful of boxes
the properties talk about: mfhd, tfhd, tfdt, trun, saiz, saio, senc, PIFF uuid, emsg, pssh,
sidx, mehd, mvhd, mdhd, tkhd, trex, tenc.
"""
from __future__ import annotations

import struct
from typing import Any, Iterator

CONTAINERS = {b'moov', b'trak', b'mdia', b'minf', b'stbl', b'mvex', b'moof', b'traf', b'edts',
              b'dinf', b'sinf', b'schi', b'udta', b'mfra'}
PIFF_SENC = bytes.fromhex('a2394f525a9b4f14a2446c427c648df4')
PIFF_TENC = bytes.fromhex('8974dbce7be74c5184f97148f9882554')
PIFF_PSSH = bytes.fromhex('d08a4f1810f34a82b6c832d8aba183d3')


class WalkError(Exception):
    pass


class Box:
    def __init__(self, typ: bytes, pos: int, size: int, hdr: int, parent: 'Box | None') -> None:
        self.type = typ
        self.pos = pos          # absolute position of the size field
        self.size = size        # total size including header
        self.hdr = hdr          # header length (8, 16, +16 for uuid)
        self.parent = parent
        self.children: list['Box'] = []
        self.f: dict[str, Any] = {}    # decoded fields
        self.usertype: bytes | None = None

    @property
    def end(self) -> int:
        return self.pos + self.size

    @property
    def name(self) -> str:
        return self.type.decode('latin1')

    def find(self, *path: str) -> 'Box | None':
        cur: Box | None = self
        for p in path:
            nxt = None
            for c in cur.children:
                if c.name == p:
                    nxt = c
                    break
            if nxt is None:
                return None
            cur = nxt
        return cur

    def all(self, name: str) -> list['Box']:
        return [c for c in self.children if c.name == name]

    def walk(self) -> Iterator['Box']:
        for c in self.children:
            yield c
            yield from c.walk()

    def skeleton(self) -> list[Any]:
        return [self.name, self.size, [c.skeleton() for c in self.children]]


def _parse_children(data: bytes, start: int, end: int, parent: Box | None, iv_size: int | None,
                    problems: list[str]) -> list[Box]:
    out: list[Box] = []
    p = start
    while p < end:
        if end - p < 8:
            problems.append(f'trailing {end - p} bytes at {p} inside {parent.name if parent else "top"}')
            break
        size, typ = struct.unpack_from('>I4s', data, p)
        hdr = 8
        if size == 1:
            if end - p < 16:
                problems.append(f'truncated largesize at {p}')
                break
            size = struct.unpack_from('>Q', data, p + 8)[0]
            hdr = 16
        elif size == 0:
            size = end - p
        if size < hdr or p + size > end:
            problems.append(f'box {typ!r} at {p} size {size} overruns its container (end {end})')
            break
        b = Box(typ, p, size, hdr, parent)
        if typ == b'uuid':
            b.usertype = data[p + hdr:p + hdr + 16]
            b.hdr += 16
        body = p + b.hdr
        if typ in CONTAINERS:
            b.children = _parse_children(data, body, p + size, b, iv_size, problems)
        elif typ == b'stsd':
            # fullbox + entry count, then sample entries
            b.f['entry_count'] = struct.unpack_from('>I', data, body + 4)[0]
            b.children = _parse_sample_entries(data, body + 8, p + size, b, problems)
        else:
            try:
                _decode(b, data, body, p + size, iv_size)
            except (struct.error, IndexError) as err:
                problems.append(f'cannot decode {typ!r} at {p}: {err}')
        out.append(b)
        p += size
    return out


def _parse_sample_entries(data: bytes, start: int, end: int, parent: Box, problems: list[str]) -> list[Box]:
    out = []
    p = start
    while p + 8 <= end:
        size, typ = struct.unpack_from('>I4s', data, p)
        if size < 8 or p + size > end:
            problems.append(f'sample entry {typ!r} at {p} size {size} overruns stsd')
            break
        b = Box(typ, p, size, 8, parent)
        # visual: 78 bytes after header; audio: 28; others unknown -> find children heuristically
        if typ in (b'avc1', b'avc3', b'hev1', b'hvc1', b'encv'):
            off = 78
        elif typ in (b'mp4a', b'ec-3', b'ac-3', b'enca'):
            off = 28
        elif typ in (b'stpp', b'wvtt'):
            off = None
        else:
            off = None
        if off is not None:
            b.children = _parse_children(data, p + 8 + off, p + size, b, None, problems)
        out.append(b)
        p += size
    return out


def _fullbox(data: bytes, body: int) -> tuple[int, int]:
    v = data[body]
    flags = int.from_bytes(data[body + 1:body + 4], 'big')
    return v, flags


def _decode(b: Box, data: bytes, body: int, end: int, iv_size: int | None) -> None:
    t = b.type
    f = b.f
    if t == b'mfhd':
        f['version'], f['flags'] = _fullbox(data, body)
        f['sequence_number'] = struct.unpack_from('>I', data, body + 4)[0]
        f['consumed'] = body + 8 - b.pos
    elif t == b'tfhd':
        v, fl = _fullbox(data, body)
        f['version'], f['flags'] = v, fl
        p = body + 4
        f['track_id'] = struct.unpack_from('>I', data, p)[0]
        p += 4
        if fl & 0x000001:
            f['base_data_offset'] = struct.unpack_from('>Q', data, p)[0]
            p += 8
        if fl & 0x000002:
            f['sample_description_index'] = struct.unpack_from('>I', data, p)[0]
            p += 4
        if fl & 0x000008:
            f['default_sample_duration'] = struct.unpack_from('>I', data, p)[0]
            p += 4
        if fl & 0x000010:
            f['default_sample_size'] = struct.unpack_from('>I', data, p)[0]
            p += 4
        if fl & 0x000020:
            f['default_sample_flags'] = struct.unpack_from('>I', data, p)[0]
            p += 4
        f['default_base_is_moof'] = bool(fl & 0x020000)
        f['consumed'] = p - b.pos
    elif t == b'tfdt':
        v, fl = _fullbox(data, body)
        f['version'], f['flags'] = v, fl
        if v == 1:
            f['base_media_decode_time'] = struct.unpack_from('>Q', data, body + 4)[0]
            f['consumed'] = body + 12 - b.pos
        else:
            f['base_media_decode_time'] = struct.unpack_from('>I', data, body + 4)[0]
            f['consumed'] = body + 8 - b.pos
    elif t == b'trun':
        v, fl = _fullbox(data, body)
        f['version'], f['flags'] = v, fl
        p = body + 4
        n = struct.unpack_from('>I', data, p)[0]
        p += 4
        f['sample_count'] = n
        if fl & 0x000001:
            f['data_offset'] = struct.unpack_from('>i', data, p)[0]
            p += 4
        if fl & 0x000004:
            f['first_sample_flags'] = struct.unpack_from('>I', data, p)[0]
            p += 4
        durs: list[int | None] = []
        sizes: list[int | None] = []
        for _ in range(n):
            d = s = None
            if fl & 0x000100:
                d = struct.unpack_from('>I', data, p)[0]
                p += 4
            if fl & 0x000200:
                s = struct.unpack_from('>I', data, p)[0]
                p += 4
            if fl & 0x000400:
                p += 4
            if fl & 0x000800:
                p += 4
            durs.append(d)
            sizes.append(s)
        f['durations'] = durs
        f['sizes'] = sizes
        f['consumed'] = p - b.pos
    elif t == b'saiz':
        v, fl = _fullbox(data, body)
        p = body + 4
        if fl & 1:
            p += 8
        f['default_sample_info_size'] = data[p]
        f['sample_count'] = struct.unpack_from('>I', data, p + 1)[0]
        p += 5
        if f['default_sample_info_size'] == 0:
            f['sizes'] = list(data[p:p + f['sample_count']])
            p += f['sample_count']
        f['consumed'] = p - b.pos
    elif t == b'saio':
        v, fl = _fullbox(data, body)
        f['version'] = v
        p = body + 4
        if fl & 1:
            p += 8
        n = struct.unpack_from('>I', data, p)[0]
        p += 4
        offs = []
        for _ in range(n):
            if v == 0:
                offs.append(struct.unpack_from('>I', data, p)[0])
                p += 4
            else:
                offs.append(struct.unpack_from('>Q', data, p)[0])
                p += 8
        f['offsets'] = offs
        f['consumed'] = p - b.pos
    elif t == b'senc' or (t == b'uuid' and b.usertype == PIFF_SENC):
        v, fl = _fullbox(data, body)
        f['version'], f['flags'] = v, fl
        p = body + 4
        if t == b'uuid' and fl & 1:
            p += 20   # AlgorithmID(3) + IV_size(1) + KID(16)
        n = struct.unpack_from('>I', data, p)[0]
        p += 4
        f['sample_count'] = n
        f['first_sample_pos'] = p       # absolute position of the first sample entry
        ivs = iv_size or 8
        entries = []
        ok = True
        for _ in range(n):
            if p + ivs > end:
                ok = False
                break
            iv = data[p:p + ivs]
            p += ivs
            subs = []
            if fl & 2:
                cnt = struct.unpack_from('>H', data, p)[0]
                p += 2
                for _ in range(cnt):
                    c, e = struct.unpack_from('>HI', data, p)
                    subs.append((c, e))
                    p += 6
            entries.append((iv, subs))
        f['entries_ok'] = ok and p == end
        f['entries'] = entries
        f['consumed'] = p - b.pos
    elif t == b'emsg':
        v, fl = _fullbox(data, body)
        f['version'] = v
        p = body + 4

        def cstr(q: int) -> tuple[str, int]:
            e = data.index(b'\0', q, end)
            return data[q:e].decode('utf-8', 'replace'), e + 1
        if v == 0:
            f['scheme_id_uri'], p = cstr(p)
            f['value'], p = cstr(p)
            (f['timescale'], f['presentation_time_delta'], f['event_duration'],
             f['id']) = struct.unpack_from('>IIII', data, p)
            p += 16
        else:
            f['timescale'] = struct.unpack_from('>I', data, p)[0]
            f['presentation_time'] = struct.unpack_from('>Q', data, p + 4)[0]
            f['event_duration'], f['id'] = struct.unpack_from('>II', data, p + 12)
            p += 20
            f['scheme_id_uri'], p = cstr(p)
            f['value'], p = cstr(p)
        f['message_data'] = data[p:end]
    elif t == b'pssh':
        v, fl = _fullbox(data, body)
        f['version'] = v
        p = body + 4
        f['system_id'] = data[p:p + 16]
        p += 16
        kids = []
        if v > 0:
            n = struct.unpack_from('>I', data, p)[0]
            p += 4
            for _ in range(n):
                kids.append(data[p:p + 16])
                p += 16
        f['key_ids'] = kids
        n = struct.unpack_from('>I', data, p)[0]
        p += 4
        f['data'] = data[p:p + n]
        p += n
        f['consumed'] = p - b.pos
    elif t == b'sidx':
        v, fl = _fullbox(data, body)
        f['version'] = v
        p = body + 4
        f['reference_id'], f['timescale'] = struct.unpack_from('>II', data, p)
        p += 8
        if v == 0:
            f['earliest_presentation_time'], f['first_offset'] = struct.unpack_from('>II', data, p)
            p += 8
        else:
            f['earliest_presentation_time'], f['first_offset'] = struct.unpack_from('>QQ', data, p)
            p += 16
    elif t == b'mehd':
        v, fl = _fullbox(data, body)
        f['version'] = v
        f['fragment_duration'] = struct.unpack_from('>Q' if v == 1 else '>I', data, body + 4)[0]
    elif t == b'mdhd':
        v, fl = _fullbox(data, body)
        f['version'] = v
        if v == 1:
            f['timescale'] = struct.unpack_from('>I', data, body + 20)[0]
            f['duration'] = struct.unpack_from('>Q', data, body + 24)[0]
        else:
            f['timescale'] = struct.unpack_from('>I', data, body + 12)[0]
            f['duration'] = struct.unpack_from('>I', data, body + 16)[0]
    elif t == b'trex':
        (f['track_id'], f['default_sample_description_index'], f['default_sample_duration'],
         f['default_sample_size'], f['default_sample_flags']) = struct.unpack_from('>IIIII', data, body + 4)
    elif t == b'tenc':
        v, fl = _fullbox(data, body)
        f['version'] = v
        f['is_encrypted'] = data[body + 6]
        f['iv_size'] = data[body + 7]
        f['default_kid'] = data[body + 8:body + 24]


class Parsed:
    def __init__(self, data: bytes, iv_size: int | None = None) -> None:
        self.data = data
        self.problems: list[str] = []
        self.top = _parse_children(data, 0, len(data), None, iv_size, self.problems)

    def find(self, *path: str) -> Box | None:
        for b in self.top:
            if b.name == path[0]:
                return b.find(*path[1:]) if len(path) > 1 else b
        return None

    def all_top(self, name: str) -> list[Box]:
        return [b for b in self.top if b.name == name]

    def boxes(self) -> Iterator[Box]:
        for b in self.top:
            yield b
            yield from b.walk()

    def well_formed(self) -> bool:
        """sizes nest exactly: top-level boxes tile the buffer, children tile each container."""
        if self.problems:
            return False
        if sum(b.size for b in self.top) != len(self.data):
            return False
        for b in self.boxes():
            if b.type in CONTAINERS:
                if b.pos + b.hdr + sum(c.size for c in b.children) != b.end:
                    return False
        return not self.syntax_overruns()

    def syntax_overruns(self) -> list[str]:
        """boxes whose syntax (as selected by their version and flags) needs more bytes than the box has: a reader that follows
        the syntax runs past the end of the box"""
        return [f'{b.name}@{b.pos}: version/flags {b.f.get("version")}/{b.f.get("flags")} need {b.f["consumed"]} bytes, the box has {b.size}'
                for b in self.boxes() if isinstance(b.f.get('consumed'), int) and b.f['consumed'] > b.size]


def top_level_layout(data: bytes) -> list[tuple[str, int, int]]:
    """[(type, pos, size)] of top-level boxes; raises WalkError when they do not tile."""
    out = []
    p = 0
    n = len(data)
    while p < n:
        if n - p < 8:
            raise WalkError(f'trailing bytes at {p}')
        size, typ = struct.unpack_from('>I4s', data, p)
        if size == 1:
            size = struct.unpack_from('>Q', data, p + 8)[0]
        elif size == 0:
            size = n - p
        if size < 8 or p + size > n:
            raise WalkError(f'box {typ!r} at {p} size {size} overruns buffer {n}')
        out.append((typ.decode('latin1'), p, size))
        p += size
    return out
