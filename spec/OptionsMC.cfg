SPECIFICATION Spec
INVARIANT ForwardedOk
INVARIANT NotForwardedOk
CHECK_DEADLOCK FALSE
