---------------------------- MODULE PlayerSession ----------------------------
(***************************************************************************)
(* System level: a DASH player following the live edge of one              *)
(* Representation through time - the journey that C01 (advertised segments *)
(* are retrievable), C02 (served time = advertised time), C08 (publishTime *)
(* monotone) and C09 (successive manifests agree, the window only moves    *)
(* forward) are each one step of.                                          *)
(*                                                                         *)
(* Time is counted in ticks; a segment lasts SegTicks ticks; segment n     *)
(* (n >= 1) covers [(n-1)*SegTicks, n*SegTicks) and is complete at         *)
(* n*SegTicks.  The ideal server lists, at time t, the complete segments   *)
(* of the last Depth segment durations and serves a listed segment with    *)
(* 200; it may serve one older segment (leeway) and never a future one.    *)
(*                                                                         *)
(* The player alternates Tick / Refresh / Fetch.  It fetches segments in   *)
(* order from the manifest it holds; when it has fallen out of the window  *)
(* it jumps forward (Skip).                                                *)
(***************************************************************************)
EXTENDS Naturals, Sequences, PlayerSessionRules

CONSTANTS SegTicks,     \* ticks per segment
          Depth,        \* window length in segments
          MaxT          \* horizon (model bound)

Max(a, b) == IF a > b THEN a ELSE b

Hi(t) == t \div SegTicks                       \* newest complete segment at time t (0 = none)
Lo(t) == Max(1, Hi(t) - Depth + 1)             \* oldest listed segment
Listed(n, t) == Lo(t) <= n /\ n <= Hi(t)
Serve(n, t) == IF Lo(t) - 1 <= n /\ n <= Hi(t) /\ n >= 1 THEN 200 ELSE 404

VARIABLES now,          \* clock
          held,         \* time of the manifest the player holds (-1: none), encoded as now + 1 (0 = none)
          next,         \* next segment number the player wants (0 = not joined)
          log           \* sequence of [n, t, status] fetch records
vars == <<now, held, next, log>>

Init == now = 0 /\ held = 0 /\ next = 0 /\ log = <<>>

Tick == now < MaxT /\ now' = now + 1 /\ UNCHANGED <<held, next, log>>

Refresh ==
    /\ held' = now + 1
    /\ next' = IF next = 0 THEN (IF Hi(now) = 0 THEN 0 ELSE Max(Lo(now), Hi(now) - 1))      \* join near the live edge
               ELSE next
    /\ UNCHANGED <<now, log>>

HeldT == held - 1
Fetch ==
    /\ held > 0 /\ next > 0
    /\ Listed(next, HeldT)                       \* the player only asks for what its manifest lists
    /\ log' = Append(log, [n |-> next, t |-> now, status |-> Serve(next, now), held |-> HeldT])
    /\ next' = next + 1
    /\ UNCHANGED <<now, held>>

\* fallen out of the manifest's window: resume at its oldest listed segment
Skip ==
    /\ held > 0 /\ next > 0 /\ next < Lo(HeldT)
    /\ next' = Lo(HeldT)
    /\ UNCHANGED <<now, held, log>>

Next == Tick \/ Refresh \/ Fetch \/ Skip \/ (now = MaxT /\ UNCHANGED vars)
Spec == Init /\ [][Next]_vars /\ WF_vars(Tick) /\ WF_vars(Refresh) /\ WF_vars(Fetch) /\ WF_vars(Skip)

(* ---- what a player can rely on (design properties of the ideal server) ---------------- *)
\* C01 at session level: a listed segment fetched at the instant of the manifest is served
FetchAtManifestTimeIs200 ==
    \A i \in 1..Len(log) : log[i].t = log[i].held => log[i].status = 200
\* ... and keeps being served for at least one further segment duration (the leeway)
FetchSoonAfterIs200 ==
    \A i \in 1..Len(log) : log[i].t - log[i].held <= SegTicks => log[i].status = 200
\* the server never serves a segment before it is complete
NeverEarly == \A i \in 1..Len(log) : log[i].status = 200 => log[i].n * SegTicks <= log[i].t
\* the player's requests are in order
InOrder == \A i \in 1..(Len(log) - 1) : log[i].n < log[i + 1].n
\* C09: the listed window only moves forward with time
WindowForward == \A t \in 0..(MaxT - 1) : Lo(t) <= Lo(t + 1) /\ Hi(t) <= Hi(t + 1)
\* progress: with fair ticking, refreshing, fetching and skipping the player ends up at the live edge of the horizon
Progress == <>[](Hi(MaxT) = 0 \/ next > Hi(MaxT) - Depth)

\* the clauses evaluated on real sessions are in PlayerSessionRules (no variables), shared with PlayerSessionTrace
=============================================================================
