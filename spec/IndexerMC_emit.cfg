SPECIFICATION Spec
CONSTANTS
  MaxFragments = 2
  ExtendKinds <- CodeKinds
  Loose = TRUE
  EMIT = TRUE
INVARIANT Emit
CHECK_DEADLOCK FALSE
