----------------------------- MODULE LiveWindow -----------------------------
(***************************************************************************)
(* C01 C02 C06 (C09): what a live / static manifest advertises for one     *)
(* Representation and what the media endpoint answers for it.              *)
(*                                                                         *)
(* Time.  Instants and durations on the wall-clock axis are integers in    *)
(* units of 1/Q second (Q is a constant: 40 in the small-scope instances - *)
(* a common multiple of the model timescales - so that every breakpoint of *)
(* the behaviour lies on an even grid point and every odd grid point is    *)
(* the interior of a behaviour class).  Media time is in ticks of the      *)
(* Representation's timescale, as in the manifest and in the mp4 boxes.    *)
(*                                                                         *)
(* Records                                                                 *)
(*   rep = [ts, durs, sn, segdur, st]   timescale, stored segment          *)
(*         durations, start number, nominal segment duration (the value    *)
(*         written to SegmentTemplate@duration), first decode time         *)
(*   ref = [ts, mediaDur, segDur]       the stream's timing reference      *)
(*   o   = [depth, leeway, timeline]    resolved options (seconds)         *)
(*                                                                         *)
(* Implementation level = dashlive/mpeg/dash/{timing,representation}.py    *)
(* and LiveMedia.calculate_media_segment_index as written (the Impl...     *)
(* operators).  Property level = clauses C01, C02, C06 stated on           *)
(* observations (manifest projection + response projection) only.          *)
(***************************************************************************)
EXTENDS Integers, Sequences, FiniteSets

CONSTANT Q

Min(a, b) == IF a < b THEN a ELSE b
Max(a, b) == IF a > b THEN a ELSE b
Abs(a) == IF a < 0 THEN -a ELSE a

\* floor division for possibly negative numerators (TLC's \div already floors; kept explicit)
FloorDiv(a, b) == a \div b

RECURSIVE SumTo(_, _)
SumTo(s, k) == IF k <= 0 THEN 0 ELSE s[k] + SumTo(s, k - 1)
Sum(s) == SumTo(s, Len(s))
RECURSIVE MaxOf(_, _)
MaxOf(s, k) == IF k <= 0 THEN 0 ELSE Max(s[k], MaxOf(s, k - 1))

NumSegs(rep)      == Len(rep.durs)
MediaDur(rep)     == Sum(rep.durs)
RefDurTc(rep, ref) ==                                         \* media_duration_using_timescale
    IF ref.ts = rep.ts THEN ref.mediaDur ELSE (ref.mediaDur * rep.ts) \div ref.ts
SrcStart(rep, m)  == SumTo(rep.durs, m - 1)                    \* offset of stored segment m in the file
StoredTfdt(rep, m) == rep.st + SrcStart(rep, m)

-----------------------------------------------------------------------------
(* Implementation level                                                    *)
-----------------------------------------------------------------------------
\* DashTiming.calculate_live_params (the part C01/C02 depend on); e = now - AST > 0
ImplTsbd(e, o) ==
    LET d == IF o.depth <= 0 THEN 60 ELSE o.depth
    IN  IF e < d * Q THEN e \div Q ELSE d
ImplFta(e, o) == e - ImplTsbd(e, o) * Q

\* timedelta_to_timecode: floor
TdToTc(t, ts) == (t * ts) \div Q

\* Representation.get_segment_index: nearest-start walk from the loop origin
RECURSIVE WalkFrom(_, _, _, _, _, _)
WalkFrom(rep, R, tc, mod, start, origin) ==
    IF start + (rep.durs[mod] \div 2) < tc
    THEN IF mod + 1 > NumSegs(rep)
         THEN WalkFrom(rep, R, tc, 1, origin + R, origin + R)
         ELSE WalkFrom(rep, R, tc, mod + 1, start + rep.durs[mod], origin)
    ELSE [mod |-> mod, start |-> start, origin |-> origin]

ImplWalk(rep, ref, tc) ==
    LET R == RefDurTc(rep, ref)
        origin == (tc \div R) * R
    IN  WalkFrom(rep, R, tc, 1, origin, origin)

\* Representation.generateSegmentTimeline, expanded (one record per S repetition)
RECURSIVE TimelineFrom(_, _, _, _, _, _)
TimelineFrom(rep, drift, end, dur, t, mod) ==
    IF dur >= end THEN <<>>
    ELSE LET d == rep.durs[mod] + (IF mod = NumSegs(rep) THEN drift ELSE 0)
         IN  <<[t |-> t, d |-> d, mod |-> mod]>> \o
             TimelineFrom(rep, drift, end, dur + d, t + d,
                          IF mod = NumSegs(rep) THEN 1 ELSE mod + 1)

ImplTimelineLive(rep, ref, e, o) ==
    LET w == ImplWalk(rep, ref, TdToTc(ImplFta(e, o), rep.ts))
    IN  TimelineFrom(rep, RefDurTc(rep, ref) - MediaDur(rep), ImplTsbd(e, o) * rep.ts,
                     0, w.start, w.mod)

\* static mode: never list more than the stored track (fix: C06)
ImplTimelineVod(rep, ref) == TimelineFrom(rep, 0, Min(RefDurTc(rep, ref), MediaDur(rep)), 0, 0, 1)

\* calculate_first_and_last_segment_number
ImplLast(rep, e)      == rep.sn + (TdToTc(e, rep.ts) \div rep.segdur)
ImplFirst(rep, e, o)  == Max(rep.sn, ImplLast(rep, e) - 1 - ((rep.ts * ImplTsbd(e, o)) \div rep.segdur) - 1)

NotFound == [status |-> 404, mod |-> 0, origin |-> 0, tfdt |-> 0, seq |-> 0, dur |-> 0]
Found(rep, mod, origin, seq) ==
    [status |-> 200, mod |-> mod, origin |-> origin, tfdt |-> StoredTfdt(rep, mod) + origin,
     seq |-> seq, dur |-> rep.durs[mod]]

\* LiveMedia.get + calculate_media_segment_index + calculate_segment_number_and_time, live
\* by \in {"number", "time"}
ImplServeLive(rep, ref, e, o, by, key) ==
    LET timecode == IF by = "number" THEN (key - rep.sn) * rep.segdur ELSE key
        segnum   == IF by = "number" THEN key ELSE key \div rep.segdur
        \* number used for the first..last test: $Time$ requests are mapped onto the
        \* start_number-based numbering (fix: C01)
        cmpnum   == IF by = "number" THEN key ELSE (key \div rep.segdur) + rep.sn
        \* oldest admissible start: floor((fta - leeway) * ts) - 2 * segment_duration
        \* (5.3.9.5.3: available until end + duration + timeShiftBufferDepth; fix: C01)
        oldest   == FloorDiv((ImplFta(e, o) - o.leeway * Q) * rep.ts, Q) - 2 * rep.segdur
        early    == timecode < oldest
        late     == timecode * Q > e * rep.ts          \* seg_delta > elapsed
    IN  IF early \/ late \/ timecode < 0 \/ NumSegs(rep) < 2 THEN NotFound
        ELSE IF cmpnum < ImplFirst(rep, e, o) \/ cmpnum > ImplLast(rep, e) THEN NotFound
        ELSE LET w == ImplWalk(rep, ref, timecode) IN Found(rep, w.mod, w.origin, segnum)

\* same, static (vod) mode
ImplServeVod(rep, by, key) ==
    LET segnum == IF by = "number" THEN key
                  ELSE ((key + (rep.segdur \div 4)) \div rep.segdur) + rep.sn
        mod    == 1 + segnum - rep.sn
    IN  IF segnum < rep.sn \/ segnum > NumSegs(rep) + rep.sn - 1 THEN NotFound
        ELSE Found(rep, mod, 0, segnum)

-----------------------------------------------------------------------------
(* Property level.                                                         *)
(* A manifest projection for one Representation:                           *)
(*   m = [ts, sn, D, tsbd, timeline]   timescale, startNumber, duration    *)
(*       attribute, timeShiftBufferDepth in whole seconds, expanded        *)
(*       SegmentTimeline (<<>> when the template addresses by $Number$)    *)
(* The clock enters only as Efloor = floor((T - AST) * ts) and             *)
(* Eceil = ceil((T - AST) * ts): t + d <= (T-AST)*ts  <=>  t + d <= Efloor *)
(* because the left side is an integer.                                    *)
-----------------------------------------------------------------------------
\* indices of timeline entries whose end is not later than T
AdvertisedTimes(m, Efloor) ==
    { i \in 1..Len(m.timeline) : m.timeline[i].t + m.timeline[i].d <= Efloor }

\* segment numbers whose 5.3.9.5.3 availability window contains T
AdvertisedNumbers(m, Efloor, Eceil) ==
    { n \in m.sn .. (m.sn + (Max(Efloor, 0) \div m.D)) :
        /\ (n - m.sn + 1) * m.D <= Efloor
        /\ Eceil <= (n - m.sn + 1) * m.D + m.tsbd * m.ts + m.D }

\* C02: consecutive entries are gapless
C02_Gapless(tl) == \A i \in 1..(Len(tl) - 1) : tl[i].t + tl[i].d = tl[i + 1].t

C02_TimeExact(entry, r) == r.status = 200 => (r.tfdt = entry.t /\ r.dur = entry.d)

\* Known finding C02-drift-duration (see known_findings.json): the SegmentTimeline stretches (or
\* shrinks) the last segment of every loop by the difference between the timing-reference
\* duration and the track duration, but the served fragment keeps its stored sample durations.
\* Used only to let the design-level run continue past this defect; the clause is unchanged.
Known_C02_DriftDuration(rep, ref, entry, r) ==
    /\ r.status = 200 /\ r.tfdt = entry.t
    /\ r.mod = NumSegs(rep)
    /\ RefDurTc(rep, ref) # MediaDur(rep)
    /\ entry.d - r.dur = RefDurTc(rep, ref) - MediaDur(rep)

\* tolerance: half a segment duration (the larger of the nominal duration and the longest
\* stored segment) plus the drift correction applied at the loop seam
NumberTol(rep, ref, tfdt) ==
    (Max(rep.segdur, MaxOf(rep.durs, Len(rep.durs))) \div 2) + 1
    + Abs(RefDurTc(rep, ref) - MediaDur(rep))

C02_NumberExact(rep, ref, m, n, r) ==
    r.status = 200 =>
        /\ r.seq = n
        /\ Abs(r.tfdt - (n - m.sn) * m.D) <= NumberTol(rep, ref, r.tfdt)

\* the stored segment delivered is the one whose stored decode time is congruent to the
\* presentation time modulo the timing-reference duration
C02_SourceAligned(rep, ref, r) ==
    r.status = 200 =>
        /\ r.mod \in 1..NumSegs(rep)
        /\ (r.tfdt - StoredTfdt(rep, r.mod)) % RefDurTc(rep, ref) = 0
        /\ r.tfdt >= StoredTfdt(rep, r.mod)

\* the same clause when only (tfdt mod R) is observable (real-scale traces, rebased numbers)
C02_SourceAlignedMod(rep, R, mod, tmodr) ==
    /\ mod \in 1..NumSegs(rep)
    /\ tmodr = StoredTfdt(rep, mod) % R

\* C06 (static): the timeline / number range describes the stored track exactly
C06_TimelineIsStoredTrack(rep, tl) ==
    /\ Len(tl) = NumSegs(rep)
    /\ \A i \in 1..Len(tl) : i <= NumSegs(rep) => tl[i].d = rep.durs[i]
    /\ Len(tl) > 0 => tl[1].t = rep.st
    /\ C02_Gapless(tl)
=============================================================================
