SPECIFICATION Spec
CONSTANTS
  MaxLoops = 2
  MaxFetch = 2
INVARIANT SomeAppliedDone
CHECK_DEADLOCK FALSE
