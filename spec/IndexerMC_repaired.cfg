SPECIFICATION Spec
CONSTANTS
  MaxFragments = 2
  ExtendKinds <- AllButOpeners
  Loose = TRUE
  EMIT = FALSE
INVARIANT InitOk
INVARIANT AllIndexed
INVARIANT Tiles
CHECK_DEADLOCK FALSE
