SPECIFICATION Spec
CONSTANTS
  Geoms <- GeomsThorough
  EMIT = FALSE
INVARIANT RefinesAll
INVARIANT C20_PosInWindow
INVARIANT CacheBounded
CHECK_DEADLOCK FALSE
