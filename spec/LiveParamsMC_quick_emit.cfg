SPECIFICATION Spec
CONSTANTS
  Tier = "quick"
  EMIT = TRUE
CHECK_DEADLOCK FALSE
INVARIANT Emit
