------------------------------ MODULE HttpRange ------------------------------
(***************************************************************************)
(* C13 - byte-range requests return exactly the requested bytes.           *)
(* A Range header is abstracted (by the projection, with the RFC 7233      *)
(* grammar: ASCII digits only, no white space) to                          *)
(*   [kind |-> "absent"]                                                   *)
(*   [kind |-> "single", a, b]      bytes=a-b                              *)
(*   [kind |-> "from", a]           bytes=a-                               *)
(*   [kind |-> "suffix", n]         bytes=-n                               *)
(*   [kind |-> "other"]             anything else (malformed, other unit,  *)
(*                                  several ranges)                        *)
(* L is the length of the full representation.                             *)
(***************************************************************************)
EXTENDS Integers

\* Apalache type aliases (comments for TLC):
\* @typeAlias: hdr = { kind: Str, a: Int, b: Int, n: Int };
\* @typeAlias: cls = { class: Str, a: Int, b: Int };
\* @typeAlias: resp = { status: Int, cr: Str, first: Int, last: Int, clen: Int, blen: Int, slice_ok: Int, full_ok: Int };
HttpRange_aliases == TRUE

Min(x, y) == IF x < y THEN x ELSE y
Max(x, y) == IF x > y THEN x ELSE y

\* ---- RFC 7233 section 2.1 ---------------------------------------------------
\* @type: (Int, Int) => $cls;
Sat(a, b)  == [class |-> "sat", a |-> a, b |-> b]
\* @type: $cls;
Unsat      == [class |-> "unsat", a |-> 0, b |-> 0]
\* @type: $cls;
Invalid    == [class |-> "nonsingle", a |-> 0, b |-> 0]
\* @type: $cls;
Full       == [class |-> "full", a |-> 0, b |-> 0]

\* @type: ($hdr, Int) => $cls;
Rfc7233(h, L) ==
    CASE h.kind = "absent" -> Full
      [] h.kind = "single" ->
            IF h.b < h.a THEN Invalid                         \* not a valid byte-range-spec
            ELSE IF h.a >= L THEN Unsat
            ELSE Sat(h.a, Min(h.b, L - 1))                    \* last-byte-pos beyond the end is clamped
      [] h.kind = "from" -> IF h.a >= L THEN Unsat ELSE Sat(h.a, L - 1)
      [] h.kind = "suffix" ->
            IF h.n = 0 \/ L = 0 THEN Unsat ELSE Sat(Max(0, L - h.n), L - 1)
      [] OTHER -> Invalid

\* ---- observed response --------------------------------------------------------
\* r = [status, cr ("none" | "star" | "range"), first, last, clen (length named in Content-Range),
\*      blen (body length), slice_ok (body = full[first..last], computed by the projection),
\*      full_ok (body = full representation)]
\* @type: ($resp, Int) => Bool;
Consistent206(r, L) ==
    /\ r.status = 206 /\ r.cr = "range" /\ r.clen = L
    /\ 0 <= r.first /\ r.first <= r.last /\ r.last < L
    /\ r.blen = r.last - r.first + 1 /\ r.slice_ok = 1

\* @type: ($hdr, Int, $resp) => Bool;
C13_SatisfiableIs206WithExactSlice(h, L, r) ==
    Rfc7233(h, L).class = "sat" =>
        Consistent206(r, L) /\ r.first = Rfc7233(h, L).a /\ r.last = Rfc7233(h, L).b

\* @type: ($hdr, Int, $resp) => Bool;
C13_SuffixLongerThanResourceIsWhole(h, L, r) ==
    (h.kind = "suffix" /\ h.n >= L /\ L > 0) =>
        r.status = 206 /\ r.first = 0 /\ r.last = L - 1 /\ r.blen = L /\ r.full_ok = 1

\* @type: ($hdr, Int, $resp) => Bool;
C13_Unsatisfiable416StarLength(h, L, r) ==
    Rfc7233(h, L).class = "unsat" => r.status = 416 /\ r.cr = "star" /\ r.clen = L

\* @type: ($hdr, Int, $resp) => Bool;
C13_NonSingleIs400OrConsistent(h, L, r) ==
    Rfc7233(h, L).class = "nonsingle" =>
        \/ r.status = 400
        \/ r.status = 416 /\ r.cr = "star" /\ r.clen = L
        \/ r.status = 200 /\ r.full_ok = 1
        \/ Consistent206(r, L)

\* mandatory = 1 for resources that require a Range header (on-demand media files)
\* @type: ($hdr, Int, $resp, Int) => Bool;
C13_AbsentIsFullOr400WhereMandatory(h, L, r, mandatory) ==
    h.kind = "absent" =>
        \/ r.status = 200 /\ r.full_ok = 1
        \/ mandatory = 1 /\ r.status = 400

\* @type: ($resp) => Bool;
C13_Never5xx(r) == r.status < 500

\* ---- implementation level: RequestHandlerBase.get_http_range + the callers --------
\* @type: ($hdr, Int) => $resp;
ImplRange(h, L) ==
    LET resp(st, cr, f, l, bl, so, fo) ==
            [status |-> st, cr |-> cr, first |-> f, last |-> l, clen |-> L, blen |-> bl, slice_ok |-> so, full_ok |-> fo]
        ranged(start, end) ==
            IF end < start THEN resp(416, "star", 0, 0, 0, 0, 0)
            ELSE resp(206, "range", start, end, end - start + 1, 1, IF start = 0 /\ end = L - 1 THEN 1 ELSE 0)
    IN  CASE h.kind = "absent" -> resp(200, "none", 0, 0, L, 0, 1)
          [] h.kind = "other"  -> resp(400, "none", 0, 0, 0, 0, 0)
          [] h.kind = "single" -> ranged(h.a, Min(h.b, L - 1))
          [] h.kind = "from"   -> ranged(h.a, L - 1)
          [] h.kind = "suffix" -> ranged(Max(0, L - h.n), L - 1)

\* @type: ($hdr, Int, $resp, Int) => Bool;
AllClauses(h, L, r, mandatory) ==
    /\ C13_SatisfiableIs206WithExactSlice(h, L, r)
    /\ C13_SuffixLongerThanResourceIsWhole(h, L, r)
    /\ C13_Unsatisfiable416StarLength(h, L, r)
    /\ C13_NonSingleIs400OrConsistent(h, L, r)
    /\ C13_AbsentIsFullOr400WhereMandatory(h, L, r, mandatory)
    /\ C13_Never5xx(r)
=============================================================================
