---------------------------- MODULE MultiPeriodMC ----------------------------
EXTENDS MultiPeriod, TLC
CONSTANT Tier
RefV == [ts |-> 4, mediaDur |-> 80, segDur |-> 16]
Reps == {[ts |-> 4,  durs |-> <<16, 16, 16, 16, 16>>, sn |-> 1, segdur |-> 16, st |-> 0],
         [ts |-> 10, durs |-> <<39, 41, 39, 41, 39>>, sn |-> 1, segdur |-> 39, st |-> 0],
         [ts |-> 10, durs |-> <<41, 40, 40, 40, 40>>, sn |-> 3, segdur |-> 40, st |-> 0]}
PeriodLists == { <<[dur |-> 320]>>, <<[dur |-> 160], [dur |-> 480]>>, <<[dur |-> 170], [dur |-> 90], [dur |-> 300]>>,
                 <<[dur |-> 1], [dur |-> 799]>> }
VARIABLES rep, offset, ps, e, o
vars == <<rep, offset, ps, e, o>>
\* offsets in the last half of the last source segment are outside this instance: the nearest-start
\* walk of the implementation wraps to the next loop of the source there (noted in DESIGN.md, C12)
Init == /\ rep \in Reps /\ offset \in 0..(SrcStart(rep, NumSegs(rep)) + (rep.durs[NumSegs(rep)] \div 2))
        /\ ps \in PeriodLists /\ e \in {1, 39, 40, 41, 160, 161, 319, 320, 321, 640, 800, 801, 1000, 1599, 1600, 1601, 2000}
        /\ o \in [depth : {5, 12, 0}, leeway : {0}]
Next == UNCHANGED vars
Spec == Init /\ [][Next]_vars
Serve(n) == ImplMpsServe(rep, RefV, offset, n)
MediaOk ==
    \A n \in rep.sn .. (rep.sn + NumSegs(rep)) :
        /\ C12_NthFromNearestOffset(rep, offset, n, Serve(n))
        /\ C12_DecodeTimesFromZeroGapless(rep, n, Serve(n), Serve(n + 1))
        /\ C12_BeyondEnd404(rep, offset, n, Serve(n))
VodOk == /\ C12_Contiguous(ImplVodPeriods(ps)) /\ C12_VodSumsToMpdDuration(ImplVodPeriods(ps), ImplVodMpdDuration(ps))
         /\ C12_IdsUniquePerRepetition(ImplVodPeriods(ps))
LiveOk == LET l == ImplLivePeriods(ps, e, o) IN
          /\ C12_Contiguous(l) /\ C12_IdsUniquePerRepetition(l) /\ C12_LiveCoversWindow(l, e, ImplFta(e, o))
=============================================================================
