------------------------------ MODULE TimeSource ------------------------------
(***************************************************************************)
(* X01 - the service's clock as clients see it (outside the 20 listed      *)
(* properties; system behaviour of dashlive/server/requesthandler/         *)
(* utctime.py, time_source_context.py and the drift= option).              *)
(*                                                                         *)
(* The service has one clock.  A client chooses a UTCTiming method and a    *)
(* clock drift d; the manifest it gets is the manifest of the instant      *)
(* now - d, names a time source by scheme, and that source - followed at   *)
(* any later instant - answers that instant minus d, in the encoding the   *)
(* scheme promises:                                                        *)
(*   xsd       xs:dateTime, microsecond exact                              *)
(*   iso       ISO-8601 week date, whole seconds                           *)
(*   http-ntp  64-bit NTP timestamp (seconds since 1900 mod 2^32, binary   *)
(*             fraction)                                                   *)
(*   head      nothing in the body; the Date header (every method has it)  *)
(*   direct    the value itself, in the manifest                           *)
(* Instants are [d, s, u] records (Prelude); 32-bit fields arrive as two   *)
(* 16-bit limbs.                                                           *)
(***************************************************************************)
EXTENDS Integers, Sequences, Prelude

Methods == {"xsd", "iso", "http-ntp", "head", "direct", "ntp", "sntp"}
HttpMethods == {"xsd", "iso", "http-ntp", "head"}

SchemeOf(m) ==
    CASE m = "xsd"      -> "urn:mpeg:dash:utc:http-xsdate:2014"
      [] m = "iso"      -> "urn:mpeg:dash:utc:http-iso:2014"
      [] m = "http-ntp" -> "urn:mpeg:dash:utc:http-ntp:2014"
      [] m = "head"     -> "urn:mpeg:dash:utc:http-head:2014"
      [] m = "direct"   -> "urn:mpeg:dash:utc:direct:2014"
      [] m = "ntp"      -> "urn:mpeg:dash:utc:ntp:2014"
      [] m = "sntp"     -> "urn:mpeg:dash:utc:sntp:2014"
      [] OTHER          -> ""

\* what the client is told: the service's clock, drift seconds behind
Shifted(now, drift) ==           \* whole days first: now.s - drift must not leave TLC's 32-bit integers
    LET dd == drift \div 86400
        r  == drift % 86400
    IN  AddSec([now EXCEPT !.d = @ - dd], 0 - r)

\* ---- ISO-8601 week date of a day number (days since 1970-01-01, a Thursday) -------------
Weekday(days) == ((days + 3) % 7) + 1                      \* Monday = 1 .. Sunday = 7
IsoWeek(days) ==
    LET wd == Weekday(days)
        th == days - wd + 4                                  \* the Thursday of this week decides the week-year
        y  == CivilFromDays(th).y
    IN  [wy |-> y, ww |-> ((th - DaysFromCivil(y, 1, 1)) \div 7) + 1, wd |-> wd]

\* ---- NTP timestamp (RFC 5905): seconds since 1900-01-01 modulo 2^32, as 16-bit limbs ------
NtpSeconds(inst) ==
    LET D  == inst.d + 25567                                 \* days from 1900-01-01 to 1970-01-01
        lo == D * 20864 + inst.s                             \* 86400 = 65536 + 20864
        hi == D + (lo \div 65536)
    IN  [hi |-> hi % 65536, lo |-> lo % 65536]
\* upper 16 bits of the binary fraction of u microseconds: floor(u * 2^16 / 10^6)
NtpFracHi(u) == (u * 1024) \div 15625
Abs(x) == IF x < 0 THEN 0 - x ELSE x

\* ---- clauses over one observed response ---------------------------------------------------
\* t: [method, http ("GET" | "HEAD": a HEAD response is judged by status and Date header only), now, drift, status, date:[d,s] (Date header), body per method]
X01_Answers(t) == t.status = 200
X01_DateHeader(t) == LET e == Shifted(t.now, t.drift) IN t.date.d = e.d /\ t.date.s = e.s
X01_XsdExact(t) == (t.method = "xsd" /\ t.http = "GET") => t.xsd = Shifted(t.now, t.drift)
X01_IsoWeekDate(t) ==
    (t.method = "iso" /\ t.http = "GET") =>
        LET e == Shifted(t.now, t.drift)
            w == IsoWeek(e.d)
        IN  /\ t.iso.wy = w.wy /\ t.iso.ww = w.ww /\ t.iso.wd = w.wd
            /\ t.iso.h * 3600 + t.iso.mi * 60 + t.iso.s = e.s
X01_NtpTimestamp(t) ==
    (t.method = "http-ntp" /\ t.http = "GET") =>
        LET e == Shifted(t.now, t.drift)
            n == NtpSeconds(e)
        IN  /\ t.ntp.len = 8
            /\ t.ntp.sec_hi = n.hi /\ t.ntp.sec_lo = n.lo
            /\ Abs(t.ntp.frac_hi - NtpFracHi(e.u)) <= 1       \* the service computes the fraction in floating point
X01_HeadHasNoBody(t) == t.method = "head" => t.bodylen = 0

\* ---- clauses over one manifest -----------------------------------------------------------
\* m: [method, now, drift, has (0/1: a UTCTiming element), scheme, kind ("direct"|"url"|"servers"), direct:[d,s,u],
\*     url_method (the /time/<method> the value points at), url_drift (the drift the URL carries, 0 if none)]
X01_SchemeMatchesMethod(m) == m.has = 1 /\ m.scheme = SchemeOf(m.method)
X01_DirectIsShiftedNow(m) == m.method = "direct" => (m.kind = "direct" /\ m.direct = Shifted(m.now, m.drift))
X01_SourceCarriesDrift(m) == m.method \in HttpMethods => (m.kind = "url" /\ m.url_method = m.method /\ m.url_drift = m.drift)
X01_ServersListed(m) == m.method \in {"ntp", "sntp"} => (m.kind = "servers" /\ m.nservers >= 1)
\* the manifest served at `now' with drift d is the manifest of the instant now - d (same fields, compared as text)
X01_DriftShiftsManifest(m) == m.shifted = m.plain
=============================================================================
