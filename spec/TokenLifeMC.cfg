SPECIFICATION Spec
CONSTANTS
  Users = {"u1", "u2"}
  MaxTok = 6
  MaxNow = 7
INVARIANT MintedForSameUser
INVARIANT MintedWhileParentFresh
INVARIANT EveryTokenDies
PROPERTY NoMintFromRevoked
PROPERTY LogoutIsPerUser
PROPERTY RevocationIsPermanent
CHECK_DEADLOCK FALSE
