SPECIFICATION Spec
CONSTANTS
  SegTicks = 2
  Depth = 2
  MaxT = 9
INVARIANT SomeLate404
CHECK_DEADLOCK FALSE
