------------------------------- MODULE Store -------------------------------
(***************************************************************************)
(* C17 - management histories keep the store consistent.                   *)
(* Abstract store (projection of the SQLite tables + blob folder):         *)
(*   streams  : set of [pk, dir, tref]      tref = media name or ""        *)
(*   files    : set of [pk, name, stream, blob, ondisk]  media_file rows    *)
(*   blobs    : set of blob pks                                            *)
(*   keys     : set of [pk, kid]                                           *)
(*   links    : set of [media, key]          mediafile_keys                *)
(*   mps      : set of [pk, name]                                          *)
(*   periods  : set of [pk, parent, stream]                                *)
(*   adps     : set of [pk, period]                                        *)
(*   errors   : set of [pk, media]           media_file_error rows         *)
(* Property level: clauses over one state, or over a (state, op, state')   *)
(* step.  Implementation level: StoreMC.                                   *)
(***************************************************************************)
EXTENDS Integers, Sequences, FiniteSets

Pks(S) == { x.pk : x \in S }

C17_FileHasStreamAndBlob(st) ==
    \A f \in st.files : f.stream \in Pks(st.streams) /\ f.blob \in st.blobs /\ f.ondisk = 1
C17_KeyLinksExist(st) ==
    \A k \in st.links : k.media \in Pks(st.files) /\ k.key \in Pks(st.keys)
C17_PeriodsPointAtRows(st) ==
    \A p \in st.periods : p.parent \in Pks(st.mps) /\ p.stream \in Pks(st.streams)
C17_AdaptationSetsPointAtRows(st) == \A a \in st.adps : a.period \in Pks(st.periods)
C17_TimingReferenceExists(st) ==
    \A s \in st.streams : s.tref # "" => \E f \in st.files : f.name = s.tref /\ f.stream = s.pk
C17_RefIntegrity(st) ==
    /\ C17_FileHasStreamAndBlob(st) /\ C17_KeyLinksExist(st) /\ C17_PeriodsPointAtRows(st)
    /\ C17_AdaptationSetsPointAtRows(st) /\ C17_TimingReferenceExists(st)

C17_NamesUnique(st) ==
    /\ \A a, b \in st.streams : a.dir = b.dir => a.pk = b.pk
    /\ \A a, b \in st.files : a.name = b.name => a.pk = b.pk
    /\ \A a, b \in st.keys : a.kid = b.kid => a.pk = b.pk
    /\ \A a, b \in st.mps : a.name = b.name => a.pk = b.pk

\* rows owned by a stream / a media file / a key / a multi-period stream
FilesOf(st, spk) == { f \in st.files : f.stream = spk }
\* a deletion removes exactly the rows it owns:
\*   delete_stream(spk): the stream, its media files, their blobs, key links and index-error rows
\*   delete_media(mpk) : the file, its blob, its key links, its index-error rows
\*   delete_key(kpk)   : the key and its links
\*   delete_mps(mpk)   : the mps, its periods, their adaptation sets
\* and everything else is unchanged.
C17_DeleteStreamExact(a, b, spk) ==
    LET fs == FilesOf(a, spk) IN
    /\ b.streams = { s \in a.streams : s.pk # spk }
    /\ b.files = a.files \ fs
    /\ b.blobs = a.blobs \ { f.blob : f \in fs }
    /\ b.links = { k \in a.links : k.media \notin Pks(fs) }
    /\ b.errors = { e \in a.errors : e.media \notin Pks(fs) }
    /\ b.keys = a.keys /\ b.mps = a.mps /\ b.periods = a.periods /\ b.adps = a.adps
C17_DeleteMediaExact(a, b, mpk) ==
    LET fs == { f \in a.files : f.pk = mpk } IN
    /\ b.files = a.files \ fs
    /\ b.blobs = a.blobs \ { f.blob : f \in fs }
    /\ b.links = { k \in a.links : k.media # mpk }
    /\ b.errors = { e \in a.errors : e.media # mpk }
    /\ b.streams = a.streams /\ b.keys = a.keys /\ b.mps = a.mps /\ b.periods = a.periods /\ b.adps = a.adps
C17_DeleteKeyExact(a, b, kpk) ==
    /\ b.keys = { k \in a.keys : k.pk # kpk }
    /\ b.links = { k \in a.links : k.key # kpk }
    /\ b.streams = a.streams /\ b.files = a.files /\ b.blobs = a.blobs /\ b.mps = a.mps
    /\ b.periods = a.periods /\ b.adps = a.adps /\ b.errors = a.errors
C17_DeleteMpsExact(a, b, mpk) ==
    LET ps == { p \in a.periods : p.parent = mpk } IN
    /\ b.mps = { m \in a.mps : m.pk # mpk }
    /\ b.periods = a.periods \ ps
    /\ b.adps = { x \in a.adps : x.period \notin Pks(ps) }
    /\ b.streams = a.streams /\ b.files = a.files /\ b.blobs = a.blobs /\ b.keys = a.keys /\ b.links = a.links
    /\ b.errors = a.errors
\* creating or replacing content in one stream removes nothing that belongs to another stream
\* the object a deletion addresses
Exists(a, op, pk) ==
    IF op = "delete_stream" THEN pk \in Pks(a.streams)
    ELSE IF op = "delete_media" THEN pk \in Pks(a.files)
    ELSE IF op = "delete_key" THEN pk \in Pks(a.keys)
    ELSE IF op = "delete_mps" THEN pk \in Pks(a.mps)
    ELSE FALSE
\* a deletion of an existing object that ends in a server error has not removed what it owns
C17_DeleteDoesNotCrash(a, op, pk, status) == Exists(a, op, pk) => status < 500
C17_UploadTouchesOnlyItsStream(a, b, spk) ==
    /\ \A f \in a.files : f.stream # spk => f \in b.files
    /\ \A s \in a.streams : s.pk # spk => s \in b.streams
=============================================================================
