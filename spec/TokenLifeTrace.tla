---------------------------- MODULE TokenLifeTrace ----------------------------
(* one session of API-token events against the real service, replayed through TokenLife:                                      *)
(* {ev:"tick", dt}  {ev:"login", user, a, r, a_exp, r_exp (seconds after now)}  {ev:"use", id, accepted}                      *)
(* {ev:"refresh", id (0 = no token), accepted, new_id, minted_user}  {ev:"logout", id, accepted}  {ev:"restart"}              *)
(* every line carries tid (the session) and first (1 on the first line of a session)                                           *)
EXTENDS TokenLife, TLC, Json, IOUtils
TraceLog == ndJsonDeserialize(IOEnv.TRACE_FILE)
VARIABLES l, now, tok, revoked
Report(c, ok, detail) ==
    IF ok THEN TRUE
    ELSE PrintT(<<"V", ToJson([line |-> l, tid |-> TraceLog[l].tid, clause |-> c, detail |-> detail])>>)
Age(id, t0) == IF id \in DOMAIN tok THEN t0 - tok[id].iat ELSE 0 - 1
Kind(id) == IF id \in DOMAIN tok THEN tok[id].kind ELSE "unknown"
With(f, id, rec) == [i \in DOMAIN f \cup {id} |-> IF i = id THEN rec ELSE f[i]]
Step(t) ==
    LET n0 == IF t.first = 1 THEN 0 ELSE now
        k0 == IF t.first = 1 THEN <<>> ELSE tok
        r0 == IF t.first = 1 THEN {} ELSE revoked
    IN
    CASE t.ev = "tick" -> now' = n0 + t.dt /\ tok' = k0 /\ revoked' = r0
      [] t.ev = "restart" -> now' = n0 /\ tok' = k0 /\ revoked' = r0
      [] t.ev = "login" ->
            /\ Report("X02_ReportedExpiry", X02_ReportedExpiry("access", 0, t.a_exp) /\ X02_ReportedExpiry("refresh", 0, t.r_exp),
                      [access |-> t.a_exp, refresh |-> t.r_exp])
            /\ now' = n0 /\ revoked' = r0
            /\ tok' = With(With(k0, t.a, [kind |-> "access", user |-> t.user, iat |-> n0]), t.r, [kind |-> "refresh", user |-> t.user, iat |-> n0])
      [] t.ev = "use" ->
            /\ Report("X02_UseAccepted", X02_UseAccepted(t.id, k0, r0, n0, t.accepted),
                      [kind |-> IF t.id \in DOMAIN k0 THEN k0[t.id].kind ELSE "unknown", age |-> IF t.id \in DOMAIN k0 THEN n0 - k0[t.id].iat ELSE 0 - 1,
                       revoked |-> IF t.id \in r0 THEN 1 ELSE 0, accepted |-> t.accepted])
            /\ now' = n0 /\ tok' = k0 /\ revoked' = r0
      [] t.ev = "refresh" /\ t.id = 0 ->
            /\ Report("X02_NoTokenIsGuest", X02_NoTokenIsGuest(t.accepted, t.minted_guest), [user |-> t.minted_user])
            /\ now' = n0 /\ revoked' = r0
            /\ tok' = IF t.accepted = 1 THEN With(k0, t.new_id, [kind |-> "access", user |-> t.minted_user, iat |-> n0]) ELSE k0
      [] t.ev = "refresh" /\ t.id # 0 ->
            /\ Report("X02_RefreshAccepted", X02_RefreshAccepted(t.id, k0, r0, n0, t.accepted),
                      [kind |-> IF t.id \in DOMAIN k0 THEN k0[t.id].kind ELSE "unknown", age |-> IF t.id \in DOMAIN k0 THEN n0 - k0[t.id].iat ELSE 0 - 1,
                       revoked |-> IF t.id \in r0 THEN 1 ELSE 0, accepted |-> t.accepted])
            /\ Report("X02_MintedForSameUser", t.id \notin DOMAIN k0 \/ X02_MintedForSameUser(t.id, k0, t.accepted, t.minted_user),
                      [user |-> t.minted_user])
            /\ now' = n0 /\ revoked' = r0
            /\ tok' = IF t.accepted = 1 THEN With(k0, t.new_id, [kind |-> "access", user |-> t.minted_user, iat |-> n0]) ELSE k0
      [] t.ev = "logout" ->
            /\ Report("X02_LogoutAccepted", X02_LogoutAccepted(t.id, k0, r0, n0, t.accepted),
                      [kind |-> IF t.id \in DOMAIN k0 THEN k0[t.id].kind ELSE "unknown", age |-> IF t.id \in DOMAIN k0 THEN n0 - k0[t.id].iat ELSE 0 - 1,
                       revoked |-> IF t.id \in r0 THEN 1 ELSE 0, accepted |-> t.accepted])
            /\ now' = n0 /\ tok' = k0
            /\ revoked' = IF t.accepted = 1 /\ t.id \in DOMAIN k0 THEN AfterLogout(t.id, k0, r0) ELSE r0
      [] OTHER -> now' = n0 /\ tok' = k0 /\ revoked' = r0
TraceInit == l = 1 /\ now = 0 /\ tok = <<>> /\ revoked = {}
TraceNext == l <= Len(TraceLog) /\ Step(TraceLog[l]) /\ l' = l + 1
TraceSpec == TraceInit /\ [][TraceNext]_<<l, now, tok, revoked>>
TraceAccepted == \/ TLCGet("stats").diameter - 1 = Len(TraceLog)
                 \/ Print(<<"TRACE_REJECTED", TLCGet("stats").diameter - 1, Len(TraceLog)>>, FALSE)
=============================================================================
