------------------------------- MODULE MpdRules -------------------------------
(***************************************************************************)
(* C05 - structural MPD rules over the projection of a document.           *)
(* A node is [tag, attrs, kids]; attrs is a sequence of                    *)
(*   [name, kind, lex, num, idents]                                        *)
(*   kind  : "duration" | "dateTime" | "uint" | "int_ge_m1" | "other"      *)
(*   lex   : 1 iff the text is lexically valid for its XSD type (decided   *)
(*           by the projection with a regular expression)                  *)
(*   num   : the value clamped to 0..2^31-1, or -1 when negative / invalid *)
(*   idents: template identifiers found in the value ($..$), for URL       *)
(*           template attributes                                           *)
(***************************************************************************)
EXTENDS Integers, Sequences, FiniteSets

HasAttr(n, a) == \E i \in 1..Len(n.attrs) : n.attrs[i].name = a
Attr(n, a) == n.attrs[CHOOSE i \in 1..Len(n.attrs) : n.attrs[i].name = a]
Kids(n, t) == { i \in 1..Len(n.kids) : n.kids[i].tag = t }

RECURSIVE AllNodes(_)
AllNodes(n) == {n} \cup UNION { AllNodes(n.kids[i]) : i \in 1..Len(n.kids) }

\* ---- required attributes ----------------------------------------------------------------
Required(n, root) ==
    CASE n.tag = "MPD" ->
            /\ HasAttr(n, "profiles") /\ HasAttr(n, "minBufferTime") /\ HasAttr(n, "type")
            /\ (HasAttr(n, "type") /\ Attr(n, "type").text = "dynamic") =>
                   (HasAttr(n, "availabilityStartTime") /\ HasAttr(n, "publishTime"))
            /\ (HasAttr(n, "type") /\ Attr(n, "type").text = "static") =>
                   \/ HasAttr(n, "mediaPresentationDuration")
                   \/ \A i \in Kids(n, "Period") : HasAttr(n.kids[i], "duration")
            /\ Kids(n, "Period") # {}
      [] n.tag = "Period" ->
            (HasAttr(root, "type") /\ Attr(root, "type").text = "dynamic") => HasAttr(n, "id")
      [] n.tag = "Representation" -> HasAttr(n, "id") /\ HasAttr(n, "bandwidth")
      [] n.tag = "S" -> HasAttr(n, "d")
      [] n.tag = "SegmentURL" -> HasAttr(n, "mediaRange") \/ HasAttr(n, "media")
      [] n.tag = "ContentProtection" -> HasAttr(n, "schemeIdUri")
      [] n.tag = "Role" -> HasAttr(n, "schemeIdUri")
      [] n.tag = "EventStream" -> HasAttr(n, "schemeIdUri")
      [] n.tag = "UTCTiming" -> HasAttr(n, "schemeIdUri")
      [] OTHER -> TRUE
C05_RequiredAttrs(root) == \A n \in AllNodes(root) : Required(n, root)
MissingRequired(root) == { n.tag : n \in { x \in AllNodes(root) : ~Required(x, root) } }

\* ---- lexical / numeric validity ------------------------------------------------------------
AttrOk(a) == a.kind # "other" => (a.lex = 1 /\ (IF a.kind = "int_ge_m1" THEN a.num >= -1 ELSE a.num >= 0))
C05_LexValid(root) == \A n \in AllNodes(root) : \A i \in 1..Len(n.attrs) : AttrOk(n.attrs[i])
LexOffenders(root) ==
    UNION { { <<n.tag, n.attrs[j].name, n.attrs[j].text>> : j \in { k \in 1..Len(n.attrs) : ~AttrOk(n.attrs[k]) } } : n \in AllNodes(root) }

\* ---- unique ids --------------------------------------------------------------------------------
IdsOf(n, t) == [i \in Kids(n, t) |-> IF HasAttr(n.kids[i], "id") THEN Attr(n.kids[i], "id").text ELSE ""]
Distinct(f) == \A i, j \in DOMAIN f : (f[i] # "" /\ f[i] = f[j]) => i = j
RepIds(p) == UNION { { Attr(a.kids[i], "id").text : i \in { k \in Kids(a, "Representation") : HasAttr(a.kids[k], "id") } }
                     : a \in { p.kids[j] : j \in Kids(p, "AdaptationSet") } }
RepCount(p) == LET S == { <<j, i>> : j \in Kids(p, "AdaptationSet"), i \in 1..200 } IN
               Cardinality({ x \in S : x[2] \in Kids(p.kids[x[1]], "Representation") })
C05_UniqueIds(root) ==
    /\ Distinct(IdsOf(root, "Period"))
    /\ \A pi \in Kids(root, "Period") :
          LET p == root.kids[pi] IN
          /\ Distinct(IdsOf(p, "AdaptationSet"))
          /\ Cardinality(RepIds(p)) = RepCount(p)

C05_NoEmptyAdaptationSet(root) ==
    \A n \in AllNodes(root) : n.tag = "AdaptationSet" => Kids(n, "Representation") # {}

AllowedIdents == {"RepresentationID", "Number", "Time", "Bandwidth", ""}
C05_TemplateIdentifiers(root) ==
    \A n \in AllNodes(root) : \A i \in 1..Len(n.attrs) :
        \A k \in 1..Len(n.attrs[i].idents) : n.attrs[i].idents[k] \in AllowedIdents

\* ---- relational: hostile strings never change the element skeleton ----------------------------
C05_SkeletonInvariant(skHostile, skBenign, hostileFound) == skHostile = skBenign /\ hostileFound = 1
=============================================================================
