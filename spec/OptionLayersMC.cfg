SPECIFICATION Spec
CONSTANTS
    Values = {1, 2, 3}
    Absent = Absent
    Nil = Nil
INVARIANT C07_LayersAgree
INVARIANT NoRedundantParameter
INVARIANT VariantWrongExactlyWhen
CHECK_DEADLOCK FALSE
