----------------------------- MODULE EventsTrace -----------------------------
(* {ev:"seg", sch:{start,interval,count,duration,ts,version}, s, e, rts,          *)
(*   boxes:[{id,version,ts,delta,ptime,duration}], scte:[{id, bytes:[..]}]}       *)
(*     s, e: segment bounds in representation ticks (rebased so that they stay    *)
(*     below 2^31; the schedule start is rebased with them)                        *)
(* {ev:"manifest", sch, events:[{id,ptime,duration}], scte:[{id,bytes}]}          *)
(* {ev:"rt", fields:{event_id:{mid,lo}, pts:{hi,mid,lo}, dur:{hi,mid,lo}, program_id, avail_num, *)
(*    avails_expected, auto_return}, bytes:[..], same (1 iff parse(encode(x)) = x field by field)} *)
EXTENDS Events, TLC, Json, IOUtils
TraceLog == ndJsonDeserialize(IOEnv.TRACE_FILE)
VARIABLE l
Report(c, ok, detail) ==
    IF ok THEN TRUE
    ELSE PrintT(<<"V", ToJson([line |-> l, tid |-> TraceLog[l].tid, clause |-> c, detail |-> detail])>>)
CheckSeg(t) ==
    /\ Report("C14_ExactlyOnce", C14_ExactlyOnce(t.sch, t.s, t.e, t.rts, t.boxes),
              [got |-> [i \in 1..Len(t.boxes) |-> t.boxes[i].id], want |-> Expected(t.sch, t.s, t.e, t.rts), count |-> t.sch.count])
    /\ Report("C14_IdAndTimeResolve", C14_IdAndTimeResolve(t.sch, t.s, t.rts, t.boxes), t.boxes)
    /\ \A i \in 1..Len(t.scte) :
         Report("C14_Scte35Decodes", C14_Scte35Decodes(t.sch, t.scte[i].id, t.scte[i].bytes), t.scte[i].id)
    /\ Report("DRIFT_events", [i \in 1..Len(t.boxes) |-> t.boxes[i].id] \in [1..Len(t.boxes) -> ImplEmsgIds(t.sch, t.s, t.e, t.rts)]
                              /\ Len(t.boxes) = Cardinality(ImplEmsgIds(t.sch, t.s, t.e, t.rts)), 0)
CheckManifest(t) ==
    /\ Report("C14_ManifestListsSchedule", C14_ManifestListsSchedule(t.sch, t.events), Len(t.events))
    /\ \A i \in 1..Len(t.scte) :
         Report("C14_Scte35Decodes", C14_Scte35Decodes(t.sch, t.scte[i].id, t.scte[i].bytes), t.scte[i].id)
CheckRt(t) ==
    /\ Report("C14_Scte35RoundTrip", t.same = 1, 0)
    /\ Report("C14_Scte35Decodes",
              /\ WellFormedSpliceInsert(t.bytes)
              /\ EventId(t.bytes) = t.fields.event_id
              /\ Pts(t.bytes) = t.fields.pts
              /\ BreakDuration(t.bytes) = t.fields.dur
              /\ UniqueProgramId(t.bytes) = t.fields.program_id
              /\ AvailNum(t.bytes) = t.fields.avail_num /\ AvailsExpected(t.bytes) = t.fields.avails_expected
              /\ AutoReturn(t.bytes) = t.fields.auto_return, t.fields)
Check(t) == IF t.ev = "fail" THEN Report("C14_ExactlyOnce", t.status < 500, [url |-> t.url, status |-> t.status])
            ELSE IF t.ev = "seg" THEN CheckSeg(t) ELSE IF t.ev = "manifest" THEN CheckManifest(t)
            ELSE IF t.ev = "rt" THEN CheckRt(t) ELSE TRUE
TraceInit == l = 1
TraceNext == l <= Len(TraceLog) /\ Check(TraceLog[l]) /\ l' = l + 1
TraceSpec == TraceInit /\ [][TraceNext]_l
TraceAccepted == \/ TLCGet("stats").diameter - 1 = Len(TraceLog)
                 \/ Print(<<"TRACE_REJECTED", TLCGet("stats").diameter - 1, Len(TraceLog)>>, FALSE)
=============================================================================
