------------------------------ MODULE Injection ------------------------------
(***************************************************************************)
(* C16 - injected errors fire exactly as asked; nothing else answers 5xx.  *)
(*                                                                         *)
(* An injection specification for one media type is a sequence of          *)
(* [code, pos] pairs plus an optional failure count f.  The service keeps  *)
(* one counter per (usage, code) in the client's session (cookie).         *)
(* Implementation level: check_for_synthetic_http_error as written         *)
(* (media_requests.py) with increment/reset_error_counter (base.py).       *)
(***************************************************************************)
EXTENDS Integers, Sequences, FiniteSets

Absent == -1

\* ---- implementation level ---------------------------------------------------
\* counters: function from code to Nat (0 = not set); returns [status, counters]
RECURSIVE ImplScan(_, _, _, _, _)
ImplScan(errs, i, pos, f, counters) ==
    IF i > Len(errs) THEN [status |-> 200, counters |-> counters]
    ELSE LET e == errs[i] IN
         IF e.pos # pos THEN ImplScan(errs, i + 1, pos, f, counters)
         ELSE IF e.code >= 500 /\ f # Absent
              THEN LET c == counters[e.code] + 1 IN
                   IF c > f
                   THEN ImplScan(errs, i + 1, pos, f, [counters EXCEPT ![e.code] = 0])   \* reset, go on
                   ELSE [status |-> e.code, counters |-> [counters EXCEPT ![e.code] = c]]
              ELSE [status |-> e.code, counters |-> counters]

ImplRequest(errs, pos, f, counters) == ImplScan(errs, 1, pos, f, counters)

\* ---- property level ------------------------------------------------------------
\* the code requested for position pos (first matching entry), or 0
RECURSIVE CodeFor(_, _, _)
CodeFor(errs, i, pos) ==
    IF i > Len(errs) THEN 0
    ELSE IF errs[i].pos = pos THEN errs[i].code ELSE CodeFor(errs, i + 1, pos)
Addressed(errs, pos) == CodeFor(errs, 1, pos) # 0

\* nth = how many requests for this item this client has made so far, including this one
C16_OnlyAddressed(errs, pos, status) ==
    ~Addressed(errs, pos) => status < 400 \/ status = 404      \* no synthetic answer, no 5xx
C16_CodeAsAsked(errs, pos, status) ==
    Addressed(errs, pos) => status = CodeFor(errs, 1, pos) \/ (status >= 200 /\ status < 300)
C16_ConfiguredTimes(errs, pos, f, nth, status) ==
    Addressed(errs, pos) =>
        LET code == CodeFor(errs, 1, pos) IN
        IF code < 500 \/ f = Absent THEN status = code
        ELSE /\ nth <= f => status = code
             /\ nth = f + 1 => (status >= 200 /\ status < 300)
C16_No5xxUnlessRequested(errs, pos, status) ==
    status >= 500 => (Addressed(errs, pos) /\ status = CodeFor(errs, 1, pos))
=============================================================================
