------------------------------ MODULE StoreMC ------------------------------
(* Implementation-shaped abstract machine of the management handlers (streams.py,   *)
(* media_management.py, keypairs.py, multi_period_streams.py, models/stream.py      *)
(* add_file) over 2 stream directories, 2 media names, 1 key, 1 multi-period stream. *)
(* Row identity (primary keys) is modelled because references are by primary key;    *)
(* SQLite hands out max(pk)+1.  Every edge is emitted for replay through the real    *)
(* HTTP management API.                                                               *)
EXTENDS Store, TLC, Json
CONSTANTS EMIT, MaxDepth
Dirs == {"s1", "s2"}
Names == {"fa", "fv"}
Kids == {"k1"}
MpsNames == {"mm1"}

VARIABLES streams, files, keys, mps, periods
vars == <<streams, files, keys, mps, periods>>

MaxPk(S) == IF S = {} THEN 0 ELSE CHOOSE m \in Pks(S) : \A x \in Pks(S) : x <= m
NextPk(S) == MaxPk(S) + 1
\* blob rows have their own key space; a blob is created with every media file
BlobPks == { f.blob : f \in files }
NextBlob == IF files = {} THEN 1 ELSE (CHOOSE m \in BlobPks : \A x \in BlobPks : x <= m) + 1

StOf(s, f, k, m, p) ==
    [streams |-> s, files |-> f, blobs |-> { x.blob : x \in f }, keys |-> k, links |-> {}, mps |-> m,
     periods |-> p, adps |-> { [pk |-> x.pk, period |-> x.pk] : x \in p },
     \* every "fa" file carries one index-error row (the handlers cascade them with the file)
     errors |-> { [pk |-> x.pk, media |-> x.pk] : x \in { y \in f : y.name = "fa" } }]
Cur == StOf(streams, files, keys, mps, periods)

Init == streams = {} /\ files = {} /\ keys = {} /\ mps = {} /\ periods = {}

StreamOf(d) == { s \in streams : s.dir = d }

\* AddStream: an existing stream with that directory is deleted first (cascade to its media files)
AddStream(d) ==
    LET old == StreamOf(d)
        gone == { f \in files : f.stream \in Pks(old) }
    IN  /\ streams' = (streams \ old) \cup {[pk |-> NextPk(streams \ old), dir |-> d, tref |-> ""]}
        /\ files' = files \ gone
        /\ UNCHANGED <<keys, mps, periods>>

DeleteStream(d) ==
    /\ StreamOf(d) # {}
    /\ LET old == StreamOf(d) IN
       /\ streams' = streams \ old
       /\ files' = { f \in files : f.stream \notin Pks(old) }
    /\ UNCHANGED <<keys, mps, periods>>      \* Period rows keep pointing at the deleted stream

\* Upload (+ index): Stream.add_file replaces any media file of that name, in whatever stream it is
Upload(d, n) ==
    /\ StreamOf(d) # {}
    /\ LET s == CHOOSE x \in StreamOf(d) : TRUE
           old == { f \in files : f.name = n }
           rest == files \ old
       IN files' = rest \cup {[pk |-> NextPk(rest), name |-> n, stream |-> s.pk,
                              blob |-> (IF rest = {} THEN 1 ELSE (CHOOSE m \in {f.blob : f \in rest} : \A x \in {f.blob : f \in rest} : x <= m) + 1),
                              ondisk |-> 1]}
    /\ UNCHANGED <<streams, keys, mps, periods>>

DeleteMedia(n) ==
    /\ \E f \in files : f.name = n
    /\ files' = { f \in files : f.name # n }
    /\ UNCHANGED <<streams, keys, mps, periods>>      \* a timing reference naming the file is kept

\* EditStream.post: the timing reference is looked up by name only
SetTref(d, n) ==
    /\ StreamOf(d) # {} /\ \E f \in files : f.name = n
    /\ streams' = { IF s.dir = d THEN [s EXCEPT !.tref = n] ELSE s : s \in streams }
    /\ UNCHANGED <<files, keys, mps, periods>>

AddKey(k) == /\ ~\E x \in keys : x.kid = k
             /\ keys' = keys \cup {[pk |-> NextPk(keys), kid |-> k]}
             /\ UNCHANGED <<streams, files, mps, periods>>
DeleteKey(k) == /\ \E x \in keys : x.kid = k
                /\ keys' = { x \in keys : x.kid # k }
                /\ UNCHANGED <<streams, files, mps, periods>>

\* one period over stream d (the stream needs a timing reference whose file exists)
AddMps(m, d) ==
    /\ ~\E x \in mps : x.name = m
    /\ \E s \in StreamOf(d) : s.tref # "" /\ \E f \in files : f.name = s.tref
    /\ LET s == CHOOSE x \in StreamOf(d) : TRUE
           mpk == NextPk(mps) IN
       /\ mps' = mps \cup {[pk |-> mpk, name |-> m]}
       /\ periods' = periods \cup {[pk |-> NextPk(periods), parent |-> mpk, stream |-> s.pk]}
    /\ UNCHANGED <<streams, files, keys>>
DeleteMps(m) ==
    /\ \E x \in mps : x.name = m
    /\ LET x == CHOOSE y \in mps : y.name = m IN
       /\ mps' = mps \ {x}
       /\ periods' = { p \in periods : p.parent # x.pk }
    /\ UNCHANGED <<streams, files, keys>>

Next == \/ \E d \in Dirs : AddStream(d) \/ DeleteStream(d)
        \/ \E d \in Dirs, n \in Names : Upload(d, n) \/ SetTref(d, n)
        \/ \E n \in Names : DeleteMedia(n)
        \/ \E k \in Kids : AddKey(k) \/ DeleteKey(k)
        \/ \E m \in MpsNames, d \in Dirs : AddMps(m, d)
        \/ \E m \in MpsNames : DeleteMps(m)
Spec == Init /\ [][Next]_vars
Constraint == TLCGet("level") <= MaxDepth

\* ---- property level on the model -------------------------------------------------------
\* Known findings (known_findings.json): a Period keeps pointing at a deleted stream
\* (C17-period-dangling); a timing reference keeps naming a deleted / replaced / foreign file
\* (C17-tref-dangling).  Everything else must hold in every reachable state.
Inv_FileRefs == C17_FileHasStreamAndBlob(Cur) /\ C17_KeyLinksExist(Cur) /\ C17_AdaptationSetsPointAtRows(Cur)
Inv_Names == C17_NamesUnique(Cur)
Inv_PeriodParents == \A p \in periods : p.parent \in Pks(mps)

St == [streams |-> streams, files |-> files, keys |-> keys, mps |-> mps, periods |-> periods]
EmitEdges ==
    EMIT =>
      /\ \A d \in Dirs :
           /\ PrintT(<<"E", ToJson([from |-> St, op |-> "add_stream", a |-> d, b |-> ""])>>)
           /\ (StreamOf(d) # {} => PrintT(<<"E", ToJson([from |-> St, op |-> "delete_stream", a |-> d, b |-> ""])>>))
           /\ \A n \in Names :
                /\ (StreamOf(d) # {} => PrintT(<<"E", ToJson([from |-> St, op |-> "upload", a |-> d, b |-> n])>>))
                /\ ((StreamOf(d) # {} /\ \E f \in files : f.name = n) =>
                       PrintT(<<"E", ToJson([from |-> St, op |-> "set_tref", a |-> d, b |-> n])>>))
      /\ \A n \in Names : (\E f \in files : f.name = n) => PrintT(<<"E", ToJson([from |-> St, op |-> "delete_media", a |-> n, b |-> ""])>>)
      /\ \A k \in Kids : PrintT(<<"E", ToJson([from |-> St, op |-> IF \E x \in keys : x.kid = k THEN "delete_key" ELSE "add_key", a |-> k, b |-> ""])>>)
      /\ \A m \in MpsNames :
           IF \E x \in mps : x.name = m
           THEN PrintT(<<"E", ToJson([from |-> St, op |-> "delete_mps", a |-> m, b |-> ""])>>)
           ELSE \A d \in Dirs : ENABLED AddMps(m, d) => PrintT(<<"E", ToJson([from |-> St, op |-> "add_mps", a |-> m, b |-> d])>>)
=============================================================================
