--------------------------- MODULE IsoDurationApa ---------------------------
(* Unbounded check (Apalache) of the millisecond rounding with carry: for every whole-second part  *)
(* in Nat and every microsecond fraction the rendered fields stay in range, denote a value within  *)
(* 500 us of the input, and equal the reference.                                                    *)
(*   apalache-mc check --init=Init --next=Next --inv=Inv --length=0 IsoDurationApa.tla              *)
EXTENDS IsoDuration
VARIABLE
    \* @type: $dur;
    x
Init == \E s \in Nat, u \in 0..999999 : x = [s |-> s, u |-> u]
Next == UNCHANGED x
Inv ==
    /\ C19_FieldsBelow60(ImplDurationFields(x))
    /\ C19_DurationTextValue(x, ImplDurationFields(x))
    /\ ImplDurationFields(x) = RefFields(x)
=============================================================================
