SPECIFICATION TraceSpec
CONSTANTS
  Q = 40
  Tier = "quick"
  EMIT = FALSE
POSTCONDITION TraceAccepted
CHECK_DEADLOCK FALSE
