SPECIFICATION Spec
CONSTANTS
    Values = {1, 2, 3}
    Absent = Absent
    Nil = Nil
INVARIANT VariantAgrees
CHECK_DEADLOCK FALSE
