------------------------------ MODULE IndexerMC ------------------------------
EXTENDS Indexer, TLC, Json
CONSTANT EMIT
CodeKinds == {"sidx", "moov", "mdat", "free"}            \* representation.py: `atom.atom_type in ['sidx', 'moov', 'mdat', 'free'] and rv.segments`
AllButOpeners == Kinds \ {"ftyp", "moof"}                \* the rule under which segments tile every file of the grammar
Emit == (EMIT /\ Complete) => PrintT(<<"F", ToJson([boxes |-> file, segs |-> Scan(file)])>>)
=============================================================================
