------------------------- MODULE ValidatorFaultsTrace -------------------------
(* One line per observable step of a real DashValidator session (harness/validator.py):          *)
(*  {ev:"begin", tid, live, encrypted, timeline, patch, family, nth}                              *)
(*  {ev:"fetch", tid, kind, offers, faulted}     a response handed to the validator               *)
(*  {ev:"validated", tid, nerr}                  DashValidator.validate() returned                *)
(*  {ev:"sleep", tid} {ev:"refresh", tid}                                                         *)
(*  {ev:"end", tid, finished, crash, applied, nerr, errors:[{at_elt, at_url, names}]}             *)
(* The session is replayed through ValidatorFaults' actions: the adversary's schedule (which      *)
(* response is rewritten) must be the model's, the protocol order must be the model's, and the    *)
(* verdict clauses are evaluated on the observed outcome.                                         *)
EXTENDS ValidatorFaults, TLC, Json, IOUtils
TraceLog == ndJsonDeserialize(IOEnv.TRACE_FILE)
VARIABLE l
tvars == <<vars, l>>
Report(c, ok, detail) ==
    IF ok THEN TRUE
    ELSE PrintT(<<"V", ToJson([line |-> l, tid |-> TraceLog[l].tid, clause |-> c, detail |-> detail])>>)
B(x) == x = 1

StepBegin(t) ==
    /\ phase' = "loading"
    /\ cfg' = [live |-> B(t.live), encrypted |-> B(t.encrypted), timeline |-> B(t.timeline), patch |-> B(t.patch)]
    /\ fault' = [family |-> t.family, nth |-> t.nth]
    /\ seen' = [k \in Kinds |-> 0]
    /\ applied' = FALSE /\ tainted' = FALSE /\ reported' = FALSE /\ loops' = 0 /\ fetches' = 0
    /\ patchFetched' = FALSE
    /\ Report("DRIFT_family", t.family \in Families, t.family)

PhaseOk(k) ==
    IF k = "manifest" THEN phase \in {"loading", "slept"}
    ELSE IF k = "patch" THEN phase = "slept" /\ ~patchFetched
    ELSE phase \in {"ready", "fetched", "slept"}

StepFetch(t) ==
    LET k == t.kind
        o == B(t.offers) IN
    IF k \notin Kinds THEN UNCHANGED vars
    ELSE
    /\ Report("DRIFT_protocol", PhaseOk(k), [kind |-> k, phase |-> phase])
    /\ Report("DRIFT_fault_schedule", B(t.faulted) = (o /\ ShouldFault(k)),
              [kind |-> k, faulted |-> t.faulted, offers |-> t.offers, seen |-> seen[k], nth |-> fault.nth])
    /\ IF PhaseOk(k)
       THEN \/ (k = "manifest" /\ FetchManifest(o))
            \/ (k = "patch" /\ FetchPatch(o))
            \/ (k \in {"init", "media"} /\ FetchSegment(k, o))
       ELSE /\ Serve(k, o)
            /\ phase' = IF k = "manifest" THEN "ready" ELSE phase
            /\ UNCHANGED <<cfg, fault, reported, loops, fetches, patchFetched>>

StepValidated(t) ==
    /\ Report("DRIFT_protocol", phase = "ready", [ev |-> "validated", phase |-> phase])
    /\ phase' = "validated"
    /\ reported' = (reported \/ tainted) /\ tainted' = FALSE
    /\ loops' = loops + 1 /\ fetches' = 0
    /\ UNCHANGED <<cfg, fault, seen, applied, patchFetched>>

StepSleep(t) ==
    /\ Report("DRIFT_protocol", phase = "validated" /\ cfg.live, [ev |-> "sleep", phase |-> phase])
    /\ phase' = "slept" /\ patchFetched' = FALSE
    /\ UNCHANGED <<cfg, fault, seen, applied, tainted, reported, loops, fetches>>

StepRefresh(t) ==
    /\ Report("DRIFT_protocol", phase = "fetched" \/ (phase = "slept" /\ cfg.patch /\ patchFetched),
              [ev |-> "refresh", phase |-> phase])
    /\ phase' = "ready"
    /\ UNCHANGED <<cfg, fault, seen, applied, tainted, reported, loops, fetches, patchFetched>>

StepEnd(t) ==
    /\ Report("DRIFT_applied", B(t.applied) = applied, [logged |-> t.applied, model |-> applied])
    /\ Report("DRIFT_tainted_at_end", (~tainted) \/ t.crash = 1 \/ t.finished = 0, [phase |-> phase])
    /\ Report("C18_Terminates", (fault.family # "none") \/ SessionTerminates(t),
              [finished |-> t.finished, crash |-> t.crash, loops |-> loops])
    /\ Report("C18_NoFalsePositive", SessionNoFalsePositive(t), [nerr |-> t.nerr])
    /\ Report("C18_Detects", SessionDetects(t), [family |-> fault.family, nth |-> fault.nth, crash |-> t.crash])
    /\ Report("C18_Located", SessionLocated(t), [family |-> fault.family, nerr |-> t.nerr])
    /\ phase' = "done"
    /\ UNCHANGED <<cfg, fault, seen, applied, tainted, reported, loops, fetches, patchFetched>>

Step(t) ==
    IF t.ev = "begin" THEN StepBegin(t)
    ELSE IF t.ev = "fetch" THEN StepFetch(t)
    ELSE IF t.ev = "validated" THEN StepValidated(t)
    ELSE IF t.ev = "sleep" THEN StepSleep(t)
    ELSE IF t.ev = "refresh" THEN StepRefresh(t)
    ELSE IF t.ev = "end" THEN StepEnd(t)
    ELSE UNCHANGED vars

TraceInit ==
    /\ l = 1 /\ phase = "idle"
    /\ cfg = [live |-> FALSE, encrypted |-> FALSE, timeline |-> FALSE, patch |-> FALSE]
    /\ fault = [family |-> "none", nth |-> 0]
    /\ seen = [k \in Kinds |-> 0]
    /\ applied = FALSE /\ tainted = FALSE /\ reported = FALSE /\ loops = 0 /\ fetches = 0
    /\ patchFetched = FALSE
TraceNext == l <= Len(TraceLog) /\ Step(TraceLog[l]) /\ l' = l + 1
TraceSpec == TraceInit /\ [][TraceNext]_tvars
TraceAccepted == \/ TLCGet("stats").diameter - 1 = Len(TraceLog)
                 \/ Print(<<"TRACE_REJECTED", TLCGet("stats").diameter - 1, Len(TraceLog)>>, FALSE)
=============================================================================
