------------------------------ MODULE DrmDataMC ------------------------------
(* (A) exhaustive: ClearKey responses for stores of <= 2 keys and requests of <= 3 ids (known, unknown,     *)
(* duplicate); ContentProtection decision table for every subset of systems x locations.                     *)
EXTENDS DrmData
Ids == {<<1>>, <<2>>, <<3>>}
VARIABLES store, req, sel
vars == <<store, req, sel>>
Locs == {"pro", "cenc", "moov"}
Systems == {"playready", "clearkey", "marlin"}
Init == /\ store \in SUBSET {[kid |-> <<1>>, key |-> <<11>>], [kid |-> <<2>>, key |-> <<22>>]}
        /\ req \in UNION { [1..n -> Ids] : n \in 0..3 }
        /\ sel \in SUBSET { [sys |-> s, locs |-> ls] : s \in Systems, ls \in {{"cenc"}, {"moov"}, {"pro", "cenc"}, Locs} }
        /\ \A a, b \in sel : a.sys = b.sys => a = b
Next == UNCHANGED vars
Spec == Init /\ [][Next]_vars
\* the implementation: Key.get_kids(requested) -> one entry per distinct known id
ImplClearKey == LET hit == { e \in store : \E i \in 1..Len(req) : req[i] = e.kid } IN hit
ClearKeyOk == ImplClearKey = ClearKeyExpected(store, req)
\* template.xml / playready.xml / clearkey.xml / marlin.xml
ImplCp == [mp4protection |-> 1,
           playready |-> IF \E s \in sel : s.sys = "playready" THEN 1 ELSE 0,
           playready_pssh |-> IF \E s \in sel : s.sys = "playready" /\ "cenc" \in s.locs THEN 1 ELSE 0,
           playready_pro |-> IF \E s \in sel : s.sys = "playready" /\ "pro" \in s.locs THEN 1 ELSE 0,
           clearkey_pssh |-> IF \E s \in sel : s.sys = "clearkey" /\ "cenc" \in s.locs THEN 1 ELSE 0,
           marlin |-> IF \E s \in sel : s.sys = "marlin" THEN 1 ELSE 0]
CpOk == C11_ContentProtectionMatches(sel, ImplCp, 0)
GuidInvolution == \A b \in {<<1,2,3,4,5,6,7,8,9,10,11,12,13,14,15,16>>} : LeGuid(LeGuid(b)) = b
=============================================================================
