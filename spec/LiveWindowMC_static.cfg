SPECIFICATION SpecStatic
CONSTANTS
  Q = 40
  Tier = "quick"
  EMIT = TRUE
INVARIANT C06_TimelineIsStored
INVARIANT C06_NumbersServed
INVARIANT C06_TimesServed
INVARIANT EmitStatic
CHECK_DEADLOCK FALSE
