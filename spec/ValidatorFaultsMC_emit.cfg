SPECIFICATION Spec
CONSTANTS
  MaxLoops = 0
  MaxFetch = 0
INVARIANT EmitCase
CHECK_DEADLOCK FALSE
