--------------------------- MODULE TimeSourceTrace ---------------------------
(* {ev:"time", method, now:{d,s,u}, drift, status, date:{d,s}, bodylen, xsd:{d,s,u}, iso:{wy,ww,wd,h,mi,s},          *)
(*    ntp:{len,sec_hi,sec_lo,frac_hi,frac_lo}}                one response of /time/<method>                          *)
(* {ev:"utctiming", method, now, drift, has, scheme, kind, direct:{d,s,u}, url_method, url_drift, nservers,           *)
(*    shifted, plain}                                         one live manifest (and the drift-free manifest of now-d) *)
EXTENDS TimeSource, TLC, Json, IOUtils
TraceLog == ndJsonDeserialize(IOEnv.TRACE_FILE)
VARIABLE l
Report(c, ok, detail) ==
    IF ok THEN TRUE
    ELSE PrintT(<<"V", ToJson([line |-> l, tid |-> TraceLog[l].tid, clause |-> c, detail |-> detail])>>)
CheckTime(t) ==
    /\ Report("X01_Answers", X01_Answers(t), t.status)
    /\ (t.status # 200 \/
        /\ Report("X01_DateHeader", X01_DateHeader(t), [got |-> t.date, want |-> Shifted(t.now, t.drift)])
        /\ Report("X01_XsdExact", X01_XsdExact(t), [got |-> t.xsd, want |-> Shifted(t.now, t.drift)])
        /\ Report("X01_IsoWeekDate", X01_IsoWeekDate(t), [got |-> t.iso, want |-> IsoWeek(Shifted(t.now, t.drift).d)])
        /\ Report("X01_NtpTimestamp", X01_NtpTimestamp(t), [got |-> t.ntp, want |-> NtpSeconds(Shifted(t.now, t.drift)),
                                                             frac |-> NtpFracHi(Shifted(t.now, t.drift).u)])
        /\ Report("X01_HeadHasNoBody", X01_HeadHasNoBody(t), t.bodylen))
CheckManifest(m) ==
    /\ Report("X01_SchemeMatchesMethod", X01_SchemeMatchesMethod(m), [scheme |-> m.scheme, want |-> SchemeOf(m.method)])
    /\ Report("X01_DirectIsShiftedNow", X01_DirectIsShiftedNow(m), [got |-> m.direct, want |-> Shifted(m.now, m.drift)])
    /\ Report("X01_SourceCarriesDrift", X01_SourceCarriesDrift(m), [kind |-> m.kind, url_method |-> m.url_method, url_drift |-> m.url_drift])
    /\ Report("X01_ServersListed", X01_ServersListed(m), m.nservers)
    /\ Report("X01_DriftShiftsManifest", X01_DriftShiftsManifest(m), [shifted |-> m.shifted, plain |-> m.plain])
Check(t) == IF t.ev = "time" THEN CheckTime(t) ELSE IF t.ev = "utctiming" THEN CheckManifest(t) ELSE TRUE
TraceInit == l = 1
TraceNext == l <= Len(TraceLog) /\ Check(TraceLog[l]) /\ l' = l + 1
TraceSpec == TraceInit /\ [][TraceNext]_l
TraceAccepted == \/ TLCGet("stats").diameter - 1 = Len(TraceLog)
                 \/ Print(<<"TRACE_REJECTED", TLCGet("stats").diameter - 1, Len(TraceLog)>>, FALSE)
=============================================================================
