------------------------- MODULE LiveWindowHttpTrace -------------------------
(* Trace validation of manifest + media responses of the real service at real    *)
(* scale (C01, C02 live; C06 static).  One line per Representation of one         *)
(* manifest response, carrying the projection of the manifest for that            *)
(* Representation, the stored layout of the file (independent scan) and the       *)
(* projection of the response to every key the driver fetched at the same clock.  *)
(*                                                                                *)
(* Numbers beyond 31 bits never reach TLC: the projection subtracts a base from   *)
(* every tick count / segment number (B = (nb - startNumber) * duration for       *)
(* $Number$ addressing, B = t of the first listed S for $Time$ addressing) - an   *)
(* algebraic identity on the DASH formulas, which are all differences.            *)
(*  live line:                                                                    *)
(*   {tid, ev:"rep", mode:"live", by, ts, D, tsbd, R, durs, st, ef, ec, init,     *)
(*    partial, tl:[{t,d}], keys:[k], serve:[{status,tfdt,seq,dur,mod,tmodr,       *)
(*    payload_ok,wf}]}                                                            *)
(*   by="number": keys are n - nb, serve.seq is seq - nb, serve.tfdt is tfdt - B  *)
(*   by="time"  : keys[i] = tl[i].t (rebased), serve.tfdt rebased likewise        *)
EXTENDS LiveWindow, TLC, Json, IOUtils

TraceLog == ndJsonDeserialize(IOEnv.TRACE_FILE)
VARIABLE l

Report(c, ok, detail) ==
    IF ok THEN TRUE
    ELSE PrintT(<<"V", ToJson([line |-> l, tid |-> TraceLog[l].tid, clause |-> c, detail |-> detail])>>)

RepOf(t) == [ts |-> t.ts, durs |-> t.durs, sn |-> 0, segdur |-> t.D, st |-> t.st]
RefOf(t) == [ts |-> t.ts, mediaDur |-> t.R, segDur |-> t.D]
IndexOfKey(t, k) == CHOOSE i \in 1..Len(t.keys) : t.keys[i] = k
HasKey(t, k) == \E i \in 1..Len(t.keys) : t.keys[i] = k
Resp(t, i) == [status |-> t.serve[i].status, tfdt |-> t.serve[i].tfdt, seq |-> t.serve[i].seq,
               dur |-> t.serve[i].dur, mod |-> t.serve[i].mod, origin |-> 0]

CheckLive(t) ==
    LET rep == RepOf(t)  ref == RefOf(t)
        m == [ts |-> t.ts, sn |-> 0, D |-> t.D, tsbd |-> t.tsbd, timeline |-> t.tl]
    IN
    /\ Report("C01_InitRetrievable", t.init = 200, t.init)
    /\ IF t.by = "number"
       THEN \A n \in AdvertisedNumbers(m, t.ef, t.ec) :
              /\ Report("TRACE_KeyCovered", t.partial = 1 \/ HasKey(t, n), n)
              /\ HasKey(t, n) =>
                   LET i == IndexOfKey(t, n) IN
                   /\ Report("C01_AdvertisedRetrievable", t.serve[i].status = 200,
                             [by |-> "number", key |-> n, status |-> t.serve[i].status])
                   /\ Report("C02_NumberExact", C02_NumberExact(rep, ref, m, n, Resp(t, i)),
                             [key |-> n, seq |-> t.serve[i].seq, tfdt |-> t.serve[i].tfdt, want |-> n * t.D])
       ELSE \A i \in AdvertisedTimes(m, t.ef) :
              Report("C01_AdvertisedRetrievable", t.serve[i].status = 200,
                     [by |-> "time", key |-> t.tl[i].t, status |-> t.serve[i].status])
    /\ t.by = "time" =>
         /\ Report("C02_Gapless", IF t.partial = 1 THEN t.gapless_full = 1 ELSE C02_Gapless(t.tl), 0)
         /\ \A i \in 1..Len(t.tl) :
              Report("C02_TimeExact", C02_TimeExact(t.tl[i], Resp(t, i)),
                     [t |-> t.tl[i].t, d |-> t.tl[i].d, tfdt |-> t.serve[i].tfdt, dur |-> t.serve[i].dur,
                      mod |-> t.serve[i].mod, nsegs |-> Len(t.durs), drift |-> t.R - Sum(t.durs)])
    /\ \A i \in 1..Len(t.serve) :
         t.serve[i].status = 200 =>
           /\ Report("C02_SourceAligned",
                     /\ t.serve[i].payload_ok = 1
                     /\ \E k \in 1..Len(t.serve[i].mods) :
                           C02_SourceAlignedMod(rep, t.R, t.serve[i].mods[k], t.serve[i].tmodr),
                     [key |-> t.keys[i], mod |-> t.serve[i].mod, tmodr |-> t.serve[i].tmodr,
                      payload_ok |-> t.serve[i].payload_ok])
           /\ Report("C03_WellFormed", t.serve[i].wf = 1, t.keys[i])

(* static line: {mode:"vod"|"odvod", by, ts, D, sn, durs, st, R, mpd_dur_ms, ref_dur_ms,        *)
(*   init, tl, keys (numbers or times as given in the manifest), past (status of the            *)
(*   request one past the end), serve:[...]}                                                    *)
CheckStatic(t) ==
    LET rep == [ts |-> t.ts, durs |-> t.durs, sn |-> t.sn, segdur |-> t.D, st |-> t.st] IN
    /\ Report("C06_InitRetrievable", t.init = 200, t.init)
    /\ Report("C06_DeclaredDuration", t.ref_ms_lo <= t.mpd_dur_ms /\ t.mpd_dur_ms <= t.ref_ms_hi,
              [mpd |-> t.mpd_dur_ms, lo |-> t.ref_ms_lo, hi |-> t.ref_ms_hi])
    /\ \A i \in 1..Len(t.keys) :
         Report("C06_AllEnumeratedServed", t.serve[i].status = 200,
                [by |-> t.by, key |-> t.keys[i], i |-> i, n |-> Len(t.durs), status |-> t.serve[i].status])
    /\ Report("C06_NextRefused", t.past = 404, t.past)
    /\ Report("C06_CountEqualsStored", Len(t.keys) = Len(t.durs), [listed |-> Len(t.keys), stored |-> Len(t.durs)])
    /\ t.by = "time" =>
         /\ Report("C06_TimelineIsStoredTrack", C06_TimelineIsStoredTrack(rep, t.tl),
                   [listed |-> Len(t.tl), stored |-> Len(t.durs)])
         /\ Report("C06_TotalEqualsMediaDuration", Sum([i \in 1..Len(t.tl) |-> t.tl[i].d]) = Sum(t.durs),
                   [listed |-> Sum([i \in 1..Len(t.tl) |-> t.tl[i].d]), stored |-> Sum(t.durs)])
    \* fetched in order: gapless from the first decode time, payloads are segments 1..N in order
    /\ \A i \in 1..Len(t.serve) :
         (t.serve[i].status = 200 /\ i <= Len(t.durs)) =>
           /\ Report("C06_GaplessFromFirstDecodeTime", t.serve[i].tfdt = StoredTfdt(rep, i),
                     [i |-> i, tfdt |-> t.serve[i].tfdt, want |-> StoredTfdt(rep, i)])
           /\ Report("C06_PayloadInOrder", /\ t.serve[i].payload_ok = 1 /\ t.serve[i].dur = t.durs[i]
                     /\ \E k \in 1..Len(t.serve[i].mods) : t.serve[i].mods[k] = i,
                     [i |-> i, mod |-> t.serve[i].mod, dur |-> t.serve[i].dur])
           /\ Report("C03_WellFormed", t.serve[i].wf = 1, i)
           /\ (t.by = "number" => Report("C02_NumberExact", t.serve[i].seq = t.keys[i], [i |-> i, seq |-> t.serve[i].seq]))
           /\ (t.by = "time" => Report("C02_TimeExact", t.serve[i].tfdt = t.keys[i], [i |-> i, tfdt |-> t.serve[i].tfdt]))

(* on-demand line: {mode:"odvod", init_range:[a,b], media_ranges:[[a,b]..], seg_pos:[..],     *)
(*   seg_end:[..] (independent scan: first byte / last byte+1 of each stored segment),          *)
(*   init_start, init_end, flen, fetched:[{status, ok}] }                                                   *)
CheckOnDemand(t) ==
    /\ Report("C06_DeclaredDuration", t.ref_ms_lo <= t.mpd_dur_ms /\ t.mpd_dur_ms <= t.ref_ms_hi,
              [mpd |-> t.mpd_dur_ms, lo |-> t.ref_ms_lo, hi |-> t.ref_ms_hi])
    /\ Report("C06_RangesTile",
              /\ t.init_range[1] = t.init_start       \* the first box of the initialization segment (ftyp): offset 0 unless padding precedes it
              /\ Len(t.media_ranges) = Len(t.seg_pos)
              /\ Len(t.media_ranges) > 0 => t.init_range[2] + 1 = t.media_ranges[1][1]
              /\ \A i \in 1..Len(t.media_ranges) :
                    /\ i <= Len(t.seg_pos) => (t.media_ranges[i][1] = t.seg_pos[i] /\ t.media_ranges[i][2] + 1 = t.seg_end[i])
                    /\ i < Len(t.media_ranges) => t.media_ranges[i][2] + 1 = t.media_ranges[i + 1][1],
              [init |-> t.init_range, n |-> Len(t.media_ranges), stored |-> Len(t.seg_pos)])
    /\ \A i \in 1..Len(t.fetched) :
         Report("C06_AllEnumeratedServed", t.fetched[i].status = 206 /\ t.fetched[i].ok = 1, [i |-> i, r |-> t.fetched[i]])

TraceInit == l = 1
TraceNext ==
    /\ l <= Len(TraceLog)
    /\ LET t == TraceLog[l] IN
       CASE t.ev = "rep" /\ t.mode = "live" -> CheckLive(t)
         [] t.ev = "rep" /\ t.mode = "vod" -> CheckStatic(t)
         [] t.ev = "ondemand" -> CheckOnDemand(t)
         \* a stored file of a legal shape (the independent reader walks it) that the indexer refuses has no segment list at all:
         \* nothing of it is described by any static manifest
         [] t.ev = "index_failed" -> Report("C06_CountEqualsStored", FALSE, [file |-> t.file, shape |-> t.shape, error |-> t.error])
         [] OTHER -> TRUE
    /\ l' = l + 1
TraceSpec == TraceInit /\ [][TraceNext]_l
TraceAccepted ==
    \/ TLCGet("stats").diameter - 1 = Len(TraceLog)
    \/ Print(<<"TRACE_REJECTED", TLCGet("stats").diameter - 1, Len(TraceLog)>>, FALSE)
=============================================================================
