SPECIFICATION Spec
CONSTANTS
  EMIT = FALSE
  MaxDepth = 7
INVARIANT Inv_FileRefs
INVARIANT Inv_Names
INVARIANT Inv_PeriodParents
CONSTRAINT Constraint
CHECK_DEADLOCK FALSE
