SPECIFICATION Spec
CONSTANTS
  SegTicks = 2
  Depth = 2
  MaxT = 9
INVARIANT SomeSkip
CHECK_DEADLOCK FALSE
