----------------------------- MODULE MultiPeriod -----------------------------
(***************************************************************************)
(* C12 - multi-period presentations tile the timeline and play the right   *)
(* media.  Time on the presentation axis in units of 1/Q s (as in          *)
(* LiveWindow); media time in ticks of the Representation.                 *)
(*   periods: sequence of [dur] (durations, 1/Q s)                         *)
(*   listed : sequence of [id, loop, start, dur] as a manifest lists them  *)
(***************************************************************************)
EXTENDS LiveWindow

RECURSIVE SumDur(_, _)
SumDur(ps, k) == IF k <= 0 THEN 0 ELSE ps[k].dur + SumDur(ps, k - 1)
Total(ps) == SumDur(ps, Len(ps))

\* ---- implementation level: ManifestContext.create_all_vod_periods / create_all_live_periods
ImplVodPeriods(ps) == [i \in 1..Len(ps) |-> [idx |-> i, loop |-> 0, start |-> SumDur(ps, i - 1), dur |-> ps[i].dur]]
\* mediaPresentationDuration as rendered: the sum of the period durations (fix: C12)
ImplVodMpdDuration(ps) == Total(ps)

RECURSIVE LiveFrom(_, _, _, _, _, _)
LiveFrom(ps, start, idx, loop, e, fta) ==
    IF start > e THEN <<>>
    ELSE LET p == [idx |-> idx, loop |-> loop, start |-> start, dur |-> ps[idx].dur]
             nidx == IF idx = Len(ps) THEN 1 ELSE idx + 1
             nloop == IF idx = Len(ps) THEN loop + 1 ELSE loop
             rest == LiveFrom(ps, start + ps[idx].dur, nidx, nloop, e, fta)
         IN  IF start + ps[idx].dur >= fta THEN <<p>> \o rest ELSE rest
ImplLivePeriods(ps, e, o) ==
    LET fta == ImplFta(e, o)
        loops == fta \div Total(ps)
    IN  LiveFrom(ps, Total(ps) * loops, 1, loops, e, fta)

\* ---- property level on a listed sequence -----------------------------------------------------
C12_Contiguous(listed) == \A i \in 1..(Len(listed) - 1) : listed[i].start + listed[i].dur = listed[i + 1].start
C12_VodSumsToMpdDuration(listed, mpdDur) == SumDur(listed, Len(listed)) = mpdDur
C12_LiveCoversWindow(listed, e, fta) ==
    /\ Len(listed) > 0
    /\ listed[1].start <= fta
    /\ listed[Len(listed)].start + listed[Len(listed)].dur >= e
C12_IdsUniquePerRepetition(listed) ==
    \A i, j \in 1..Len(listed) : (listed[i].idx = listed[j].idx /\ listed[i].loop = listed[j].loop) => i = j

\* ---- media inside a period: ServeMpsMedia.calculate_media_segment_index ($Number$) ----------
\* offset = source position of the period start in ticks of the representation
ImplMpsServe(rep, ref, offset, n) ==
    LET w == ImplWalk(rep, ref, offset)
        mod == w.mod + (n - rep.sn)
    IN  IF mod > NumSegs(rep) \/ mod < 1 THEN NotFound
        ELSE [status |-> 200, mod |-> mod, origin |-> 0 - w.start, tfdt |-> StoredTfdt(rep, mod) - w.start,
              seq |-> n, dur |-> rep.durs[mod]]

\* the stored segment whose start is nearest the offset (ties: either)
Nearest(rep, offset, m) ==
    \A k \in 1..NumSegs(rep) : Abs(SrcStart(rep, m) - offset) <= Abs(SrcStart(rep, k) - offset)

C12_NthFromNearestOffset(rep, offset, n, r) ==
    r.status = 200 => \E m0 \in 1..NumSegs(rep) : Nearest(rep, offset, m0) /\ r.mod = m0 + (n - rep.sn)
C12_DecodeTimesFromZeroGapless(rep, n, r, rnext) ==
    /\ (n = rep.sn /\ r.status = 200) => r.tfdt = 0
    /\ (r.status = 200 /\ rnext.status = 200) => rnext.tfdt = r.tfdt + r.dur
C12_BeyondEnd404(rep, offset, n, r) ==
    (\A m0 \in 1..NumSegs(rep) : Nearest(rep, offset, m0) => m0 + (n - rep.sn) > NumSegs(rep)) => r.status = 404
=============================================================================
