----------------------------- MODULE RefreshTrace -----------------------------
(* {ev:"pair", tl1:[{t,d}], tl2:[..], pub1, pub2, ast1, ast2}      (per Representation)       *)
(* {ev:"patch", id_eq, orig_pub, pub1, pub_patched, pub_full, loc_eq, tls_patched:[[{t,d}]], tls_full} *)
EXTENDS Refresh, TLC, Json, IOUtils
TraceLog == ndJsonDeserialize(IOEnv.TRACE_FILE)
VARIABLE l
Report(c, ok, detail) ==
    IF ok THEN TRUE
    ELSE PrintT(<<"V", ToJson([line |-> l, tid |-> TraceLog[l].tid, clause |-> c, detail |-> detail])>>)
Check(t) ==
    IF t.ev = "pair" THEN
        /\ Report("C09_CommonSegmentsAgree", C09_CommonSegmentsAgree(t.tl1, t.tl2), 0)
        /\ Report("C09_WindowMovesForward", C09_WindowMovesForward(t.tl1, t.tl2), 0)
        /\ Report("C09_PublishAstMonotone", C09_PublishAstMonotone(t.pub1, t.pub2, t.ast1, t.ast2), [p1 |-> t.pub1, p2 |-> t.pub2])
    ELSE IF t.ev = "patch" THEN
        /\ Report("C09_PatchHeader", C09_PatchHeader(t.id_eq, t.orig_pub, t.pub1), [orig |-> t.orig_pub, pub1 |-> t.pub1])
        /\ Report("C09_PatchEqualsFull", C09_PatchEqualsFull(t.pub_patched, t.pub_full, t.loc_eq, t.tls_patched, t.tls_full),
                  [pp |-> t.pub_patched, pf |-> t.pub_full, loc |-> t.loc_eq, n1 |-> Len(t.tls_patched), n2 |-> Len(t.tls_full)])
    \* the service advertised this PatchLocation itself: while the full manifest of the same options is served, the patch is too
    ELSE IF t.ev = "patch_refused" THEN
        Report("C09_PatchEqualsFull", t.full_status # 200, [patch_status |-> t.status, chain |-> t.chain])
    ELSE TRUE
TraceInit == l = 1
TraceNext == l <= Len(TraceLog) /\ Check(TraceLog[l]) /\ l' = l + 1
TraceSpec == TraceInit /\ [][TraceNext]_l
TraceAccepted == \/ TLCGet("stats").diameter - 1 = Len(TraceLog)
                 \/ Print(<<"TRACE_REJECTED", TLCGet("stats").diameter - 1, Len(TraceLog)>>, FALSE)
=============================================================================
