-------------------------- MODULE PlayerSessionRules --------------------------
(* Session-level clauses over observations of a player following the live edge (see PlayerSession.tla). *)
EXTENDS Naturals, Sequences
(* ---- clauses evaluated on a real session (PlayerSessionTrace) -------------------------- *)
\* m1, m2: successive manifests of one Representation: [pub, keys (listed starts, rebased), durs]
\* f: a fetch [key, status, tfdt (rebased), dur]
Sess_ListedIs200(f) == f.status = 200
Sess_TimeExact(f) == f.status = 200 => f.tfdt = f.key
Sess_WindowForward(m1, m2) ==
    (Len(m1.keys) > 0 /\ Len(m2.keys) > 0) =>
        /\ m1.keys[1] <= m2.keys[1]
        /\ m1.keys[Len(m1.keys)] <= m2.keys[Len(m2.keys)]
\* entries listed by both manifests have the same duration
Sess_CommonAgree(m1, m2) ==
    \A i \in 1..Len(m1.keys), j \in 1..Len(m2.keys) : m1.keys[i] = m2.keys[j] => m1.durs[i] = m2.durs[j]
\* inside one manifest the list is gapless
Sess_Gapless(m) == \A i \in 1..(Len(m.keys) - 1) : m.keys[i] + m.durs[i] = m.keys[i + 1]
\* successive fetches of the player are contiguous on the advertised time line unless it skipped
Sess_FetchContiguous(prev, f, skipped) == (skipped = 0 /\ prev.status = 200) => f.key = prev.key + prev.adv_dur
=============================================================================
