----------------------------- MODULE InjectionMC -----------------------------
(* Injection machine, small scope: error lists over 2 codes x positions 1..3,    *)
(* failure count absent / 1 / 2, two clients, request sequences explored          *)
(* breadth-first.  History variable nth counts requests per (client, position).   *)
EXTENDS Injection, TLC, Json
CONSTANTS EMIT, MaxReq
Codes == {404, 503, 504}
Pos == 1..3
Clients == {"a", "b"}
ErrLists == { <<>>, <<[code |-> 503, pos |-> 2]>>, <<[code |-> 404, pos |-> 1]>>,
              <<[code |-> 503, pos |-> 1], [code |-> 504, pos |-> 3]>>,
              <<[code |-> 404, pos |-> 2], [code |-> 503, pos |-> 3]>>,
              <<[code |-> 503, pos |-> 1], [code |-> 503, pos |-> 2]>> }      \* one code, two positions: shared counter
VARIABLES errs, f, counters, nth, last, nreq
vars == <<errs, f, counters, nth, last, nreq>>
Init == /\ errs \in ErrLists /\ f \in {Absent, 0, 1, 2}
        /\ counters = [c \in Clients |-> [k \in Codes |-> 0]]
        /\ nth = [c \in Clients |-> [p \in Pos |-> 0]]
        /\ last = [client |-> "", pos |-> 0, status |-> 0, nth |-> 0]
        /\ nreq = 0
Request(c, p) ==
    LET r == ImplRequest(errs, p, f, counters[c]) IN
    /\ nreq < MaxReq
    /\ counters' = [counters EXCEPT ![c] = r.counters]
    /\ nth' = [nth EXCEPT ![c][p] = @ + 1]
    /\ last' = [client |-> c, pos |-> p, status |-> r.status, nth |-> nth[c][p] + 1]
    /\ nreq' = nreq + 1
    /\ UNCHANGED <<errs, f>>
Next == \E c \in Clients, p \in Pos : Request(c, p)
Spec == Init /\ [][Next]_vars

\* Known finding C16-shared-counter: the counter is kept per (usage, code), not per addressed
\* position, so two positions with the same code share it and "the first f requests fail" does
\* not hold for each position separately.
SameCodeTwice == \E i, j \in 1..Len(errs) : i # j /\ errs[i].code = errs[j].code /\ errs[i].code >= 500
PropertyHolds ==
    last.pos # 0 =>
        /\ C16_OnlyAddressed(errs, last.pos, last.status)
        /\ C16_CodeAsAsked(errs, last.pos, last.status)
        /\ (C16_ConfiguredTimes(errs, last.pos, f, last.nth, last.status) \/ (SameCodeTwice /\ f # Absent))
        /\ C16_No5xxUnlessRequested(errs, last.pos, last.status)
Emit == EMIT => (last.pos # 0 => PrintT(<<"S", ToJson([errs |-> errs, f |-> f, last |-> last, nreq |-> nreq])>>))
=============================================================================
