--------------------------- MODULE BufferedReader ---------------------------
(***************************************************************************)
(* C20 - the windowed buffered reader behaves like a slice of the file.    *)
(*                                                                         *)
(* Two levels in one module.                                               *)
(*  property level      : an in-memory stream over the window's bytes      *)
(*                        (operators Spec...)                              *)
(*  implementation level: dashlive/utils/buffered_reader.py as written     *)
(*                        (operators Impl...): bucketed cache with FIFO    *)
(*                        eviction (timestamps are taken at creation, so   *)
(*                        the "oldest" buffer is the first created),       *)
(*                        multi-bucket peek that returns whole bucket      *)
(*                        tails, read = peek + truncate, readall reads the *)
(*                        rest of the window straight from the file.       *)
(*                                                                         *)
(* A geometry is a record g = [flen, off, size, bs, maxb]: the underlying  *)
(* file has flen bytes, the window is file[off .. off+size-1], bs is the   *)
(* buffer size and maxb the cache limit.  File(i) is the byte stored at    *)
(* file index i (0-based); it is an operator so that model instances and   *)
(* trace validation at real scale can choose different contents.           *)
(***************************************************************************)
EXTENDS Integers, Sequences, FiniteSets

Min(a, b) == IF a < b THEN a ELSE b
Max(a, b) == IF a > b THEN a ELSE b

\* byte stored at file index i of the underlying file (pseudo-random but computable;
\* the Python driver builds its test files with the same formula)
File(i) == ((((i % 4093) * (i % 4091)) % 8191) + (i \div 7)) % 256

FileBytes(from, to) ==          \* bytes at file indices from .. to-1
    [k \in 1..Max(0, to - from) |-> File(from + k - 1)]

IsPrefix(s, t) == Len(s) <= Len(t) /\ \A i \in 1..Len(s) : s[i] = t[i]

WellFormedGeometry(g) ==
    /\ g.off >= 0 /\ g.size >= 0 /\ g.off + g.size <= g.flen
    /\ g.bs >= 1 /\ g.maxb >= 2

-----------------------------------------------------------------------------
(* Operations: records [name, n, whence].                                  *)
(*   read  n >= 0    read n = -1 is "read everything"                       *)
(*   seek  n = offset, whence in {0, 1, 2}                                 *)
(*   tell                                                                  *)
(*   peek  n > 0                                                           *)
-----------------------------------------------------------------------------

Clamp(g, p) == Max(0, Min(p, g.size))
Remaining(g, pos) == g.size - pos

\* ---- property level: io.BytesIO over file[off .. off+size) -----------------
SpecWindow(g, pos, n) == FileBytes(g.off + pos, g.off + pos + n)

SpecPos(g, pos, o) ==
    CASE o.name = "read" ->
            IF o.n < 0 THEN g.size ELSE pos + Min(o.n, Remaining(g, pos))
      [] o.name = "seek" ->
            Clamp(g, (CASE o.whence = 0 -> 0 [] o.whence = 1 -> pos [] OTHER -> g.size) + o.n)
      [] OTHER -> pos

\* For read: exactly these bytes.  For peek: at least these bytes (a prefix).
\* For seek / tell: the integer returned.
SpecBytes(g, pos, o) ==
    CASE o.name = "read" ->
            SpecWindow(g, pos, IF o.n < 0 THEN Remaining(g, pos) ELSE Min(o.n, Remaining(g, pos)))
      [] o.name = "peek" -> SpecWindow(g, pos, Min(o.n, Remaining(g, pos)))
      [] OTHER -> <<>>

SpecInt(g, pos, o) ==
    CASE o.name = "seek" -> SpecPos(g, pos, o)
      [] o.name = "tell" -> pos
      [] OTHER -> 0

\* ---- implementation level ---------------------------------------------------
BucketOf(g, p) == (p \div g.bs) * g.bs

\* cache(bucket): FIFO eviction when the limit is reached
ImplCache(g, fifo, b) ==
    IF \E i \in 1..Len(fifo) : fifo[i] = b THEN fifo
    ELSE Append(IF Len(fifo) = g.maxb THEN Tail(fifo) ELSE fifo, b)

\* data held by bucket b: reader.read(bs) at file position off+b (short at end of file)
BucketData(g, b) == FileBytes(g.off + b, Min(g.off + b + g.bs, g.flen))

Drop(s, k) == IF k >= Len(s) THEN <<>> ELSE SubSeq(s, k + 1, Len(s))

RECURSIVE ImplPeekData(_, _, _), ImplPeekFifo(_, _, _, _)
\* peek loop (buffered_reader.py:103-109): p is the current position, todo what is left
ImplPeekData(g, p, todo) ==
    IF todo <= 0 THEN <<>>
    ELSE LET b   == BucketOf(g, p)
             off == p - b
             sz  == Min(todo, g.bs - off)
         IN  Drop(BucketData(g, b), off) \o ImplPeekData(g, b + g.bs, todo - sz)

ImplPeekFifo(g, fifo, p, todo) ==
    IF todo <= 0 THEN fifo
    ELSE LET b   == BucketOf(g, p)
             off == p - b
             sz  == Min(todo, g.bs - off)
         IN  ImplPeekFifo(g, ImplCache(g, fifo, b), b + g.bs, todo - sz)

ImplPeekLen(g, pos, n) == Min(n, Remaining(g, pos))   \* size is always explicit here

ImplBytes(g, pos, o) ==
    CASE o.name = "read" ->
            IF o.n = -1
            THEN FileBytes(g.off + pos, g.off + pos + Max(0, Remaining(g, pos)))
            ELSE LET k == Min(o.n, Remaining(g, pos))
                 IN  IF k <= 0 THEN <<>>
                     ELSE SubSeq(ImplPeekData(g, pos, k), 1, k)
      [] o.name = "peek" ->
            LET k == ImplPeekLen(g, pos, o.n)
            IN  IF k <= 0 THEN <<>> ELSE ImplPeekData(g, pos, k)
      [] OTHER -> <<>>

ImplPos(g, pos, o) ==
    CASE o.name = "read" ->
            IF o.n = -1 THEN pos + Max(0, Remaining(g, pos))
            ELSE LET k == Min(o.n, Remaining(g, pos)) IN IF k <= 0 THEN pos ELSE pos + k
      [] o.name = "seek" ->
            Min(Max(0, (CASE o.whence = 0 -> 0 [] o.whence = 1 -> pos [] OTHER -> g.size) + o.n),
                g.size)
      [] OTHER -> pos

ImplFifo(g, fifo, pos, o) ==
    CASE o.name = "read" /\ o.n # -1 ->
            LET k == Min(o.n, Remaining(g, pos)) IN
            IF k <= 0 THEN fifo ELSE ImplPeekFifo(g, fifo, pos, k)
      [] o.name = "peek" ->
            LET k == ImplPeekLen(g, pos, o.n) IN
            IF k <= 0 THEN fifo ELSE ImplPeekFifo(g, fifo, pos, k)
      [] OTHER -> fifo

ImplInt(g, pos, o) ==
    CASE o.name = "seek" -> ImplPos(g, pos, o)
      [] o.name = "tell" -> pos
      [] OTHER -> 0

-----------------------------------------------------------------------------
(* Property-level clauses, stated on an observed step                       *)
(*   (g, pos before, operation, bytes returned, integer returned, pos after)*)
(* They are used three ways: on the implementation-level model (design),    *)
(* on edges replayed into the real class, and on recorded traces.           *)
-----------------------------------------------------------------------------
C20_ReadReturnsWindowBytes(g, pos, o, bytes) ==
    o.name = "read" => bytes = SpecBytes(g, pos, o)

\* every byte returned by a read lies inside the window (implied by the previous
\* clause; kept separate so a violation names what went wrong)
C20_NeverOutsideWindow(g, pos, o, bytes) ==
    o.name = "read" => Len(bytes) <= Max(0, Remaining(g, pos))

C20_PosClamped(g, pos, o, int, posAfter) ==
    /\ posAfter >= 0 /\ posAfter <= g.size
    /\ posAfter = SpecPos(g, pos, o)
    /\ o.name \in {"seek", "tell"} => int = SpecInt(g, pos, o)

C20_PeekAtLeast(g, pos, o, bytes, posAfter) ==
    o.name = "peek" => IsPrefix(SpecBytes(g, pos, o), bytes) /\ posAfter = pos

\* the implementation-shaped model satisfies the property level for operation o
Refines(g, pos, o) ==
    LET b == ImplBytes(g, pos, o)  pa == ImplPos(g, pos, o)  i == ImplInt(g, pos, o) IN
    /\ C20_ReadReturnsWindowBytes(g, pos, o, b)
    /\ C20_NeverOutsideWindow(g, pos, o, b)
    /\ C20_PosClamped(g, pos, o, i, pa)
    /\ C20_PeekAtLeast(g, pos, o, b, pa)
=============================================================================
