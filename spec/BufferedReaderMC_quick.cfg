SPECIFICATION Spec
CONSTANTS
  Geoms <- GeomsQuick
  EMIT = FALSE
INVARIANT RefinesAll
INVARIANT C20_PosInWindow
INVARIANT CacheBounded
CHECK_DEADLOCK FALSE
