------------------------------- MODULE DrmData -------------------------------
(***************************************************************************)
(* C11 - DRM key and licence data.  Byte strings are sequences over 0..255.*)
(* SHA-256 and AES-128-ECB are primitive oracles evaluated through IOExec  *)
(* (harness/oracle.py: hashlib / a pure-Python AES checked against FIPS    *)
(* 197); this module decides what is hashed and how results are combined.  *)
(***************************************************************************)
EXTENDS Integers, Sequences, FiniteSets, Bitwise, IOUtils, TLC

\* ---- hex <-> bytes ------------------------------------------------------------------
HexDigits == <<"0", "1", "2", "3", "4", "5", "6", "7", "8", "9", "a", "b", "c", "d", "e", "f">>
RECURSIVE ToHexFrom(_, _)
ToHexFrom(b, i) == IF i > Len(b) THEN "" ELSE HexDigits[(b[i] \div 16) + 1] \o HexDigits[(b[i] % 16) + 1] \o ToHexFrom(b, i + 1)
ToHex(b) == ToHexFrom(b, 1)
Nibble(c) == CHOOSE k \in 0..15 : HexDigits[k + 1] = c
FromHex(s) == [i \in 1..(Len(s) \div 2) |-> Nibble(SubSeq(s, 2 * i - 1, 2 * i - 1)) * 16 + Nibble(SubSeq(s, 2 * i, 2 * i))]

Oracle == IOEnv.ORACLE
Sha256(bytes) == FromHex(IOExec(<<"python3", Oracle, "sha256", ToHex(bytes)>>).stdout)
Aes128Ecb(key, block) == FromHex(IOExec(<<"python3", Oracle, "aes128ecb", ToHex(key), ToHex(block)>>).stdout)

\* ---- RFC 4122 bytes_le ------------------------------------------------------------------
LeGuid(b) == <<b[4], b[3], b[2], b[1], b[6], b[5], b[8], b[7]>> \o SubSeq(b, 9, 16)

\* ---- Microsoft PlayReady key seed algorithm ----------------------------------------------
XorAt(a, i) == a[i] ^^ a[i + 16]
ContentKey(kid, seed) ==
    LET s == SubSeq(seed, 1, 30)
        k == LeGuid(kid)
        A == Sha256(s \o k)
        B == Sha256(s \o k \o s)
        C == Sha256(s \o k \o s \o k)
    IN  [i \in 1..16 |-> (XorAt(A, i) ^^ XorAt(B, i)) ^^ XorAt(C, i)]
\* WRMHEADER checksum: first 8 bytes of AES-ECB(content key, kid in GUID order)
Checksum(kid, key) == SubSeq(Aes128Ecb(key, LeGuid(kid)), 1, 8)

\* the {cfgs} format field of a licence URL names every key of the set: its id as little-endian GUID, and (for keys that are
\* not derived from the key seed) the key itself
C11_LicenceUrlNamesKeys(hasCfgs, allKids, allKeys, cfgKids, cfgKeys) ==
    hasCfgs = 1 =>
        /\ Len(cfgKids) = Len(allKids)
        /\ \A i \in 1..Len(allKids) :
              /\ i <= Len(cfgKids) => cfgKids[i] = LeGuid(allKids[i])
              /\ i <= Len(cfgKeys) => (cfgKeys[i] = <<>> \/ cfgKeys[i] = allKeys[i])
C11_GuidLE(kid, le) == le = LeGuid(kid)
C11_ContentKey(kid, seed, key) == Len(seed) >= 30 => key = ContentKey(kid, seed)
\* a generated PlayReady Object parses back (independent reader) to the same kid(s), licence URL, checksum
C11_ProParsesBack(kids, laUrlEq, proKids, proChecksums, keys) ==
    /\ laUrlEq = 1
    /\ Len(proKids) = Len(kids)
    /\ \A i \in 1..Len(kids) : i <= Len(proKids) =>
          /\ proKids[i] = LeGuid(kids[i])
          /\ (Len(proChecksums[i]) > 0 => proChecksums[i] = Checksum(kids[i], keys[i]))

\* ---- ClearKey licence endpoint ---------------------------------------------------------------
\* store: set of [kid, key] (byte sequences); requested: sequence of byte sequences (decoded ids)
ClearKeyExpected(store, requested) ==
    { e \in store : \E i \in 1..Len(requested) : requested[i] = e.kid }
C11_ClearKeyExact(store, requested, response) ==
    /\ { response[i] : i \in 1..Len(response) } = ClearKeyExpected(store, requested)
    /\ \A i, j \in 1..Len(response) : response[i].kid = response[j].kid => i = j

\* ---- ContentProtection decision table -------------------------------------------------------
\* sel: set of [sys, locs]; for an encrypted AdaptationSet the manifest must carry
\*   mp4protection (always), and per selected system its element with the data its locations ask for
ExpectedCp(sel, v1) ==
    [mp4protection |-> 1,
     playready |-> IF \E s \in sel : s.sys = "playready" THEN 1 ELSE 0,
     \* PlayReady 1.0 (PIFF) only allows an mspr:pro element in the manifest
     playready_pssh |-> IF v1 = 0 /\ \E s \in sel : s.sys = "playready" /\ "cenc" \in s.locs THEN 1 ELSE 0,
     playready_pro |-> IF \E s \in sel : s.sys = "playready" /\ "pro" \in s.locs THEN 1 ELSE 0,
     clearkey_pssh |-> IF \E s \in sel : s.sys = "clearkey" /\ "cenc" \in s.locs THEN 1 ELSE 0,
     marlin |-> IF \E s \in sel : s.sys = "marlin" THEN 1 ELSE 0]
C11_ContentProtectionMatches(sel, obs, v1) ==
    LET e == ExpectedCp(sel, v1) IN
    /\ obs.mp4protection = e.mp4protection /\ obs.playready = e.playready /\ obs.playready_pssh = e.playready_pssh
    /\ obs.playready_pro = e.playready_pro /\ obs.clearkey_pssh = e.clearkey_pssh /\ obs.marlin = e.marlin
=============================================================================
