---------------------------- MODULE OptionLayers ----------------------------
(***************************************************************************)
(* How an option gets its value, and when a generated URL may leave it out. *)
(*                                                                         *)
(* Three layers give an option its value at an endpoint: the global        *)
(* default G, the defaults S a stream may carry (Absent = the stream sets  *)
(* nothing) and the request R (Absent = not in the query string).  A       *)
(* manifest resolves its options and writes media / patch / location URLs  *)
(* for the same stream; to keep URLs short it leaves out every option      *)
(* whose value the receiving endpoint resolves by itself.  The receiving   *)
(* endpoint belongs to the same stream: what it resolves by itself is the  *)
(* stream's default where the stream has one, the global default           *)
(* otherwise.                                                               *)
(*                                                                         *)
(* Elide is the rule as the service implements it (OptionsContainer        *)
(* .generate_cgi_parameters against the merged defaults); ElideGlobal is   *)
(* the tempting variant that compares with the global defaults only - TLC  *)
(* shows it is wrong exactly when the stream has a default and the request *)
(* spells out the global value.                                            *)
(***************************************************************************)
EXTENDS Naturals
CONSTANTS Values,      \* the values an option can take (small scope)
          Absent,      \* a model value outside Values
          Nil          \* a model value: nothing written / followed yet

Layer == Values \cup {Absent}

Resolve(r, s, g) == IF r # Absent THEN r ELSE IF s # Absent THEN s ELSE g
OwnDefault(s, g) == IF s # Absent THEN s ELSE g

\* what the manifest writes into a URL of the same stream: Absent = left out
Elide(v, s, g)       == IF v = OwnDefault(s, g) THEN Absent ELSE v
ElideGlobal(v, s, g) == IF v = g THEN Absent ELSE v

VARIABLES g, s, r, sent, seen
vars == <<g, s, r, sent, seen>>

Init == /\ g \in Values /\ s \in Layer /\ r \in Layer
        /\ sent = Nil /\ seen = Nil

\* the manifest request is served: it writes a URL
Manifest == /\ sent = Nil
            /\ sent' = Elide(Resolve(r, s, g), s, g)
            /\ UNCHANGED <<g, s, r, seen>>
\* a client follows the URL: the receiving endpoint resolves the option again
Follow == /\ sent # Nil /\ seen = Nil
          /\ seen' = Resolve(sent, s, g)
          /\ UNCHANGED <<g, s, r, sent>>
Next == Manifest \/ Follow \/ (seen # Nil /\ UNCHANGED vars)
Spec == Init /\ [][Next]_vars

\* C07 across layers: the value the media endpoint works with is the value the manifest worked with
C07_LayersAgree == seen # Nil => seen = Resolve(r, s, g)
\* ... and a URL never carries what the endpoint would resolve anyway (URLs stay short: not a safety matter, checked as a design note)
NoRedundantParameter == sent \notin {Nil, Absent} => sent # OwnDefault(s, g)

\* the variant, as an operator over the same state: used by the MC module to show that TLC rejects it
VariantSeen == Resolve(ElideGlobal(Resolve(r, s, g), s, g), s, g)
VariantAgrees == VariantSeen = Resolve(r, s, g)
VariantWrongExactlyWhen == (~VariantAgrees) <=> (s # Absent /\ s # g /\ Resolve(r, s, g) = g)
=============================================================================
