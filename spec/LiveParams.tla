----------------------------- MODULE LiveParams -----------------------------
(***************************************************************************)
(* C08 - live timing parameters are coherent for every clock and option.   *)
(* Implementation level: DashTiming.calculate_live_params as written       *)
(* (dashlive/mpeg/dash/timing.py).  Property level: the clauses C08_*      *)
(* stated on observed outputs (availabilityStartTime, publishTime,         *)
(* timeShiftBufferDepth, minimumUpdatePeriod, firstAvailableTime).         *)
(*                                                                         *)
(* Inputs: now = [d, s, u]; start = a symbolic name or "x<k>" meaning an   *)
(* explicit instant k whole seconds before floor(now); depth (0 = falsy,   *)
(* the code then uses 60); mup (Absent, <= 0 = disabled, > 0); the         *)
(* reference's segment duration and timescale (for the default mup).       *)
(***************************************************************************)
EXTENDS Prelude

Absent == -99
Symbolic == {"epoch", "today", "month", "year", "now"}

\* ---- implementation level -------------------------------------------------
\* @type: ({d: Int, s: Int, u: Int}, Str, Int) => {d: Int, s: Int, u: Int};
ImplAst0(now, start, xk) ==
    LET pub == FloorSec(now)
        c   == CivilFromDays(now.d)
        midnight == Inst(now.d, 0, 0)
    IN  CASE start = "epoch" -> Inst(0, 0, 0)
          [] start = "today" ->
                IF pub.s < 60 THEN Inst(now.d - 1, 0, 0) ELSE midnight   \* hour = 0 and minute = 0
          [] start = "month" ->
                LET m0 == Inst(DaysFromCivil(c.y, c.m, 1), 0, 0) IN
                IF Diff(pub, m0).s < 86400 THEN Inst(m0.d - 1, 0, 0) ELSE m0
          [] start = "year" ->
                LET y0 == Inst(DaysFromCivil(c.y, 1, 1), 0, 0) IN
                IF Diff(pub, y0).s < 86400 THEN Inst(y0.d - 1, 0, 0) ELSE y0
          [] start = "now" -> AddSec(pub, -60)
          [] OTHER -> AddSec(pub, -xk)                                    \* explicit whole-second instant

\* python round() of 2*sd/ts: round half to even
RoundHalfEven(num, den) ==
    LET q == num \div den
        r2 == 2 * (num - q * den)
    IN  IF r2 > den THEN q + 1 ELSE IF r2 < den THEN q ELSE (IF q % 2 = 0 THEN q ELSE q + 1)

\* @type: ({d: Int, s: Int, u: Int}, Str, Int, Int, Int, Int, Int) => {ast: {d: Int, s: Int, u: Int}, publish: {d: Int, s: Int, u: Int}, tsbd: Int, mup: Int, fta: {s: Int, u: Int}, elapsed: {s: Int, u: Int}};
Impl(now, start, xk, depth, mup, refSegDur, refTs) ==
    LET a0   == ImplAst0(now, start, xk)
        el0  == Diff(now, a0)
        zero == el0.s = 0 /\ el0.u = 0
        ast  == IF zero THEN Inst(a0.d - 1, a0.s, a0.u) ELSE a0
        el   == IF zero THEN Dur(86400, 0) ELSE el0
        d0   == IF depth <= 0 THEN 60 ELSE depth                      \* falsy or negative: default (fix: C08)
        tsbd == IF DurLt(el, Dur(d0, 0)) THEN el.s ELSE d0            \* int(total_seconds())
        defm == RoundHalfEven(2 * refSegDur, refTs)
        m    == IF mup = Absent THEN defm ELSE mup
        mout == IF m <= 0 THEN 0 ELSE m                                \* 0 stands for None
        pub  == IF mout = 0 THEN FloorSec(now)
                ELSE AddSec(ast, (el.s \div mout) * mout)
    IN  [ast |-> ast, publish |-> FloorSec(pub), tsbd |-> tsbd, mup |-> mout,
         fta |-> [s |-> el.s - tsbd, u |-> el.u], elapsed |-> el]

\* ---- property level: clauses on an observation r = [ast, publish, tsbd, mup, fta] ---
\* @type: ({d: Int, s: Int, u: Int}, {ast: {d: Int, s: Int, u: Int}, publish: {d: Int, s: Int, u: Int}, tsbd: Int, mup: Int, fta: {s: Int, u: Int}, elapsed: {s: Int, u: Int}}) => Bool;
C08_AstNotFuture(now, r) == InstLe(r.ast, now)
\* @type: ({d: Int, s: Int, u: Int}, {ast: {d: Int, s: Int, u: Int}, publish: {d: Int, s: Int, u: Int}, tsbd: Int, mup: Int, fta: {s: Int, u: Int}, elapsed: {s: Int, u: Int}}) => Bool;
C08_PublishInRangeWholeSecond(now, r) ==
    InstLe(r.ast, r.publish) /\ InstLe(r.publish, now) /\ r.publish.u = 0
\* @type: ({d: Int, s: Int, u: Int}, {ast: {d: Int, s: Int, u: Int}, publish: {d: Int, s: Int, u: Int}, tsbd: Int, mup: Int, fta: {s: Int, u: Int}, elapsed: {s: Int, u: Int}}) => Bool;
C08_TsbdRange(now, r) == r.tsbd >= 0 /\ DurLe(Dur(r.tsbd, 0), Diff(now, r.ast))
\* @type: ({d: Int, s: Int, u: Int}, {ast: {d: Int, s: Int, u: Int}, publish: {d: Int, s: Int, u: Int}, tsbd: Int, mup: Int, fta: {s: Int, u: Int}, elapsed: {s: Int, u: Int}}) => Bool;
C08_FirstAvailable(now, r) ==
    LET el == Diff(now, r.ast) IN
    r.fta = [s |-> el.s - r.tsbd, u |-> el.u] /\ r.fta.s >= 0
\* with a minimumUpdatePeriod p: publish = ast + k*p, lag < p + 1 s
\* @type: ({d: Int, s: Int, u: Int}, {ast: {d: Int, s: Int, u: Int}, publish: {d: Int, s: Int, u: Int}, tsbd: Int, mup: Int, fta: {s: Int, u: Int}, elapsed: {s: Int, u: Int}}) => Bool;
C08_PublishQuantised(now, r) ==
    r.mup > 0 =>
        LET off == Diff(r.publish, r.ast) IN
        /\ off.u = 0 /\ off.s >= 0 /\ off.s % r.mup = 0
        /\ DurLt(Diff(now, r.publish), Dur(r.mup + 1, 0))
\* @type: ({d: Int, s: Int, u: Int}, Str, {ast: {d: Int, s: Int, u: Int}, publish: {d: Int, s: Int, u: Int}, tsbd: Int, mup: Int, fta: {s: Int, u: Int}, elapsed: {s: Int, u: Int}}) => Bool;
C08_SymbolicAtLeastOneMinuteOld(now, start, r) ==
    start \in Symbolic => DurLe(Dur(60, 0), Diff(now, r.ast))
\* @type: ({d: Int, s: Int, u: Int}, Str, {ast: {d: Int, s: Int, u: Int}, publish: {d: Int, s: Int, u: Int}, tsbd: Int, mup: Int, fta: {s: Int, u: Int}, elapsed: {s: Int, u: Int}}) => Bool;
C08_NowFollowsAt60(now, start, r) ==
    start = "now" => r.ast = AddSec(FloorSec(now), -60)

\* relational clauses over two observations with the same options, now1 <= now2
\* @type: ({ast: {d: Int, s: Int, u: Int}, publish: {d: Int, s: Int, u: Int}, tsbd: Int, mup: Int, fta: {s: Int, u: Int}, elapsed: {s: Int, u: Int}}, {ast: {d: Int, s: Int, u: Int}, publish: {d: Int, s: Int, u: Int}, tsbd: Int, mup: Int, fta: {s: Int, u: Int}, elapsed: {s: Int, u: Int}}) => Bool;
C08_PublishMonotone(r1, r2) == InstLe(r1.publish, r2.publish)
\* epoch / today / month / year: one instant for all requests of a UTC day after its first minute
\* @type: ({d: Int, s: Int, u: Int}, {d: Int, s: Int, u: Int}, Str, {ast: {d: Int, s: Int, u: Int}, publish: {d: Int, s: Int, u: Int}, tsbd: Int, mup: Int, fta: {s: Int, u: Int}, elapsed: {s: Int, u: Int}}, {ast: {d: Int, s: Int, u: Int}, publish: {d: Int, s: Int, u: Int}, tsbd: Int, mup: Int, fta: {s: Int, u: Int}, elapsed: {s: Int, u: Int}}) => Bool;
C08_SymbolicStableWithinDay(now1, now2, start, r1, r2) ==
    (start \in {"epoch", "today", "month", "year"} /\ now1.d = now2.d /\ now1.s >= 60 /\ now2.s >= 60)
        => r1.ast = r2.ast

\* @type: ({d: Int, s: Int, u: Int}, Str, {ast: {d: Int, s: Int, u: Int}, publish: {d: Int, s: Int, u: Int}, tsbd: Int, mup: Int, fta: {s: Int, u: Int}, elapsed: {s: Int, u: Int}}) => Bool;
AllSingle(now, start, r) ==
    /\ C08_AstNotFuture(now, r)
    /\ C08_PublishInRangeWholeSecond(now, r)
    /\ C08_TsbdRange(now, r)
    /\ C08_FirstAvailable(now, r)
    /\ C08_PublishQuantised(now, r)
    /\ C08_SymbolicAtLeastOneMinuteOld(now, start, r)
    /\ C08_NowFollowsAt60(now, start, r)
=============================================================================
