----------------------------- MODULE DrmDataTrace -----------------------------
(* {ev:"guid", kid, le} {ev:"key", kid, seed, key} {ev:"pro", kids, keys, la_eq, pro_kids, pro_checksums}                      *)
(* {ev:"clearkey", store:[{kid,key}], requested:[[..]], response:[{kid,key}], status}                                           *)
(* {ev:"cp", sel:[{sys,locs:[..]}], obs:{...}, kid_eq, pssh_eq}                                                                  *)
EXTENDS DrmData, Json
TraceLog == ndJsonDeserialize(IOEnv.TRACE_FILE)
VARIABLE l
Report(c, ok, detail) ==
    IF ok THEN TRUE
    ELSE PrintT(<<"V", ToJson([line |-> l, tid |-> TraceLog[l].tid, clause |-> c, detail |-> detail])>>)
ToSet(s) == { s[i] : i \in 1..Len(s) }
Check(t) ==
    IF t.ev = "guid" THEN Report("C11_GuidLE", C11_GuidLE(t.kid, t.le), 0)
    ELSE IF t.ev = "key" THEN Report("C11_ContentKey", C11_ContentKey(t.kid, t.seed, t.key), 0)
    ELSE IF t.ev = "pro" THEN
        /\ Report("C11_ProParsesBack", C11_ProParsesBack(t.kids, t.la_eq, t.pro_kids, t.pro_checksums, t.keys),
                  [la |-> t.la_eq, n |-> Len(t.pro_kids)])
        /\ Report("C11_LicenceUrlNamesKeys", C11_LicenceUrlNamesKeys(t.has_cfgs, t.all_kids, t.all_keys, t.cfg_kids, t.cfg_keys),
                  [n |-> Len(t.cfg_kids), want |-> Len(t.all_kids)])
    ELSE IF t.ev = "stream_la" THEN
        \* the licence URL stored with a stream is the LA_URL of every PlayReady Object in its manifests
        Report("C11_StreamLicenceUrl", t.status = 200 /\ Len(t.got) >= 1 /\ \A i \in 1..Len(t.got) : t.got[i] = t.expected,
               [got |-> t.got, expected |-> t.expected])
    ELSE IF t.ev = "clearkey" THEN
        Report("C11_ClearKeyExact", t.status = 200 /\ C11_ClearKeyExact(ToSet(t.store), t.requested, t.response), Len(t.response))
    ELSE IF t.ev = "cp" THEN
        /\ Report("C11_ContentProtectionMatches",
                  C11_ContentProtectionMatches({[sys |-> t.sel[i].sys, locs |-> ToSet(t.sel[i].locs)] : i \in 1..Len(t.sel)}, t.obs, t.v1), t.obs)
        /\ Report("C11_DefaultKid", t.kid_eq = 1, 0)
        /\ Report("C11_ManifestPsshEqInitPssh", t.pssh_eq = 1, 0)
    ELSE TRUE
TraceInit == l = 1
TraceNext == l <= Len(TraceLog) /\ Check(TraceLog[l]) /\ l' = l + 1
TraceSpec == TraceInit /\ [][TraceNext]_l
TraceAccepted == \/ TLCGet("stats").diameter - 1 = Len(TraceLog)
                 \/ Print(<<"TRACE_REJECTED", TLCGet("stats").diameter - 1, Len(TraceLog)>>, FALSE)
=============================================================================
