SPECIFICATION Spec
CONSTANTS
  Q = 40
  Tier = "quick"
  EMIT = TRUE
INVARIANT Emit
CHECK_DEADLOCK FALSE
