------------------------------ MODULE AuthTrace ------------------------------
(* Trace validation for C15.                                                     *)
(*  CSRF walks (one tid per walk):                                               *)
(*   {tid, ev:"issue", tok, cookie, service}                                     *)
(*   {tid, ev:"present", tok, cookie, service, tampered, accepted}               *)
(*   {tid, ev:"restart"}                                                          *)
(*  Route sweep: {tid, ev:"request", route, method, role, changed, selfonly, status} *)
EXTENDS Auth, TLC, Json, IOUtils
TraceLog == ndJsonDeserialize(IOEnv.TRACE_FILE)
VARIABLES l, cur, toks, acc, used
\* cur: tid of the walk being consumed; toks: id -> [cookie, service]; acc: id -> times accepted;
\* used: strings recorded since the last restart (for the drift comparison only)
tvars == <<l, cur, toks, acc, used>>
Report(c, ok, detail) ==
    IF ok THEN TRUE
    ELSE PrintT(<<"V", ToJson([line |-> l, tid |-> TraceLog[l].tid, clause |-> c, detail |-> detail])>>)

NoTok == [cookie |-> "", service |-> ""]
Fresh(t) == t.tid # cur          \* first line of a new walk: forget the previous one
Toks0(t) == IF Fresh(t) THEN [i \in 1..8 |-> NoTok] ELSE toks
Acc0(t)  == IF Fresh(t) THEN [i \in 1..8 |-> 0] ELSE acc
Used0(t) == IF Fresh(t) THEN {} ELSE used

Step(t) ==
    /\ cur' = t.tid
    /\ IF t.ev = "issue" THEN
           /\ toks' = [Toks0(t) EXCEPT ![t.tok] = [cookie |-> t.cookie, service |-> t.service]]
           /\ acc' = Acc0(t) /\ used' = Used0(t)
       ELSE IF t.ev = "present" THEN
           LET tk == Toks0(t)[t.tok]  before == Acc0(t)[t.tok]  str == <<t.tok, t.tampered>> IN
           /\ Report("C15_CsrfAtMostOnce", C15_CsrfAtMostOnce(t.accepted, before),
                     [tok |-> t.tok, before |-> before, restarted |-> t.restarted])
           /\ Report("C15_CsrfBoundToService", C15_CsrfBoundToService(t.accepted, tk, t.service), [tok |-> t.tok])
           /\ Report("C15_CsrfBoundToCookie", C15_CsrfBoundToCookie(t.accepted, tk, t.cookie), [tok |-> t.tok])
           /\ Report("C15_CsrfNotForgeable", C15_CsrfNotForgeable(t.accepted, t.tampered), [tok |-> t.tok])
           /\ Report("DRIFT_csrf",
                     t.accepted = (IF ImplAccept(tk, t.cookie, t.service, t.tampered, str, Used0(t)) THEN 1 ELSE 0), 0)
           /\ acc' = [Acc0(t) EXCEPT ![t.tok] = IF t.accepted = 1 /\ t.tampered = 0 THEN @ + 1 ELSE @]
           /\ used' = Used0(t) \cup {str}
           /\ toks' = Toks0(t)
       ELSE IF t.ev = "restart" THEN
           /\ used' = {} /\ toks' = Toks0(t) /\ acc' = Acc0(t)
       ELSE IF t.ev = "request" THEN
           /\ Report("C15_ChangeImpliesAuthorised",
                     C15_ChangeImpliesAuthorised(t.route, t.role, t.changed, t.selfonly),
                     [route |-> t.route, method |-> t.method, role |-> t.role])
           /\ UNCHANGED <<toks, acc, used>>
       ELSE UNCHANGED <<toks, acc, used>>

TraceInit == l = 1 /\ cur = 0 /\ toks = [i \in 1..8 |-> NoTok] /\ acc = [i \in 1..8 |-> 0] /\ used = {}
TraceNext == l <= Len(TraceLog) /\ Step(TraceLog[l]) /\ l' = l + 1
TraceSpec == TraceInit /\ [][TraceNext]_tvars
TraceAccepted == \/ TLCGet("stats").diameter - 1 = Len(TraceLog)
                 \/ Print(<<"TRACE_REJECTED", TLCGet("stats").diameter - 1, Len(TraceLog)>>, FALSE)
=============================================================================
