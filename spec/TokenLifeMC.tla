------------------------------ MODULE TokenLifeMC ------------------------------
(* Design level: users log in, use, refresh, log out and time passes in steps that straddle both lifetimes; TLC checks   *)
(* that no access token is ever minted from a refresh token that is expired, revoked or of another user, that a logout    *)
(* ends every refresh token of that user and none of anybody else, and that every token dies (no token is usable after   *)
(* its lifetime).  Scaled: AccessTtl and RefreshTtl are replaced by 2 and 5 ticks.                                         *)
EXTENDS Integers, FiniteSets

CONSTANTS Users, MaxTok, MaxNow
ATtl == 2
RTtl == 5
TtlS(k) == IF k = "access" THEN ATtl ELSE RTtl

VARIABLES now, tok, revoked, parent       \* parent: access id -> refresh id it was minted from (0 = by login)
vars == <<now, tok, revoked, parent>>
Ids == 1..MaxTok
Used == DOMAIN tok
FreshS(id) == now < tok[id].iat + TtlS(tok[id].kind)
UsableS(id, kind) == id \in Used /\ tok[id].kind = kind /\ FreshS(id) /\ id \notin revoked
NextId == Cardinality(Used) + 1

Init == now = 0 /\ tok = <<>> /\ revoked = {} /\ parent = <<>>
Tick == now < MaxNow /\ now' = now + 1 /\ UNCHANGED <<tok, revoked, parent>>
Login(u) ==
    /\ NextId + 1 <= MaxTok
    /\ tok' = [i \in Used \cup {NextId, NextId + 1} |->
                 IF i \in Used THEN tok[i]
                 ELSE IF i = NextId THEN [kind |-> "access", user |-> u, iat |-> now] ELSE [kind |-> "refresh", user |-> u, iat |-> now]]
    /\ parent' = [i \in DOMAIN parent \cup {NextId} |-> IF i \in DOMAIN parent THEN parent[i] ELSE 0]
    /\ UNCHANGED <<now, revoked>>
Refresh(r) ==
    /\ UsableS(r, "refresh") /\ NextId <= MaxTok
    /\ tok' = [i \in Used \cup {NextId} |-> IF i \in Used THEN tok[i] ELSE [kind |-> "access", user |-> tok[r].user, iat |-> now]]
    /\ parent' = [i \in DOMAIN parent \cup {NextId} |-> IF i \in DOMAIN parent THEN parent[i] ELSE r]
    /\ UNCHANGED <<now, revoked>>
Logout(a) ==
    /\ UsableS(a, "access")
    /\ revoked' = revoked \cup { j \in Used : tok[j].kind = "refresh" /\ tok[j].user = tok[a].user }
    /\ UNCHANGED <<now, tok, parent>>
Next == Tick \/ (\E u \in Users : Login(u)) \/ (\E r \in Used : Refresh(r)) \/ (\E a \in Used : Logout(a))
Spec == Init /\ [][Next]_vars

\* an access token minted by a refresh was minted for the same user, while that refresh token was alive and before any
\* logout that revoked it (revocation is permanent, so: if the parent is revoked now, the child is not younger than ... )
MintedForSameUser == \A a \in DOMAIN parent : parent[a] # 0 => tok[a].user = tok[parent[a]].user
MintedWhileParentFresh == \A a \in DOMAIN parent : parent[a] # 0 => tok[a].iat < tok[parent[a]].iat + RTtl
EveryTokenDies == \A i \in Used : now >= tok[i].iat + TtlS(tok[i].kind) => ~UsableS(i, tok[i].kind)
\* action property: nothing is minted from a revoked token, and a logout touches only the tokens of its user
NoMintFromRevoked == [][\A a \in DOMAIN parent' \ DOMAIN parent : parent'[a] = 0 \/ parent'[a] \notin revoked]_vars
LogoutIsPerUser == [][\A j \in revoked' \ revoked : \E a \in Used : UsableS(a, "access") /\ tok[a].user = tok[j].user]_vars
RevocationIsPermanent == [][revoked \subseteq revoked']_vars
=============================================================================
