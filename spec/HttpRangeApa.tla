---------------------------- MODULE HttpRangeApa ----------------------------
(* Unbounded version of HttpRangeMC for Apalache: the header's integers and the representation   *)
(* length range over all naturals (SMT), instead of 0..8 x 1..6.  One symbolic initial state;     *)
(* the invariants are the same three as in HttpRangeMC.                                           *)
(*   apalache-mc check --init=Init --next=Next --inv=Inv --length=0 HttpRangeApa.tla              *)
EXTENDS HttpRange
VARIABLES
    \* @type: { kind: Str, a: Int, b: Int, n: Int };
    h,
    \* @type: Int;
    L
Kinds == {"absent", "other", "single", "from", "suffix"}
Init ==
    /\ \E k \in Kinds, x \in Nat, y \in Nat, z \in Nat : h = [kind |-> k, a |-> x, b |-> y, n |-> z]
    /\ L \in Nat /\ L >= 1
Next == UNCHANGED <<h, L>>
Total == Rfc7233(h, L).class \in {"sat", "unsat", "nonsingle", "full"}
SatInside == Rfc7233(h, L).class = "sat" => (0 <= Rfc7233(h, L).a /\ Rfc7233(h, L).a <= Rfc7233(h, L).b /\ Rfc7233(h, L).b < L)
ImplSatisfies == AllClauses(h, L, ImplRange(h, L), 0)
Inv == Total /\ SatInside /\ ImplSatisfies
=============================================================================
