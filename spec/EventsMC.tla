------------------------------ MODULE EventsMC ------------------------------
(* every schedule in a small grid x every segment of 3 loops of two layouts:      *)
(* the implementation-shaped loop delivers exactly the expected ids.              *)
EXTENDS Events, TLC
VARIABLES sch, seg
vars == <<sch, seg>>
TsPairs == { <<1, 1>>, <<2, 3>>, <<3, 2>>, <<10, 4>>, <<4, 10>> }      \* <<event ts, representation ts>>
Init ==
    /\ \E st \in 0..6, iv \in 1..5, cn \in 0..4, p \in TsPairs :
          sch = [start |-> st, interval |-> iv, count |-> cn, duration |-> 2, ts |-> p[1], version |-> 0, rts |-> p[2]]
    /\ \E i \in 0..11, d \in {3, 4, 7} : seg = [s |-> i * d, e |-> (i + 1) * d]
Next == UNCHANGED vars
Spec == Init /\ [][Next]_vars
ImplDeliversExpected == ImplEmsgIds(sch, seg.s, seg.e, sch.rts) = Expected(sch, seg.s, seg.e, sch.rts)
\* consecutive segments tile: an event of the schedule falls into exactly one of them
=============================================================================
