-------------------------------- MODULE Auth --------------------------------
(***************************************************************************)
(* C15 - only authorised roles can change persistent state; CSRF tokens.   *)
(*                                                                         *)
(* Part 1: the CSRF token life-cycle (csrf.py + models/token.py).          *)
(*  A token is issued for a (cookie, service) pair.  Presenting a string   *)
(*  records it in the Token table *before* the signature is verified; a    *)
(*  recorded string is refused ("re-use").  A restart of the service       *)
(*  prunes every CSRF record (app.py: prune_database(all_csrf=True)),      *)
(*  and tokens carry no expiry of their own.                               *)
(* Part 2: the role oracle for the route sweep (Required).                 *)
(***************************************************************************)
EXTENDS Integers, Sequences, FiniteSets

\* ---- part 1 -----------------------------------------------------------------
\* implementation level: is a presentation accepted?  tok = [cookie, service],
\* presented with cookie c at service s; str = <<id, tampered>> is the string sent
ImplAccept(tok, c, s, tampered, str, used) ==
    /\ str \notin used
    /\ tampered = 0
    /\ tok.cookie = c
    /\ tok.service = s

\* property level, on one observed presentation
C15_CsrfAtMostOnce(accepted, timesAcceptedBefore) == accepted = 1 => timesAcceptedBefore = 0
C15_CsrfBoundToService(accepted, tok, s) == accepted = 1 => tok.service = s
C15_CsrfBoundToCookie(accepted, tok, c) == accepted = 1 => tok.cookie = c
C15_CsrfNotForgeable(accepted, tampered) == accepted = 1 => tampered = 0

\* ---- part 2: who may change persistent state through which operation ----------
\* classes: "media" (streams, media files, keys, multi-period streams), "admin" (other
\* users), "self" (the user's own account), "nobody" (must never change state).
\* Route names are those of dashlive/server/routes.py; anything not listed is "nobody".
MediaRoutes == {"add-stream", "view-stream", "delete-stream", "edit-stream-defaults", "upload-blob",
                "edit-media", "delete-media", "media-info", "index-media-file", "check-media-changes",
                "add-key", "edit-key", "delete-key", "api-add-mps", "api-edit-mps", "api-validate-mps"}
AdminRoutes == {"api-list-users", "api-edit-user"}
Required(route) ==
    IF route \in MediaRoutes THEN "media"
    ELSE IF route \in AdminRoutes THEN "admin"
    ELSE "nobody"

\* roles: "anonymous", "user", "media", "admin"; admins have every permission
Authorised(role, class) ==
    CASE class = "media" -> role \in {"media", "admin"}
      [] class = "admin" -> role = "admin"
      [] OTHER -> FALSE

\* an observed request: what changed (tables other than the Token table; blob store)
\*   changed = 1 iff the digest of persistent state differs after the request
\*   selfonly = 1 iff the only change is the row of the requesting user's own account
C15_ChangeImpliesAuthorised(route, role, changed, selfonly) ==
    changed = 1 =>
        \/ Authorised(role, Required(route))
        \/ selfonly = 1 /\ role # "anonymous"
=============================================================================
