------------------------------ MODULE OptionsMC ------------------------------
(* design level: the forwarding rule over an abstract registry - every subset of 4 options with    *)
(* usage masks drawn from the real ones, every assignment of default / non-default values: an       *)
(* option the media endpoint does not receive keeps its default there, so both sides agree.         *)
EXTENDS Options, TLC
Types == {"video", "audio", "text"}
Names == {"start", "drm", "playready__piff", "mup"}
Usage == [n \in Names |-> CASE n = "start" -> <<"manifest", "video", "audio", "text">>
                            [] n = "drm" -> <<"manifest", "video", "audio", "text">>
                            [] n = "playready__piff" -> <<"manifest", "video", "audio">>
                            [] OTHER -> <<"manifest">>]
VARIABLES val, m
vars == <<val, m>>
Init == val \in [Names -> {"default", "x", "y"}] /\ m \in Types
Next == UNCHANGED vars
Spec == Init /\ [][Next]_vars
Med == [n \in Names |-> IF ImplForwards(m, n, Usage, val[n], "default") THEN val[n] ELSE "default"]
UrlNames == LET S == { n \in Names : ImplForwards(m, n, Usage, val[n], "default") } IN
            IF S = {} THEN <<>> ELSE LET RECURSIVE F(_) F(s) == IF s = {} THEN <<>> ELSE LET x == CHOOSE y \in s : TRUE IN <<x>> \o F(s \ {x}) IN F(S)
ForwardedOk == C07_Forwarded(m, Names, Usage, val, Med)
NotForwardedOk == C07_NotForwarded(m, UrlNames, Usage, Names)
=============================================================================
