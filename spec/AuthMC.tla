------------------------------- MODULE AuthMC -------------------------------
(* CSRF life-cycle, small scope: 2 cookies x 2 services x up to 3 tokens, with    *)
(* tamper, cross-cookie, cross-service, re-use and restart as separate actions.    *)
(* Every edge of the state graph is emitted for replay on the real application.    *)
EXTENDS Auth, TLC, Json
CONSTANTS EMIT, MaxTokens, MaxRestarts
Cookies == {"c1", "c2"}
Services == {"streams", "keys"}

VARIABLES tokens,    \* sequence of issued tokens [cookie, service]
          used,      \* strings recorded in the Token table: <<id, tampered>>
          acc,       \* id -> times accepted (history)
          epochAcc,  \* id -> times accepted since the last restart
          restarts
vars == <<tokens, used, acc, epochAcc, restarts>>

Init == tokens = <<>> /\ used = {} /\ acc = <<>> /\ epochAcc = <<>> /\ restarts = 0

Issue(c, s) ==
    /\ Len(tokens) < MaxTokens
    /\ tokens' = Append(tokens, [cookie |-> c, service |-> s])
    /\ acc' = Append(acc, 0) /\ epochAcc' = Append(epochAcc, 0)
    /\ UNCHANGED <<used, restarts>>

Present(i, c, s, t) ==
    LET str == <<i, t>>
        ok  == ImplAccept(tokens[i], c, s, t, str, used)
    IN  /\ used' = used \cup {str}
        /\ acc' = [acc EXCEPT ![i] = IF ok THEN @ + 1 ELSE @]
        /\ epochAcc' = [epochAcc EXCEPT ![i] = IF ok THEN @ + 1 ELSE @]
        /\ UNCHANGED <<tokens, restarts>>

Restart ==
    /\ restarts < MaxRestarts
    /\ used' = {} /\ restarts' = restarts + 1
    /\ epochAcc' = [i \in 1..Len(epochAcc) |-> 0]
    /\ UNCHANGED <<tokens, acc>>

Next == \/ \E c \in Cookies, s \in Services : Issue(c, s)
        \/ \E i \in 1..Len(tokens), c \in Cookies, s \in Services, t \in {0, 1} : Present(i, c, s, t)
        \/ Restart
Spec == Init /\ [][Next]_vars

\* property: no token is ever accepted twice.  The implementation-shaped model violates it
\* through Restart (known finding C15-csrf-replay-after-restart): within one run of the
\* service the property holds.
AtMostOnce == \A i \in 1..Len(acc) : acc[i] <= 1
Known_C15_ReplayAfterRestart == restarts > 0 /\ \A i \in 1..Len(epochAcc) : epochAcc[i] <= 1
AtMostOnceOrKnown == AtMostOnce \/ Known_C15_ReplayAfterRestart
Bounded == \A i \in 1..Len(acc) : acc[i] <= MaxRestarts + 1
\* keep the graph finite and small
Constraint == \A i \in 1..Len(acc) : acc[i] <= 2

\* ---- emission: every edge (action with arguments, expected acceptance) ---------------
St == [tokens |-> tokens, used |-> used, restarts |-> restarts]
EmitEdges ==
    EMIT =>
      /\ \A c \in Cookies, s \in Services :
            Len(tokens) < MaxTokens =>
              PrintT(<<"E", ToJson([from |-> St, act |-> "issue", cookie |-> c, service |-> s, tok |-> Len(tokens) + 1,
                                    tampered |-> 0, exp |-> 0,
                                    to |-> [tokens |-> Append(tokens, [cookie |-> c, service |-> s]), used |-> used, restarts |-> restarts]])>>)
      /\ \A i \in 1..Len(tokens), c \in Cookies, s \in Services, t \in {0, 1} :
              PrintT(<<"E", ToJson([from |-> St, act |-> "present", cookie |-> c, service |-> s, tok |-> i, tampered |-> t,
                                    exp |-> IF ImplAccept(tokens[i], c, s, t, <<i, t>>, used) THEN 1 ELSE 0,
                                    to |-> [tokens |-> tokens, used |-> used \cup {<<i, t>>}, restarts |-> restarts]])>>)
      /\ restarts < MaxRestarts =>
              PrintT(<<"E", ToJson([from |-> St, act |-> "restart", cookie |-> "", service |-> "", tok |-> 0, tampered |-> 0, exp |-> 0,
                                    to |-> [tokens |-> tokens, used |-> {}, restarts |-> restarts + 1]])>>)
=============================================================================
