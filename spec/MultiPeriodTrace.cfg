SPECIFICATION TraceSpec
CONSTANT Q = 1000
POSTCONDITION TraceAccepted
CHECK_DEADLOCK FALSE
