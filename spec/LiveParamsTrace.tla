--------------------------- MODULE LiveParamsTrace ---------------------------
(* Trace validation for C08.  One line per request (pure layer: DashTiming;      *)
(* HTTP: attributes of a rendered live manifest):                                *)
(*  {tid, grp, layer, now:{d,s,u}, start, xk, depth, mup, has_fta,               *)
(*   obs:{ast:{d,s,u}, publish:{d,s,u}, tsbd, mup, fta:{s,u}}}                   *)
(* Lines of one group (same options) are ordered by now; relational clauses      *)
(* compare each line with its predecessor in the group.                          *)
EXTENDS LiveParams, TLC, Json, IOUtils

TraceLog == ndJsonDeserialize(IOEnv.TRACE_FILE)
VARIABLE l

Report(c, ok, detail) ==
    IF ok THEN TRUE
    ELSE PrintT(<<"V", ToJson([line |-> l, tid |-> TraceLog[l].tid, clause |-> c, detail |-> detail])>>)

Check(t) ==
    LET r == t.obs  now == t.now IN
    /\ Report("C08_AstNotFuture", C08_AstNotFuture(now, r), r.ast)
    /\ Report("C08_PublishInRangeWholeSecond", C08_PublishInRangeWholeSecond(now, r), r.publish)
    /\ Report("C08_TsbdRange", C08_TsbdRange(now, r), r.tsbd)
    /\ (t.has_fta = 1 => Report("C08_FirstAvailable", C08_FirstAvailable(now, r), r.fta))
    \* a period that is not a whole number of seconds (mup_whole = 0; r.mup then holds its integer part) is judged on the
    \* exact quotient (publishTime - availabilityStartTime) / p, computed by the projection with rationals (k_whole)
    /\ Report("C08_PublishQuantised", IF r.mup_whole = 1 THEN C08_PublishQuantised(now, r) ELSE r.k_whole = 1,
              [publish |-> r.publish, mup |-> r.mup, whole |-> r.mup_whole])
    /\ Report("C08_SymbolicAtLeastOneMinuteOld", C08_SymbolicAtLeastOneMinuteOld(now, t.start, r), r.ast)
    /\ Report("C08_NowFollowsAt60", C08_NowFollowsAt60(now, t.start, r), r.ast)
    /\ (t.layer = "pure" =>
          Report("DRIFT_liveparams",
                 LET m == Impl(now, t.start, t.xk, t.depth, t.mup, t.refSegDur, t.refTs) IN
                 m.ast = r.ast /\ m.publish = r.publish /\ m.tsbd = r.tsbd /\ m.mup = r.mup /\ m.fta = r.fta, 0))
    /\ (l > 1 /\ TraceLog[l - 1].grp = t.grp /\ InstLe(TraceLog[l - 1].now, now)) =>
          LET p == TraceLog[l - 1] IN
          /\ Report("C08_PublishMonotone", C08_PublishMonotone(p.obs, r),
                    [start |-> t.start, mup |-> r.mup, ast_moved |-> IF p.obs.ast = r.ast THEN 0 ELSE 1,
                     prev |-> p.obs.publish, cur |-> r.publish])
          /\ Report("C08_SymbolicStableWithinDay",
                    C08_SymbolicStableWithinDay(p.now, now, t.start, p.obs, r), [prev |-> p.obs.ast, cur |-> r.ast])

TraceInit == l = 1
TraceNext == l <= Len(TraceLog) /\ Check(TraceLog[l]) /\ l' = l + 1
TraceSpec == TraceInit /\ [][TraceNext]_l
TraceAccepted ==
    \/ TLCGet("stats").diameter - 1 = Len(TraceLog)
    \/ Print(<<"TRACE_REJECTED", TLCGet("stats").diameter - 1, Len(TraceLog)>>, FALSE)
=============================================================================
