SPECIFICATION Spec
CONSTANTS
  Geoms <- GeomsThorough
  EMIT = TRUE
INVARIANT RefinesAll
INVARIANT C20_PosInWindow
INVARIANT CacheBounded
INVARIANT Emit
CHECK_DEADLOCK FALSE
