--------------------------- MODULE SegmentRewrite ---------------------------
(***************************************************************************)
(* C03 / C10 - rewritten segments keep their payload and point at it.      *)
(* Abstract layout of a served media segment:                              *)
(*   emsg* moof[mfhd traf[tfhd tfdt trun (piff)? (saiz saio senc)?]] mdat   *)
(* The implementation level follows generate_media_segment's edit script   *)
(* (media_requests.py) and the two-pass encoder: sizes are back-patched    *)
(* while encoding, trun.data_offset and saio.offset are fixed up by        *)
(* post_encode in tree order (mp4.py).                                     *)
(* A configuration cfg =                                                   *)
(*  [n (samples), tfdt0 ("absent"|"v0"|"v1"), big (origin needs 64 bits),  *)
(*   enc ("clear"|"iv8"|"iv16"), piff (insert PIFF box), explicitBase,     *)
(*   emsg (sequence of emsg box sizes), bugSaio, P (payload length)]       *)
(***************************************************************************)
EXTENDS Integers, Sequences

RECURSIVE SumSeq(_, _)
SumSeq(s, k) == IF k <= 0 THEN 0 ELSE s[k] + SumSeq(s, k - 1)

Encrypted(cfg) == cfg.enc # "clear"
IvSize(cfg) == IF cfg.enc = "iv16" THEN 16 ELSE 8

\* ---- box sizes (ISO/IEC 14496-12, 23001-7) -----------------------------------------
MfhdSize == 16
TfhdSize(cfg) == 16 + (IF cfg.explicitBase THEN 8 ELSE 0)
\* the handler inserts a v0 tfdt when absent, then adds the origin: > 32 bits forces version 1
TfdtVersion(cfg) == IF cfg.big \/ cfg.tfdt0 = "v1" THEN 1 ELSE 0
TfdtSize(cfg) == IF TfdtVersion(cfg) = 1 THEN 20 ELSE 16
TrunSize(cfg) == 20 + cfg.n * 8                      \* data_offset present, duration + size per sample
SaizSize(cfg) == 17
SaioSize == 20
SencSize(cfg) == 16 + cfg.n * IvSize(cfg)
PiffSize(cfg) == 32 + cfg.n * IvSize(cfg)            \* uuid header (24) + flags + count + IVs
EncPart(cfg) == IF Encrypted(cfg) THEN (IF cfg.piff THEN PiffSize(cfg) ELSE 0) + SaizSize(cfg) + SaioSize + SencSize(cfg) ELSE 0
TrafSize(cfg) == 8 + TfhdSize(cfg) + TfdtSize(cfg) + TrunSize(cfg) + EncPart(cfg)
MoofSize(cfg) == 8 + MfhdSize + TrafSize(cfg)

\* ---- positions in the served byte stream ------------------------------------------------
MoofPos(cfg) == SumSeq(cfg.emsg, Len(cfg.emsg))
TrafPos(cfg) == MoofPos(cfg) + 8 + MfhdSize
PayloadStart(cfg) == MoofPos(cfg) + MoofSize(cfg) + 8
SencPos(cfg) == TrafPos(cfg) + 8 + TfhdSize(cfg) + TfdtSize(cfg) + TrunSize(cfg)
                 + (IF cfg.piff THEN PiffSize(cfg) ELSE 0) + SaizSize(cfg) + SaioSize
SencFirstSample(cfg) == SencPos(cfg) + 16

\* ---- the stored segment (before the edits): no emsg, stored tfdt, no PIFF -----------------
StoredCfg(cfg) == [cfg EXCEPT !.emsg = <<>>, !.piff = FALSE, !.big = FALSE,
                              !.tfdt0 = IF cfg.tfdt0 = "absent" THEN "absent" ELSE cfg.tfdt0]
StoredTfdtSize(cfg) == IF cfg.tfdt0 = "absent" THEN 0 ELSE IF cfg.tfdt0 = "v1" THEN 20 ELSE 16
StoredSencFirst(cfg) == 8 + MfhdSize + 8 + TfhdSize(cfg) + StoredTfdtSize(cfg) + TrunSize(cfg) + SaizSize(cfg) + SaioSize + 16
StoredPayloadStart(cfg) == 8 + MfhdSize + 8 + TfhdSize(cfg) + StoredTfdtSize(cfg) + TrunSize(cfg)
                           + (IF Encrypted(cfg) THEN SaizSize(cfg) + SaioSize + SencSize(cfg) ELSE 0) + 8

\* ---- implementation level: what the handler resets and what the encoder writes ---------------
TfdtInserted(cfg) == cfg.tfdt0 = "absent"
TrafModified(cfg) == IF Encrypted(cfg) THEN cfg.piff ELSE TfdtInserted(cfg)     \* overwritten for encrypted media
MoofModified(cfg) == TfdtInserted(cfg) \/ Len(cfg.emsg) > 0 \/ (Encrypted(cfg) /\ TrafModified(cfg))
\* base data offset as written / as used by the fix-ups
ImplBase(cfg) == IF cfg.explicitBase /\ ~MoofModified(cfg) THEN 0 ELSE MoofPos(cfg)
\* post_encode of trun: data_offset = mdat_sample_start - tfhd.base_data_offset
ImplTrunOffset(cfg) == PayloadStart(cfg) - ImplBase(cfg)
\* post_encode of saio: rewritten unless the saio bug-compatibility option is set
ImplSaioOffset(cfg) ==
    IF cfg.bugSaio /\ ~TrafModified(cfg) THEN StoredSencFirst(cfg) - 0
    ELSE IF cfg.bugSaio THEN StoredSencFirst(cfg)          \* offsets = None: computed from the stale senc position, not fixed
    ELSE SencFirstSample(cfg) - ImplBase(cfg)
\* the base a reader resolves offsets against
ReaderBase(cfg) == IF cfg.explicitBase THEN ImplBase(cfg) ELSE MoofPos(cfg)

\* ---- property level on an observation (projection of the served bytes) ------------------------
\* obs = [wf, trun_target, payload_start, sizes_ok, payload_ok, has_senc, saio_target, senc_first, senc_n_ok]
C03_WellFormed(obs) == obs.wf = 1
C03_TrunPointsAtPayload(obs) == obs.trun_target = obs.payload_start
C03_SampleSizesSum(obs) == obs.sizes_ok = 1
C03_PayloadIdentical(obs) == obs.payload_ok = 1
C03_SaioPointsAtSenc(obs, bugSaio) == (obs.has_senc = 1 /\ ~bugSaio) => obs.saio_target = obs.senc_first
C03_SencCountEqTrun(obs) == obs.has_senc = 1 => obs.senc_n_ok = 1

ImplObs(cfg) ==
    [wf |-> 1, trun_target |-> ReaderBase(cfg) + ImplTrunOffset(cfg), payload_start |-> PayloadStart(cfg), sizes_ok |-> 1,
     payload_ok |-> 1, has_senc |-> IF Encrypted(cfg) THEN 1 ELSE 0,
     saio_target |-> ReaderBase(cfg) + ImplSaioOffset(cfg), senc_first |-> SencFirstSample(cfg), senc_n_ok |-> 1]
=============================================================================
