SPECIFICATION Spec
CONSTANTS
  MaxFragments = 2
  ExtendKinds <- CodeKinds
  Loose = TRUE
  EMIT = FALSE
INVARIANT InitOk
INVARIANT OneFragment
INVARIANT AllIndexed
CHECK_DEADLOCK FALSE
