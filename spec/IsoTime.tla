------------------------------- MODULE IsoTime -------------------------------
(***************************************************************************)
(* C19 - ISO-8601 time text is faithful to the value it encodes.           *)
(* Durations are [s, u] (whole seconds, microseconds 0..999999); instants  *)
(* [d, s, u] (Prelude).  Rendered text is tokenised by the projection into *)
(* integer fields; all numeric reasoning happens here.                     *)
(*   duration text fields: [h, m, s, ms, fracdigits, lex]                  *)
(*      ms = the fraction read as milliseconds (".1" -> 100), fracdigits   *)
(*      its number of digits, lex = 1 iff the text matches xs:duration     *)
(***************************************************************************)
EXTENDS Prelude, IsoDuration

\* duration rounding, fields and clauses: module IsoDuration (shared with the unbounded Apalache check)

\* date-time: text fields [y, mo, d, h, mi, s, us, off] (off = UTC offset in minutes)
FieldsInstant(f) ==       \* the UTC instant the text denotes
    LET local == Inst(DaysFromCivil(f.y, f.mo, f.d), f.h * 3600 + f.mi * 60 + f.s, f.us)
    IN  AddSec(local, -(f.off * 60))
C19_DateTimeTextValue(inst, off, f) ==
    /\ f.lex = 1 /\ f.mo \in 1..12 /\ f.d \in 1..31 /\ f.h \in 0..23 /\ f.mi \in 0..59 /\ f.s \in 0..59
    /\ FieldsInstant(f) = inst /\ f.off = off
C19_DateTimeRoundTrip(inst, off, parsedInst, parsedOff) == parsedInst = inst /\ parsedOff = off

\* ---- timecodes --------------------------------------------------------------------
\* floor(r * 10^6 / ts) for 0 <= r < ts <= 10^7, by long division in base 100
MulDiv6(r, ts) ==
    LET d1 == (r * 100) \div ts   r1 == (r * 100) % ts
        d2 == (r1 * 100) \div ts  r2 == (r1 * 100) % ts
        d3 == (r2 * 100) \div ts
    IN  d1 * 10000 + d2 * 100 + d3
\* timecode_to_timedelta: floor(tc * 10^6 / ts) microseconds, as [s, u]
RefTcToDur(tc, ts) == [s |-> tc \div ts, u |-> MulDiv6(tc % ts, ts)]
\* floor(u * ts / 10^6) for u < 10^6, ts <= 10^7 without overflowing 31 bits
MulDivU(u, ts) ==
    LET u1 == u \div 1000   u0 == u % 1000
        t1 == ts \div 1000  t0 == ts % 1000
        mid == u1 * t0 + u0 * t1
        mq == mid \div 1000  mr == mid % 1000
    IN  u1 * t1 + mq + ((mr * 1000 + u0 * t0) \div 1000000)
\* timedelta_to_timecode: floor(ts * x)
RefDurToTc(x, ts) == ts * x.s + MulDivU(x.u, ts)

C19_TimecodeToDelta(tc, ts, out) == out = RefTcToDur(tc, ts)
C19_DeltaToTimecode(x, ts, out) == out = RefDurToTc(x, ts)
\* the two directions invert each other to within one tick
C19_TimecodeInverse(tc, ts, back) == back <= tc /\ tc - back <= 1
\* monotone: for tc1 <= tc2 the deltas are ordered
C19_TimecodeMonotone(d1, d2) == DurLe(d1, d2)
\* scale_timedelta(x, num, denom): the delta x counted in units of denom / num seconds (segments of denom ticks at timescale
\* num) - what the live edge is computed with; to within one unit of floor(x * num / denom), and monotone in x
RefScaleFloor(x, num, denom) == (x.s * num + MulDivU(x.u, num)) \div denom
C19_ScaleTimedelta(x, num, denom, got) == LET e == RefScaleFloor(x, num, denom) IN got - e <= 1 /\ e - got <= 1
C19_ScaleMonotone(prevGot, got) == prevGot <= got
=============================================================================
