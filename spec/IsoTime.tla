------------------------------- MODULE IsoTime -------------------------------
(***************************************************************************)
(* C19 - ISO-8601 time text is faithful to the value it encodes.           *)
(* Durations are [s, u] (whole seconds, microseconds 0..999999); instants  *)
(* [d, s, u] (Prelude).  Rendered text is tokenised by the projection into *)
(* integer fields; all numeric reasoning happens here.                     *)
(*   duration text fields: [h, m, s, ms, fracdigits, lex]                  *)
(*      ms = the fraction read as milliseconds (".1" -> 100), fracdigits   *)
(*      its number of digits, lex = 1 iff the text matches xs:duration     *)
(***************************************************************************)
EXTENDS Prelude

\* ---- reference: round half up to milliseconds with carry --------------------
RefMillis(x) == x.s * 1000 + ((x.u + 500) \div 1000)        \* only for x.s < 2 000 000
RefFields(x) ==
    LET ms0 == (x.u + 500) \div 1000
        s1  == IF ms0 >= 1000 THEN x.s + 1 ELSE x.s
        ms  == IF ms0 >= 1000 THEN ms0 - 1000 ELSE ms0
    IN  [h |-> s1 \div 3600, m |-> (s1 % 3600) \div 60, s |-> s1 % 60, ms |-> ms]

\* value of tokenised fields as [s, u]
FieldsValue(f) == [s |-> f.h * 3600 + f.m * 60 + f.s, u |-> f.ms * 1000]

\* |a - b| <= 500 us for durations [s, u]
Within500(a, b) ==
    LET ds == a.s - b.s IN
    /\ ds >= -1 /\ ds <= 1
    /\ LET diff == ds * 1000000 + (a.u - b.u) IN diff >= -500 /\ diff <= 500

\* ---- implementation level: toIsoDuration as written (after the carry fix) -------
ImplDurationFields(x) ==
    LET ms0 == (x.u + 500) \div 1000          \* int(frac * 1000 + 0.5)
        s1  == IF ms0 >= 1000 THEN x.s + 1 ELSE x.s
        ms  == IF ms0 >= 1000 THEN ms0 - 1000 ELSE ms0
    IN  [h |-> s1 \div 3600, m |-> (s1 % 3600) \div 60, s |-> s1 % 60, ms |-> ms]

\* ---- property level -------------------------------------------------------------
C19_DurationRoundTrip(x, parsed) == Within500(parsed, x)
C19_DurationTextValue(x, f) == Within500(FieldsValue(f), x)
C19_FieldsBelow60(f) == f.m >= 0 /\ f.m < 60 /\ f.s >= 0 /\ f.s < 60 /\ f.ms >= 0 /\ f.ms < 1000 /\ f.h >= 0
C19_LexicalXsDuration(f) == f.lex = 1

\* date-time: text fields [y, mo, d, h, mi, s, us, off] (off = UTC offset in minutes)
FieldsInstant(f) ==       \* the UTC instant the text denotes
    LET local == Inst(DaysFromCivil(f.y, f.mo, f.d), f.h * 3600 + f.mi * 60 + f.s, f.us)
    IN  AddSec(local, -(f.off * 60))
C19_DateTimeTextValue(inst, off, f) ==
    /\ f.lex = 1 /\ f.mo \in 1..12 /\ f.d \in 1..31 /\ f.h \in 0..23 /\ f.mi \in 0..59 /\ f.s \in 0..59
    /\ FieldsInstant(f) = inst /\ f.off = off
C19_DateTimeRoundTrip(inst, off, parsedInst, parsedOff) == parsedInst = inst /\ parsedOff = off

\* ---- timecodes --------------------------------------------------------------------
\* floor(r * 10^6 / ts) for 0 <= r < ts <= 10^7, by long division in base 100
MulDiv6(r, ts) ==
    LET d1 == (r * 100) \div ts   r1 == (r * 100) % ts
        d2 == (r1 * 100) \div ts  r2 == (r1 * 100) % ts
        d3 == (r2 * 100) \div ts
    IN  d1 * 10000 + d2 * 100 + d3
\* timecode_to_timedelta: floor(tc * 10^6 / ts) microseconds, as [s, u]
RefTcToDur(tc, ts) == [s |-> tc \div ts, u |-> MulDiv6(tc % ts, ts)]
\* floor(u * ts / 10^6) for u < 10^6, ts <= 10^7 without overflowing 31 bits
MulDivU(u, ts) ==
    LET u1 == u \div 1000   u0 == u % 1000
        t1 == ts \div 1000  t0 == ts % 1000
        mid == u1 * t0 + u0 * t1
        mq == mid \div 1000  mr == mid % 1000
    IN  u1 * t1 + mq + ((mr * 1000 + u0 * t0) \div 1000000)
\* timedelta_to_timecode: floor(ts * x)
RefDurToTc(x, ts) == ts * x.s + MulDivU(x.u, ts)

C19_TimecodeToDelta(tc, ts, out) == out = RefTcToDur(tc, ts)
C19_DeltaToTimecode(x, ts, out) == out = RefDurToTc(x, ts)
\* the two directions invert each other to within one tick
C19_TimecodeInverse(tc, ts, back) == back <= tc /\ tc - back <= 1
\* monotone: for tc1 <= tc2 the deltas are ordered
C19_TimecodeMonotone(d1, d2) == DurLe(d1, d2)
=============================================================================
