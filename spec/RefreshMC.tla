------------------------------ MODULE RefreshMC ------------------------------
(* Design level for C09: the implementation-shaped timeline of LiveWindow at e and    *)
(* at e + dl for every layout, option set and delta of the grid.                      *)
EXTENDS LiveWindowMC, Refresh
VARIABLE dl
Deltas == {1, 2, Q - 1, Q, 4 * Q - 1, 4 * Q, 4 * Q + 1, 8 * Q, 20 * Q - 1, 20 * Q, 20 * Q + 1, 33 * Q}
Init2 == /\ lay \in LayoutNames /\ e \in { x \in 1..MaxE : x % 3 = 1 \/ x % (4 * Q) \in {0, 1, 4 * Q - 1} }
         /\ o \in [depth : Depths, leeway : {0}] /\ dl \in Deltas
Next2 == UNCHANGED <<lay, e, o, dl>>
Spec2 == Init2 /\ [][Next2]_<<lay, e, o, dl>>
Strip(tl) == [i \in 1..Len(tl) |-> [t |-> tl[i].t, d |-> tl[i].d]]
Tl1 == Strip(ImplTimelineLive(Rep, Ref, e, o))
Tl2 == Strip(ImplTimelineLive(Rep, Ref, e + dl, o))
Agree == C09_CommonSegmentsAgree(Tl1, Tl2)
Forward == C09_WindowMovesForward(Tl1, Tl2)
=============================================================================
