------------------------------- MODULE TokenLife -------------------------------
(***************************************************************************)
(* X02 - the life of API tokens (beyond the 20 listed properties: login,   *)
(* access / refresh tokens, logout; dashlive/server/requesthandler/        *)
(* user_management.py, models/token.py, app.py JWT loaders).               *)
(*                                                                         *)
(* Login mints an access and a refresh token and reports an expiry for     *)
(* each (models/token.py KEY_LIFETIMES: 2 hours, 7 days).  An access token *)
(* opens the protected API until it expires; a refresh token mints new     *)
(* access tokens for its user until it expires or its user logs out; a     *)
(* token of the wrong kind is refused; a refresh request without a token   *)
(* yields a guest token.  Logout revokes the refresh tokens of the user    *)
(* (access tokens are not stored and live on until they expire - the       *)
(* model says so).  A restart prunes expired rows and changes nothing a    *)
(* client can see.  Time in seconds.                                       *)
(***************************************************************************)
EXTENDS Integers, FiniteSets, Sequences

AccessTtl == 7200
RefreshTtl == 604800
Ttl(kind) == IF kind = "access" THEN AccessTtl ELSE RefreshTtl

\* a token: [kind, user, iat]; the state: now, tok (id -> token), revoked (set of ids)
Fresh(t, now) == now < t.iat + Ttl(t.kind)
Usable(id, tok, revoked, now, kind) ==
    id \in DOMAIN tok /\ tok[id].kind = kind /\ Fresh(tok[id], now) /\ id \notin revoked

\* ---- clauses over one observed step ---------------------------------------------------------
X02_ReportedExpiry(kind, iat, reported) == reported = iat + Ttl(kind)
X02_UseAccepted(id, tok, revoked, now, accepted) == (accepted = 1) <=> Usable(id, tok, revoked, now, "access")
X02_RefreshAccepted(id, tok, revoked, now, accepted) == (accepted = 1) <=> Usable(id, tok, revoked, now, "refresh")
X02_MintedForSameUser(id, tok, accepted, mintedUser) == accepted = 1 => mintedUser = tok[id].user
X02_NoTokenIsGuest(accepted, mintedIsGuest) == accepted = 1 /\ mintedIsGuest = 1
X02_LogoutAccepted(id, tok, revoked, now, accepted) == (accepted = 1) <=> Usable(id, tok, revoked, now, "access")
\* what logout does to the state
AfterLogout(id, tok, revoked) == revoked \cup { j \in DOMAIN tok : tok[j].kind = "refresh" /\ tok[j].user = tok[id].user }
=============================================================================
