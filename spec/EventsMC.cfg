SPECIFICATION Spec
INVARIANT ImplDeliversExpected
CHECK_DEADLOCK FALSE
