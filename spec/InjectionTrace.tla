---------------------------- MODULE InjectionTrace ----------------------------
(* {tid, ev:"req", usage, client, errs:[{code,pos}], f, pos, status}  injection walks (one tid per *)
(*      (configuration, usage); clients "a"/"b" have separate cookie jars)                      *)
(* {tid, ev:"probe", status, requested, elapsed_ms, cap_ms}     robustness probes               *)
(* {tid, ev:"xlate", want, got}  time -> segment number translation in media URLs               *)
EXTENDS Injection, TLC, Json, IOUtils
TraceLog == ndJsonDeserialize(IOEnv.TRACE_FILE)
VARIABLES l, cur, nth, counters
tvars == <<l, cur, nth, counters>>
Report(c, ok, detail) ==
    IF ok THEN TRUE
    ELSE PrintT(<<"V", ToJson([line |-> l, tid |-> TraceLog[l].tid, clause |-> c, detail |-> detail])>>)
Codes == {400, 401, 403, 404, 410, 500, 501, 502, 503, 504}
Clients == {"a", "b"}
Usages == {"video", "audio", "text", "manifest"}
\* request counts and the implementation's failure counters are kept per client (cookie jar) and per usage:
\* the failure budget of one media type must not be consumed by another (mixed walks share one tid)
Zero == [c \in Clients |-> [u \in Usages |-> [p \in 0..12 |-> 0]]]
ZeroC == [c \in Clients |-> [u \in Usages |-> [k \in Codes |-> 0]]]
Step(t) ==
    /\ cur' = t.tid
    /\ IF t.ev = "req" THEN
         LET n0 == IF t.tid # cur THEN Zero ELSE nth
             c0 == IF t.tid # cur THEN ZeroC ELSE counters
             n  == n0[t.client][t.usage][t.pos] + 1
             m  == ImplRequest(t.errs, t.pos, t.f, c0[t.client][t.usage])
         IN
         /\ Report("C16_OnlyAddressed", C16_OnlyAddressed(t.errs, t.pos, t.status), [pos |-> t.pos, status |-> t.status])
         /\ Report("C16_CodeAsAsked", C16_CodeAsAsked(t.errs, t.pos, t.status), [pos |-> t.pos, status |-> t.status])
         /\ Report("C16_ConfiguredTimes", C16_ConfiguredTimes(t.errs, t.pos, t.f, n, t.status),
                   [pos |-> t.pos, status |-> t.status, nth |-> n, f |-> t.f,
                    same_code_twice |-> IF \E i, j \in 1..Len(t.errs) : i # j /\ t.errs[i].code = t.errs[j].code THEN 1 ELSE 0])
         /\ Report("C16_No5xxUnlessRequested", C16_No5xxUnlessRequested(t.errs, t.pos, t.status),
                   [pos |-> t.pos, status |-> t.status, nth |-> n])
         /\ Report("DRIFT_injection", m.status = t.status, [model |-> m.status, real |-> t.status])
         /\ nth' = [n0 EXCEPT ![t.client][t.usage][t.pos] = n]
         /\ counters' = [c0 EXCEPT ![t.client][t.usage] = m.counters]
       ELSE IF t.ev = "probe" THEN
         /\ Report("C16_No5xxUnlessRequested", t.status < 500 \/ (t.requested # 0 /\ t.status = t.requested), [status |-> t.status])
         /\ Report("C16_Terminates", t.elapsed_ms <= t.cap_ms, [ms |-> t.elapsed_ms])
         /\ UNCHANGED <<nth, counters>>
       ELSE IF t.ev = "xlate" THEN
         /\ Report("C16_TimesTranslateToNumbers", t.want = t.got, [want |-> t.want, got |-> t.got])
         /\ UNCHANGED <<nth, counters>>
       ELSE UNCHANGED <<nth, counters>>
TraceInit == l = 1 /\ cur = 0 /\ nth = Zero /\ counters = ZeroC
TraceNext == l <= Len(TraceLog) /\ Step(TraceLog[l]) /\ l' = l + 1
TraceSpec == TraceInit /\ [][TraceNext]_tvars
TraceAccepted == \/ TLCGet("stats").diameter - 1 = Len(TraceLog)
                 \/ Print(<<"TRACE_REJECTED", TLCGet("stats").diameter - 1, Len(TraceLog)>>, FALSE)
=============================================================================
