----------------------------- MODULE HttpRangeMC -----------------------------
(* Exhaustive small scope: L in 1..6, every integer -0..8 in every position.     *)
(* Checks that the outcome classes of Rfc7233 are total and that the             *)
(* implementation-shaped model satisfies every clause; emits the table for the   *)
(* spec -> code replay on RequestHandlerBase.get_http_range.                      *)
EXTENDS HttpRange, TLC, Json
CONSTANT EMIT
VARIABLES h, L
vars == <<h, L>>
Ints == 0..8
Headers ==
    {[kind |-> "absent", a |-> 0, b |-> 0, n |-> 0], [kind |-> "other", a |-> 0, b |-> 0, n |-> 0]}
    \cup {[kind |-> "single", a |-> x, b |-> y, n |-> 0] : x \in Ints, y \in Ints}
    \cup {[kind |-> "from", a |-> x, b |-> 0, n |-> 0] : x \in Ints}
    \cup {[kind |-> "suffix", a |-> 0, b |-> 0, n |-> x] : x \in Ints}
Init == h \in Headers /\ L \in 1..6
Next == UNCHANGED vars
Spec == Init /\ [][Next]_vars
Total == Rfc7233(h, L).class \in {"sat", "unsat", "nonsingle", "full"}
SatInside == Rfc7233(h, L).class = "sat" => (0 <= Rfc7233(h, L).a /\ Rfc7233(h, L).a <= Rfc7233(h, L).b /\ Rfc7233(h, L).b < L)
ImplSatisfies == AllClauses(h, L, ImplRange(h, L), 0)
Emit == EMIT => PrintT(<<"S", ToJson([h |-> h, L |-> L, exp |-> ImplRange(h, L), rfc |-> Rfc7233(h, L)])>>)
=============================================================================
