SPECIFICATION Spec
CONSTANTS
  EMIT = TRUE
  MaxTokens = 2
  MaxRestarts = 1
INVARIANT AtMostOnceOrKnown
INVARIANT EmitEdges
CONSTRAINT Constraint
CHECK_DEADLOCK FALSE
