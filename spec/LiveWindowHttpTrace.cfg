SPECIFICATION TraceSpec
CONSTANTS
  Q = 1000000
POSTCONDITION TraceAccepted
CHECK_DEADLOCK FALSE
