---------------------------- MODULE HttpRangeTrace ----------------------------
(* {tid, layer, h:{kind,a,b,n}, L, mandatory, raw, r:{status,cr,first,last,clen,blen,slice_ok,full_ok}} *)
EXTENDS HttpRange, TLC, Json, IOUtils, Sequences
TraceLog == ndJsonDeserialize(IOEnv.TRACE_FILE)
VARIABLE l
Report(c, ok) == IF ok THEN TRUE ELSE PrintT(<<"V", ToJson([line |-> l, tid |-> TraceLog[l].tid, clause |-> c])>>)
Check(t) ==
    /\ Report("C13_SatisfiableIs206WithExactSlice", C13_SatisfiableIs206WithExactSlice(t.h, t.L, t.r))
    /\ Report("C13_SuffixLongerThanResourceIsWhole", C13_SuffixLongerThanResourceIsWhole(t.h, t.L, t.r))
    /\ Report("C13_Unsatisfiable416StarLength", C13_Unsatisfiable416StarLength(t.h, t.L, t.r))
    /\ Report("C13_NonSingleIs400OrConsistent", C13_NonSingleIs400OrConsistent(t.h, t.L, t.r))
    /\ Report("C13_AbsentIsFullOr400WhereMandatory", C13_AbsentIsFullOr400WhereMandatory(t.h, t.L, t.r, t.mandatory))
    /\ Report("C13_Never5xx", C13_Never5xx(t.r))
    /\ (t.layer = "pure" => Report("DRIFT_range", LET m == ImplRange(t.h, t.L) IN
            m.status = t.r.status /\ m.cr = t.r.cr /\ (m.status = 206 => (m.first = t.r.first /\ m.last = t.r.last))))
TraceInit == l = 1
TraceNext == l <= Len(TraceLog) /\ Check(TraceLog[l]) /\ l' = l + 1
TraceSpec == TraceInit /\ [][TraceNext]_l
TraceAccepted == \/ TLCGet("stats").diameter - 1 = Len(TraceLog)
                 \/ Print(<<"TRACE_REJECTED", TLCGet("stats").diameter - 1, Len(TraceLog)>>, FALSE)
=============================================================================
