-------------------------- MODULE ValidatorFaultsMC --------------------------
EXTENDS ValidatorFaults, TLC, Json
(* emits the abstract session grid (configuration class x fault family x occurrence) that the
   harness instantiates with concrete templates / option vectors / patchers *)
EmitCase ==
    (phase = "idle") =>
        PrintT(<<"CASE", ToJson([live |-> cfg.live, encrypted |-> cfg.encrypted, timeline |-> cfg.timeline,
                                 patch |-> cfg.patch, family |-> fault.family, nth |-> fault.nth])>>)
(* reachability witnesses: the negations must be violated somewhere (vacuity guards, run separately) *)
SomeAppliedDone == ~(phase = "done" /\ applied /\ reported)
SomeCleanDone == ~(phase = "done" /\ ~applied /\ ~reported /\ fault.family = "none")
SomeUnappliedFault == ~(phase = "done" /\ ~applied /\ fault.family # "none")
=============================================================================
