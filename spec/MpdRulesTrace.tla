----------------------------- MODULE MpdRulesTrace -----------------------------
(* {ev:"doc", wf, tree}   {ev:"pair", wf, sk_hostile, sk_benign, found}   {ev:"broken", rule, tree} (vacuity guard) *)
EXTENDS MpdRules, TLC, Json, IOUtils
TraceLog == ndJsonDeserialize(IOEnv.TRACE_FILE)
VARIABLE l
Report(c, ok, detail) ==
    IF ok THEN TRUE
    ELSE PrintT(<<"V", ToJson([line |-> l, tid |-> TraceLog[l].tid, clause |-> c, detail |-> detail])>>)
Check(t) ==
    IF t.ev = "doc" THEN
        /\ Report("C05_WellFormed", t.wf = 1, 0)
        /\ (t.wf = 1 =>
              /\ Report("C05_RequiredAttrs", C05_RequiredAttrs(t.tree), MissingRequired(t.tree))
              /\ Report("C05_LexValid", C05_LexValid(t.tree), LexOffenders(t.tree))
              /\ Report("C05_UniqueIds", C05_UniqueIds(t.tree), 0)
              /\ Report("C05_NoEmptyAdaptationSet", C05_NoEmptyAdaptationSet(t.tree), 0)
              /\ Report("C05_TemplateIdentifiers", C05_TemplateIdentifiers(t.tree), 0))
    ELSE IF t.ev = "pair" THEN
        /\ Report("C05_WellFormed", t.wf = 1, 0)
        /\ (t.wf = 1 => Report("C05_SkeletonInvariant", C05_SkeletonInvariant(t.sk_hostile, t.sk_benign, t.found), [found |-> t.found]))
    ELSE IF t.ev = "broken" THEN
        \* each rule must reject its deliberately broken example (a rule that accepts it is vacuous)
        Report("VACUITY_rule_accepts_broken_tree",
               CASE t.rule = "RequiredAttrs" -> ~C05_RequiredAttrs(t.tree)
                 [] t.rule = "LexValid" -> ~C05_LexValid(t.tree)
                 [] t.rule = "UniqueIds" -> ~C05_UniqueIds(t.tree)
                 [] t.rule = "NoEmptyAdaptationSet" -> ~C05_NoEmptyAdaptationSet(t.tree)
                 [] t.rule = "TemplateIdentifiers" -> ~C05_TemplateIdentifiers(t.tree)
                 [] OTHER -> FALSE, t.rule)
    ELSE TRUE
TraceInit == l = 1
TraceNext == l <= Len(TraceLog) /\ Check(TraceLog[l]) /\ l' = l + 1
TraceSpec == TraceInit /\ [][TraceNext]_l
TraceAccepted == \/ TLCGet("stats").diameter - 1 = Len(TraceLog)
                 \/ Print(<<"TRACE_REJECTED", TLCGet("stats").diameter - 1, Len(TraceLog)>>, FALSE)
=============================================================================
