------------------------------- MODULE Refresh -------------------------------
(***************************************************************************)
(* C09 - successive manifests and MPD patches evolve consistently.         *)
(* Clauses over the projections of two manifests fetched with the same     *)
(* options at T1 < T2: expanded SegmentTimelines tl1, tl2 (sequences of    *)
(* [t, d]) of one Representation, publishTime / availabilityStartTime as   *)
(* instants [d, s, u] (Prelude).                                           *)
(***************************************************************************)
EXTENDS Prelude

End(tl) == tl[Len(tl)].t + tl[Len(tl)].d
Starts(tl) == { tl[i].t : i \in 1..Len(tl) }

\* every segment both manifests list has the same duration, and the two lists describe one
\* grid: an entry of the later list that starts inside the span of the earlier one is an entry
\* of the earlier one (and vice versa)
C09_CommonSegmentsAgree(tl1, tl2) ==
    (Len(tl1) > 0 /\ Len(tl2) > 0) =>
        /\ \A i \in 1..Len(tl1), j \in 1..Len(tl2) : tl1[i].t = tl2[j].t => tl1[i].d = tl2[j].d
        /\ \A j \in 1..Len(tl2) : (tl1[1].t <= tl2[j].t /\ tl2[j].t < End(tl1)) => tl2[j].t \in Starts(tl1)
        /\ \A i \in 1..Len(tl1) : (tl2[1].t <= tl1[i].t /\ tl1[i].t < End(tl2)) => tl1[i].t \in Starts(tl2)

C09_WindowMovesForward(tl1, tl2) ==
    (Len(tl1) > 0 /\ Len(tl2) > 0) => (tl2[1].t >= tl1[1].t /\ End(tl2) >= End(tl1))

C09_PublishAstMonotone(pub1, pub2, ast1, ast2) == InstLe(pub1, pub2) /\ InstLe(ast1, ast2)

\* patch header: mpdId and originalPublishTime (flags computed on strings / instants)
C09_PatchHeader(idEq, origPub, pub1) == idEq = 1 /\ origPub = pub1
\* applying the patch to the T1 document gives the T2 document's publishTime, PatchLocation and timelines
SameTimeline(a, b) == Len(a) = Len(b) /\ \A i \in 1..Len(a) : a[i].t = b[i].t /\ a[i].d = b[i].d
C09_PatchEqualsFull(pubPatched, pubFull, locEq, tlsPatched, tlsFull) ==
    /\ pubPatched = pubFull /\ locEq = 1
    /\ Len(tlsPatched) = Len(tlsFull)
    /\ \A i \in 1..Len(tlsFull) : i <= Len(tlsPatched) => SameTimeline(tlsPatched[i], tlsFull[i])
=============================================================================
