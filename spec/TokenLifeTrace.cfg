SPECIFICATION TraceSpec
POSTCONDITION TraceAccepted
CHECK_DEADLOCK FALSE
