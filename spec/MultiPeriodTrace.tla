--------------------------- MODULE MultiPeriodTrace ---------------------------
(* {ev:"mpd", mode, listed:[{idx,loop,start,dur}] (1/Q s, Q = 1000: milliseconds, rebased), mpd_dur, e, fta, ids_unique}   *)
(* {ev:"rep", ts, durs, sn, D, offset (source offset of the period in ticks), nlast (numbers the period admits),           *)
(*   init, keys:[n], serve:[{status,tfdt,dur,mod,mods,payload_ok,wf}], beyond:{n,status}}                                   *)
EXTENDS MultiPeriod, TLC, Json, IOUtils
TraceLog == ndJsonDeserialize(IOEnv.TRACE_FILE)
VARIABLE l
Report(c, ok, detail) ==
    IF ok THEN TRUE
    ELSE PrintT(<<"V", ToJson([line |-> l, tid |-> TraceLog[l].tid, clause |-> c, detail |-> detail])>>)
CheckMpd(t) ==
    /\ Report("C12_Contiguous", C12_Contiguous(t.listed), t.listed)
    /\ Report("C12_IdsUniquePerRepetition", t.ids_unique = 1, 0)
    /\ (t.mode = "vod" => Report("C12_VodSumsToMpdDuration", C12_VodSumsToMpdDuration(t.listed, t.mpd_dur),
                                 [sum |-> SumDur(t.listed, Len(t.listed)), mpd |-> t.mpd_dur]))
    /\ (t.mode = "live" => Report("C12_LiveCoversWindow", C12_LiveCoversWindow(t.listed, t.e, t.fta),
                                  [e |-> t.e, fta |-> t.fta, n |-> Len(t.listed)]))
CheckRep(t) ==
    LET rep == [ts |-> t.ts, durs |-> t.durs, sn |-> t.sn, segdur |-> t.D, st |-> 0]
        R(i) == [status |-> t.serve[i].status, tfdt |-> t.serve[i].tfdt, dur |-> t.serve[i].dur, mod |-> t.serve[i].mod]
    IN
    /\ Report("C12_InitAndNumbersRetrievable", t.init = 200, [init |-> t.init])
    /\ \A i \in 1..Len(t.keys) :
         /\ (t.keys[i] <= t.nlast =>
                Report("C12_InitAndNumbersRetrievable", t.serve[i].status = 200, [n |-> t.keys[i], status |-> t.serve[i].status]))
         /\ (t.serve[i].status = 200 =>
                /\ Report("C12_NthFromNearestOffset",
                          /\ t.serve[i].payload_ok = 1
                          /\ \E k \in 1..Len(t.serve[i].mods) :
                                C12_NthFromNearestOffset(rep, t.offset, t.keys[i], [R(i) EXCEPT !.mod = t.serve[i].mods[k]]),
                          [n |-> t.keys[i], mod |-> t.serve[i].mod, offset |-> t.offset])
                /\ (i < Len(t.keys) /\ t.keys[i + 1] = t.keys[i] + 1) =>
                       Report("C12_DecodeTimesFromZeroGapless", C12_DecodeTimesFromZeroGapless(rep, t.keys[i], R(i), R(i + 1)),
                              [n |-> t.keys[i], tfdt |-> t.serve[i].tfdt, next |-> t.serve[i + 1].tfdt])
                /\ Report("C03_WellFormed", t.serve[i].wf = 1, t.keys[i]))
    /\ Report("C12_BeyondEnd404", C12_BeyondEnd404(rep, t.offset, t.beyond.n, [status |-> t.beyond.status]), t.beyond)
\* a Representation listed inside a Period is media of that Period's stream ("play the right media"): a listed file that the
\* Period's stream does not have cannot deliver any source segment
Check(t) == IF t.ev = "mpd" THEN CheckMpd(t) ELSE IF t.ev = "rep" THEN CheckRep(t)
            ELSE IF t.ev = "foreign_rep" THEN Report("C12_InitAndNumbersRetrievable", FALSE, [rep |-> t.rep, init |-> t.init])
            ELSE TRUE
TraceInit == l = 1
TraceNext == l <= Len(TraceLog) /\ Check(TraceLog[l]) /\ l' = l + 1
TraceSpec == TraceInit /\ [][TraceNext]_l
TraceAccepted == \/ TLCGet("stats").diameter - 1 = Len(TraceLog)
                 \/ Print(<<"TRACE_REJECTED", TLCGet("stats").diameter - 1, Len(TraceLog)>>, FALSE)
=============================================================================
