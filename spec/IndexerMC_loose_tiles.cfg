SPECIFICATION Spec
CONSTANTS
  MaxFragments = 2
  ExtendKinds <- CodeKinds
  Loose = TRUE
  EMIT = FALSE
INVARIANT Tiles
CHECK_DEADLOCK FALSE
