------------------------------- MODULE Options -------------------------------
(***************************************************************************)
(* C07 - options given to a manifest reach its media requests with the     *)
(* same meaning.  The registry (one record per DashOption: cgi name, usage *)
(* as a set of media types) is generated from the code at check time and   *)
(* arrives in every trace line; the set of options that influence media    *)
(* generation is fixed here.                                               *)
(*   usage : function cgi name -> sequence of "manifest"|"video"|"audio"|"text"|"time"|"html" *)
(*   man   : function cgi name -> canonical value the manifest endpoint resolved               *)
(*   med   : function cgi name -> canonical value the media endpoint obtains from the URL      *)
(***************************************************************************)
EXTENDS Integers, Sequences, FiniteSets

\* options that influence media generation (cgi names; prefixes ping__ / scte35__ cover the event schedules)
Influencing == {"start", "depth", "leeway", "drm", "drmloc", "bugs", "events", "failures", "verr", "aerr", "terr", "vcorrupt", "frames",
                "clearkey__la_url", "marlin__la_url", "playready__la_url", "playready__piff", "playready__version"}
IsEventOption(n) == Len(n) > 6 /\ (SubSeq(n, 1, 6) = "ping__" \/ (Len(n) > 8 /\ SubSeq(n, 1, 8) = "scte35__"))
Influences(n) == n \in Influencing \/ IsEventOption(n)
ToSet(s) == { s[i] : i \in 1..Len(s) }

\* property level ---------------------------------------------------------------------------------
\* every influencing option that applies to media type m has the same value on both sides
C07_Forwarded(m, names, usage, man, med) ==
    \A n \in names : (Influences(n) /\ m \in ToSet(usage[n])) => man[n] = med[n]
Mismatches(m, names, usage, man, med) == { n \in names : Influences(n) /\ m \in ToSet(usage[n]) /\ man[n] # med[n] }
\* nothing that does not apply to m appears in m's URLs
C07_NotForwarded(m, urlNames, usage, known) ==
    \A i \in 1..Len(urlNames) : urlNames[i] \in known => m \in ToSet(usage[urlNames[i]])
\* formatting a value and parsing it back is the identity
C07_CodecIdentity(v1, v2) == v1 = v2
\* where the text given has a reading of its own (a decimal integer literal for an integer option), that reading is the
\* meaning: the parsed value equals it (given = "" when the text has no independent reading), and it is what the media
\* endpoint works with
C07_CodecMeaning(given, v1) == given = "" \/ v1 = given
GivenNames(given) == { n \in DOMAIN given : given[n] # "" }
C07_GivenReachesMedia(m, usage, given, med) ==
    \A n \in GivenNames(given) : (Influences(n) /\ m \in ToSet(usage[n])) => med[n] = given[n]
GivenMismatches(m, usage, given, med) == { n \in GivenNames(given) : Influences(n) /\ m \in ToSet(usage[n]) /\ med[n] # given[n] }

\* error-injection positions given as a time of day reach the media URLs as a segment number: the meaning is kept when that
\* number is the number of the segment that contains the instant (want: computed from startNumber, timescale, duration)
C07_PositionKeepsMeaning(want, got) == want = got

\* implementation level: an option is written to the URLs of media type m iff its value differs
\* from the default and its usage mask contains m (container.py _generate_parameters_dict)
ImplForwards(m, n, usage, value, default) == value # default /\ m \in ToSet(usage[n])
=============================================================================
