SPECIFICATION Spec
CONSTANTS
  EMIT = FALSE
  MaxReq = 6
INVARIANT PropertyHolds
CHECK_DEADLOCK FALSE
