---------------------------- MODULE LiveParamsMC ----------------------------
(* Small-scope instance of LiveParams: every (instant, start, depth, mup) of a   *)
(* grid chosen on the behaviour breakpoints: first / last minutes of days that   *)
(* include month ends, a leap day, a non-leap century year, year ends; +-1 us.   *)
EXTENDS LiveParams, TLC, Json, FiniteSets

CONSTANTS Tier, EMIT

Days ==
    IF Tier = "quick"
    THEN << DaysFromCivil(2023, 12, 31), DaysFromCivil(2024, 1, 1), DaysFromCivil(2024, 2, 29),
            DaysFromCivil(2024, 3, 1), DaysFromCivil(2030, 7, 15) >>
    ELSE << DaysFromCivil(1971, 1, 1), DaysFromCivil(2023, 12, 31), DaysFromCivil(2024, 1, 1),
            DaysFromCivil(2024, 1, 2), DaysFromCivil(2024, 2, 28), DaysFromCivil(2024, 2, 29),
            DaysFromCivil(2024, 3, 1), DaysFromCivil(2024, 3, 2), DaysFromCivil(2024, 12, 31), DaysFromCivil(2025, 1, 1),
            DaysFromCivil(2030, 7, 15), DaysFromCivil(2037, 12, 31), DaysFromCivil(2100, 2, 28),
            DaysFromCivil(2100, 3, 1), DaysFromCivil(2100, 12, 31) >>
Secs == IF Tier = "quick"
        THEN << 0, 1, 59, 60, 61, 3600, 43200, 86340, 86399 >>
        ELSE << 0, 1, 7, 8, 56, 57, 59, 60, 61, 63, 64, 119, 120, 3599, 3600, 43200, 86339, 86340, 86392, 86399 >>
Micros == << 0, 1, 999999 >>

NI == Len(Days) * Len(Secs) * Len(Micros)
InstantAt(i) ==          \* i in 1..NI, increasing in time
    LET k == i - 1
        ui == k % Len(Micros)
        si == (k \div Len(Micros)) % Len(Secs)
        di == k \div (Len(Micros) * Len(Secs))
    IN  Inst(Days[di + 1], Secs[si + 1], Micros[ui + 1])

Starts == {"epoch", "today", "month", "year", "now", "x0", "x1", "x59", "x61", "x86405"}
XK(start) == CASE start = "x0" -> 0 [] start = "x1" -> 1 [] start = "x59" -> 59 [] start = "x61" -> 61
               [] start = "x86405" -> 86405 [] OTHER -> 0
MinusFive == -5
Depths == IF Tier = "quick" THEN {0, 30, 1800, MinusFive} ELSE {0, 1, 30, 1800, 100000, MinusFive}
Mups == IF Tier = "quick" THEN {Absent, -1, 4, 7} ELSE {Absent, -1, 0, 1, 4, 7, 30}
RefSegDur == 960
RefTs == 240

VARIABLES i, start, depth, mup
vars == <<i, start, depth, mup>>

\* "epoch" needs now - epoch < 2^31 seconds: instants after 2037 are not combined with it
Fits(ii, st) == st = "epoch" => InstantAt(ii).d < DaysFromCivil(2038, 1, 1)

Init == i \in 1..NI /\ start \in Starts /\ depth \in Depths /\ mup \in Mups /\ Fits(i, start)
Next == UNCHANGED vars
Spec == Init /\ [][Next]_vars

R(ii) == Impl(InstantAt(ii), start, XK(start), depth, mup, RefSegDur, RefTs)

SingleClauses == AllSingle(InstantAt(i), start, R(i))
\* Known finding C08-publish-regress: with a symbolic start the availabilityStartTime moves
\* forward by a day at 00:01:00 (or at 24 h after the start of the month / year); when the
\* update period does not divide 86400 s the quantised publishTime can step back.
Known_C08_PublishRegress(r1, r2) ==
    /\ start \in {"today", "month", "year"} /\ r1.mup > 0 /\ 86400 % r1.mup # 0
    /\ r1.ast # r2.ast
\* (explicit starts "x<k>" are defined relative to now, so two instants do not share the
\* same option value; the relational clauses are checked for symbolic starts)
Monotone ==
    (i < NI /\ Fits(i + 1, start) /\ start \in Symbolic) =>
        \/ C08_PublishMonotone(R(i), R(i + 1))
        \/ Known_C08_PublishRegress(R(i), R(i + 1))
Stable ==
    (i < NI /\ Fits(i + 1, start)) =>
        C08_SymbolicStableWithinDay(InstantAt(i), InstantAt(i + 1), start, R(i), R(i + 1))

State == [i |-> i, now |-> InstantAt(i), start |-> start, xk |-> XK(start), depth |-> depth, mup |-> mup,
          exp |-> R(i)]
Emit == EMIT => PrintT(<<"S", ToJson(State)>>)
=============================================================================
