--------------------------- MODULE PlayerSessionMC ---------------------------
EXTENDS PlayerSession, TLC
\* vacuity witnesses (must be violated)
SomeLate404 == ~(\E i \in 1..Len(log) : log[i].status = 404)
SomeSkip == ~(Len(log) >= 2 /\ \E i \in 1..(Len(log) - 1) : log[i + 1].n > log[i].n + 1)
=============================================================================
