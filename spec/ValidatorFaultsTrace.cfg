SPECIFICATION TraceSpec
CONSTANTS
  MaxLoops = 1000000
  MaxFetch = 1000000
POSTCONDITION TraceAccepted
CHECK_DEADLOCK FALSE
