SPECIFICATION TraceSpec
CONSTANTS
  MaxFragments = 3
  ExtendKinds <- CodeKinds
  Loose = TRUE
POSTCONDITION TraceAccepted
CHECK_DEADLOCK FALSE
