------------------------------- MODULE BoxTree -------------------------------
(***************************************************************************)
(* C04 - ISO-BMFF parse/encode: structure of a box tree.                   *)
(* A node is [name, size, hdr, cont, kids]: total size, header length,     *)
(* whether the box is a pure container (its payload is exactly its         *)
(* children) and the sequence of children.                                 *)
(***************************************************************************)
EXTENDS Integers, Sequences, FiniteSets

RECURSIVE SumSizes(_, _)
SumSizes(kids, k) == IF k <= 0 THEN 0 ELSE kids[k].size + SumSizes(kids, k - 1)

RECURSIVE C04_SizesNest(_)
C04_SizesNest(n) ==
    /\ n.size >= n.hdr
    /\ (n.cont = 1 => n.size = n.hdr + SumSizes(n.kids, Len(n.kids)))
    /\ (n.cont = 0 => SumSizes(n.kids, Len(n.kids)) <= n.size - n.hdr)
    /\ \A i \in 1..Len(n.kids) : C04_SizesNest(n.kids[i])

\* a forest tiles a buffer of length total
C04_TopLevelTiles(tops, total) == SumSizes(tops, Len(tops)) = total /\ \A i \in 1..Len(tops) : C04_SizesNest(tops[i])

\* ---- the edit machine (design level) -------------------------------------------------------
\* A tree of depth 2: a root container with children; each child is a leaf with a payload length
\* or a container of leaves.  Edits change payload lengths or the child lists; Encode recomputes
\* every size bottom-up (mp4.py Mp4Atom.encode back-patches the size after writing the children).
LeafSize(l) == 8 + l
EncodeLeaf(l) == [name |-> "leaf", size |-> LeafSize(l), hdr |-> 8, cont |-> 0, kids |-> <<>>]
EncodeCont(ls) == [name |-> "cont", size |-> 8 + SumSizes([i \in 1..Len(ls) |-> EncodeLeaf(ls[i])], Len(ls)), hdr |-> 8, cont |-> 1,
                   kids |-> [i \in 1..Len(ls) |-> EncodeLeaf(ls[i])]]
=============================================================================
