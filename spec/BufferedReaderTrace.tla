------------------------- MODULE BufferedReaderTrace -------------------------
(* Trace validation for C20: every line of the NDJSON trace is one call made   *)
(* on the real dashlive.utils.buffered_reader.BufferedReader (or the opening   *)
(* of a reader).  The property-level clauses of BufferedReader are evaluated   *)
(* on every line; a failing clause is reported ("V" record) and validation     *)
(* continues from the observed position (total verdicts).                      *)
(*                                                                             *)
(* line formats                                                                *)
(*  {"tid":n,"ev":"open","g":{flen,off,size,bs,maxb}}                          *)
(*  {"tid":n,"ev":"op","o":{name,n,whence},"data":[..bytes..],"big":0|1,       *)
(*   "len":k,"at":[file indices where the returned data occurs],"int":i,       *)
(*   "pos1":p}                                                                 *)
(* Short results (big=0) are logged verbatim and compared byte by byte here;   *)
(* long results (big=1) are logged as (len, at) - the projection has located   *)
(* the returned bytes in the file and the spec decides whether that is where   *)
(* they must come from.                                                        *)
EXTENDS BufferedReader, TLC, Json, IOUtils

TraceLog == ndJsonDeserialize(IOEnv.TRACE_FILE)

VARIABLES l, g, pos
tvars == <<l, g, pos>>

Report(c, ok) == IF ok THEN TRUE ELSE PrintT(<<"V", ToJson([line |-> l, tid |-> TraceLog[l].tid, clause |-> c])>>)

NoGeom == [flen |-> 0, off |-> 0, size |-> 0, bs |-> 1, maxb |-> 2]

TraceInit == l = 1 /\ g = NoGeom /\ pos = 0

TrOpen ==
    /\ TraceLog[l].ev = "open"
    /\ g' = TraceLog[l].g
    /\ pos' = TraceLog[l].pos      \* position reached by the (separately validated) path prefix
    /\ Report("TRACE_WellFormedGeometry", WellFormedGeometry(TraceLog[l].g))

\* does the observation say "the returned bytes are file[from .. from+n)" ?
ObservedIs(t, from, n) ==
    IF t.big = 0
    THEN t.data = FileBytes(from, from + n)
    ELSE t.len = n /\ (n = 0 \/ \E i \in 1..Len(t.at) : t.at[i] = from)

ObservedHasPrefix(t, from, n) ==
    IF t.big = 0
    THEN IsPrefix(FileBytes(from, from + n), t.data)
    ELSE t.len >= n /\ (n = 0 \/ \E i \in 1..Len(t.at) : t.at[i] = from)

TrOp ==
    /\ TraceLog[l].ev = "op"
    /\ LET t == TraceLog[l]  o == t.o
           want == Len(SpecBytes(g, pos, o))     \* number of bytes the property level demands
       IN
       /\ Report("C20_NoException", t.exc = 0)
       /\ Report("C20_ReadReturnsWindowBytes",
                 o.name = "read" => ObservedIs(t, g.off + pos, want))
       /\ Report("C20_NeverOutsideWindow",
                 o.name = "read" => t.len <= Max(0, Remaining(g, pos)))
       /\ Report("C20_PosClamped",
                 /\ t.pos1 >= 0 /\ t.pos1 <= g.size
                 /\ t.pos1 = SpecPos(g, pos, o)
                 /\ (o.name \in {"seek", "tell"} => t.int = SpecInt(g, pos, o)))
       /\ Report("C20_PeekAtLeast",
                 o.name = "peek" => ObservedHasPrefix(t, g.off + pos, want) /\ t.pos1 = pos)
       /\ pos' = t.pos1          \* resynchronise on the observation
    /\ UNCHANGED g

TraceNext == l <= Len(TraceLog) /\ (TrOpen \/ TrOp) /\ l' = l + 1
TraceSpec == TraceInit /\ [][TraceNext]_tvars

TraceAccepted ==
    \/ TLCGet("stats").diameter - 1 = Len(TraceLog)
    \/ Print(<<"TRACE_REJECTED", TLCGet("stats").diameter - 1, Len(TraceLog)>>, FALSE)
=============================================================================
