SPECIFICATION Spec
INVARIANT EncodedNests
CHECK_DEADLOCK FALSE
