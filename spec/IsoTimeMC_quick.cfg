SPECIFICATION Spec
CONSTANT Tier = "quick"
INVARIANT RefOk
INVARIANT ImplOk
INVARIANT TcOk
CHECK_DEADLOCK FALSE
