SPECIFICATION Spec
CONSTANTS
  SegTicks = 2
  Depth = 2
  MaxT = 9
INVARIANT FetchAtManifestTimeIs200
INVARIANT FetchSoonAfterIs200
INVARIANT NeverEarly
INVARIANT InOrder
INVARIANT WindowForward
PROPERTY Progress
CHECK_DEADLOCK FALSE
