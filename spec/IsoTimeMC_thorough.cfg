SPECIFICATION Spec
CONSTANT Tier = "thorough"
INVARIANT RefOk
INVARIANT ImplOk
INVARIANT TcOk
CHECK_DEADLOCK FALSE
