SPECIFICATION Spec
INVARIANT ImplSatisfies
CHECK_DEADLOCK FALSE
