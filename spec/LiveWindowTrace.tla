--------------------------- MODULE LiveWindowTrace ---------------------------
(* Trace validation for the pure-layer replay of LiveWindowMC states on the     *)
(* real dashlive.mpeg.dash code.  One line per (layout, options, elapsed) state: *)
(*  {"tid","lay","e","o":{depth,leeway},"tsbd","first","last",                  *)
(*   "timeline":[{t,d}], "nkeys":[n..], "nserve":[{status,mod,origin,seq}],      *)
(*   "tserve":[{status,mod,origin,seq}]}          (tserve[i] answers timeline[i]) *)
(* Every property-level clause is evaluated on the observed values; "DRIFT_*"    *)
(* records say that the implementation-shaped model and the code disagree on an  *)
(* output (not a violation by itself).                                           *)
EXTENDS LiveWindowMC, IOUtils

TraceLog == ndJsonDeserialize(IOEnv.TRACE_FILE)
VARIABLE l

Report(c, ok, detail) ==
    IF ok THEN TRUE
    ELSE PrintT(<<"V", ToJson([line |-> l, tid |-> TraceLog[l].tid, clause |-> c, detail |-> detail])>>)

Obs(rep, s) == IF s.status = 200 THEN Found(rep, s.mod, s.origin, s.seq) ELSE NotFound

Check(t) ==
    LET rep == Layouts[t.lay].rep
        ref == Layouts[t.lay].ref
        ef  == (t.e * rep.ts) \div Q
        ec  == ((t.e * rep.ts) + Q - 1) \div Q
        tl  == t.timeline
        mN  == [ts |-> rep.ts, sn |-> rep.sn, D |-> rep.segdur, tsbd |-> t.tsbd, timeline |-> <<>>]
        mT  == [ts |-> rep.ts, sn |-> rep.sn, D |-> rep.segdur, tsbd |-> t.tsbd, timeline |-> tl]
        advN == AdvertisedNumbers(mN, ef, ec)
        advT == AdvertisedTimes(mT, ef)
        idx(n) == CHOOSE i \in 1..Len(t.nkeys) : t.nkeys[i] = n
        have(n) == \E i \in 1..Len(t.nkeys) : t.nkeys[i] = n
    IN
    /\ \A n \in advN :
          /\ Report("TRACE_KeyCovered", have(n), n)
          /\ have(n) =>
               /\ Report("C01_AdvertisedRetrievable", t.nserve[idx(n)].status = 200, [by |-> "number", key |-> n])
               /\ Report("C02_NumberExact", C02_NumberExact(rep, ref, mN, n, Obs(rep, t.nserve[idx(n)])), n)
               /\ Report("C02_SourceAligned", C02_SourceAligned(rep, ref, Obs(rep, t.nserve[idx(n)])), n)
    /\ \A i \in advT :
          Report("C01_AdvertisedRetrievable", t.tserve[i].status = 200, [by |-> "time", key |-> tl[i].t])
    /\ \A i \in 1..Len(tl) :
          /\ Report("C02_TimeExact", C02_TimeExact(tl[i], Obs(rep, t.tserve[i])),
                    [t |-> tl[i].t, d |-> tl[i].d, tfdt |-> Obs(rep, t.tserve[i]).tfdt,
                     dur |-> Obs(rep, t.tserve[i]).dur, mod |-> t.tserve[i].mod])
          /\ Report("C02_SourceAligned", C02_SourceAligned(rep, ref, Obs(rep, t.tserve[i])), tl[i].t)
    /\ Report("C02_Gapless", C02_Gapless(tl), 0)
    \* ---- drift (model vs code) -------------------------------------------------
    /\ Report("DRIFT_tsbd", t.tsbd = ImplTsbd(t.e, t.o), 0)
    /\ Report("DRIFT_firstlast", t.first = ImplFirst(rep, t.e, t.o) /\ t.last = ImplLast(rep, t.e), 0)
    /\ Report("DRIFT_timeline",
              LET mtl == ImplTimelineLive(rep, ref, t.e, t.o) IN
              Len(mtl) = Len(tl) /\ \A i \in 1..Len(tl) : tl[i].t = mtl[i].t /\ tl[i].d = mtl[i].d, 0)
    /\ Report("DRIFT_serve",
              /\ \A i \in 1..Len(t.nkeys) :
                    Obs(rep, t.nserve[i]) = ImplServeLive(rep, ref, t.e, t.o, "number", t.nkeys[i])
              /\ \A i \in 1..Len(tl) :
                    Obs(rep, t.tserve[i]) = ImplServeLive(rep, ref, t.e, t.o, "time", tl[i].t), 0)

TraceInit == l = 1 /\ lay = "V" /\ e = 1 /\ o = [depth |-> 5, leeway |-> 0]
TraceNext == l <= Len(TraceLog) /\ Check(TraceLog[l]) /\ l' = l + 1 /\ UNCHANGED <<lay, e, o>>
TraceSpec == TraceInit /\ [][TraceNext]_<<l, lay, e, o>>
TraceAccepted ==
    \/ TLCGet("stats").diameter - 1 = Len(TraceLog)
    \/ Print(<<"TRACE_REJECTED", TLCGet("stats").diameter - 1, Len(TraceLog)>>, FALSE)
=============================================================================
