------------------------------- MODULE Prelude -------------------------------
(* Shared integer helpers: min/max, civil calendar (proleptic Gregorian, days    *)
(* since 1970-01-01, Howard Hinnant's algorithms in integer arithmetic),         *)
(* instants as [d, s, u] (day, second of day, microsecond) and durations as      *)
(* [s, u] with 0 <= u < 1000000 - TLC integers are 32 bits wide, microseconds    *)
(* since the epoch do not fit.                                                   *)
EXTENDS Integers, Sequences

PMin(a, b) == IF a < b THEN a ELSE b
PMax(a, b) == IF a > b THEN a ELSE b

DaysFromCivil(y0, m, d) ==
    LET y   == IF m <= 2 THEN y0 - 1 ELSE y0
        era == y \div 400
        yoe == y - era * 400
        mp  == IF m > 2 THEN m - 3 ELSE m + 9
        doy == ((153 * mp + 2) \div 5) + d - 1
        doe == yoe * 365 + (yoe \div 4) - (yoe \div 100) + doy
    IN  era * 146097 + doe - 719468

CivilFromDays(z0) ==
    LET z   == z0 + 719468
        era == z \div 146097
        doe == z - era * 146097
        yoe == (doe - (doe \div 1460) + (doe \div 36524) - (doe \div 146096)) \div 365
        doy == doe - (365 * yoe + (yoe \div 4) - (yoe \div 100))
        mp  == (5 * doy + 2) \div 153
        d   == doy - ((153 * mp + 2) \div 5) + 1
        m   == IF mp < 10 THEN mp + 3 ELSE mp - 9
        y   == yoe + era * 400 + (IF m <= 2 THEN 1 ELSE 0)
    IN  [y |-> y, m |-> m, d |-> d]

\* ---- instants [d, s, u] --------------------------------------------------------
Inst(d, s, u) == [d |-> d, s |-> s, u |-> u]
\* @type: ({d: Int, s: Int, u: Int}, {d: Int, s: Int, u: Int}) => Bool;
InstLe(a, b) == \/ a.d < b.d
                \/ a.d = b.d /\ a.s < b.s
                \/ a.d = b.d /\ a.s = b.s /\ a.u <= b.u
\* @type: ({d: Int, s: Int, u: Int}, {d: Int, s: Int, u: Int}) => Bool;
InstLt(a, b) == InstLe(a, b) /\ a # b
\* @type: ({d: Int, s: Int, u: Int}) => {d: Int, s: Int, u: Int};
FloorSec(a) == [a EXCEPT !.u = 0]
\* a minus k whole seconds (k >= 0 or < 0), normalised
\* @type: ({d: Int, s: Int, u: Int}, Int) => {d: Int, s: Int, u: Int};
AddSec(a, k) ==
    LET t == a.s + k
        dd == t \div 86400
    IN  [d |-> a.d + dd, s |-> t - dd * 86400, u |-> a.u]
\* difference b - a as a duration [s, u]; requires |b - a| < ~68 years
\* @type: ({d: Int, s: Int, u: Int}, {d: Int, s: Int, u: Int}) => {s: Int, u: Int};
Diff(b, a) ==
    LET secs == (b.d - a.d) * 86400 + (b.s - a.s)
        us   == b.u - a.u
    IN  IF us < 0 THEN [s |-> secs - 1, u |-> us + 1000000] ELSE [s |-> secs, u |-> us]
\* @type: ({s: Int, u: Int}, {s: Int, u: Int}) => Bool;
DurLe(x, y) == x.s < y.s \/ (x.s = y.s /\ x.u <= y.u)
\* @type: ({s: Int, u: Int}, {s: Int, u: Int}) => Bool;
DurLt(x, y) == x.s < y.s \/ (x.s = y.s /\ x.u < y.u)
Dur(s, u) == [s |-> s, u |-> u]
\* @type: ({s: Int, u: Int}) => Bool;
DurNonNeg(x) == x.s >= 0
=============================================================================
