------------------------------ MODULE IsoTimeMC ------------------------------
(* (A) the reference rounding is itself checked (value within 500 us, fields    *)
(* below 60) for every microsecond fraction in scope x representative whole-    *)
(* second parts; the implementation-shaped model must agree with it.            *)
EXTENDS IsoTime, TLC, Json
CONSTANTS Tier
Secs == {0, 1, 59, 60, 3599, 3600, 86399, 86400, 360000}
Micros == IF Tier = "quick"
          THEN { k * 1000 + e : k \in 0..999, e \in {0, 1, 499, 500, 501, 999} } \cap (0..999999)
          ELSE 0..999999
VARIABLES s, u
vars == <<s, u>>
Init == s \in Secs /\ u \in Micros
Next == UNCHANGED vars
Spec == Init /\ [][Next]_vars
X == [s |-> s, u |-> u]
RefOk == /\ Within500(FieldsValue(RefFields(X)), X)
         /\ C19_FieldsBelow60([RefFields(X) EXCEPT !.h = RefFields(X).h] @@ [lex |-> 1])
ImplOk == ImplDurationFields(X) = RefFields(X)
TcOk == \A ts \in {1, 2, 3, 7, 10, 240, 44100, 90000, 10000000} :
          LET tc == RefDurToTc(X, ts) IN
          ((s + 1) < (2000000000 \div ts)) =>
             /\ C19_TimecodeInverse(tc, ts, RefDurToTc(RefTcToDur(tc, ts), ts))
             /\ DurLe(RefTcToDur(tc, ts), X)
=============================================================================
