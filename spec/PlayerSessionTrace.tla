------------------------- MODULE PlayerSessionTrace -------------------------
(* A real player session against the real service (harness/session.py), one line per step:          *)
(*  {tid, ev:"manifest", rep, pub, keys, durs, has_prev, prev_pub, prev_keys, prev_durs}             *)
(*  {tid, ev:"fetch", rep, key, status, tfdt, dur, same_instant, ended, has_prev, skipped, prev:{key,*)
(*        status, adv_dur}}                                                                          *)
(* keys / tfdt are rebased per Representation; pub is [d, s, u].  Every line carries what it is       *)
(* compared with (the previous manifest / fetch of the same Representation), so the replay is          *)
(* stateless; the protocol itself is model-checked in PlayerSessionMC.                                 *)
EXTENDS PlayerSessionRules, TLC, Json, IOUtils
TraceLog == ndJsonDeserialize(IOEnv.TRACE_FILE)
VARIABLE l
Report(c, ok, detail) ==
    IF ok THEN TRUE
    ELSE PrintT(<<"V", ToJson([line |-> l, tid |-> TraceLog[l].tid, clause |-> c, detail |-> detail])>>)
InstLe(a, b) == a.d < b.d \/ (a.d = b.d /\ (a.s < b.s \/ (a.s = b.s /\ a.u <= b.u)))
Check(t) ==
    IF t.ev = "manifest" THEN
        LET m == [keys |-> t.keys, durs |-> t.durs] IN
        /\ Report("C09_SessionGapless", Sess_Gapless(m), [rep |-> t.rep, n |-> Len(t.keys)])
        /\ (t.has_prev = 1 =>
              LET p == [keys |-> t.prev_keys, durs |-> t.prev_durs] IN
              /\ Report("C09_SessionWindowForward", Sess_WindowForward(p, m), [rep |-> t.rep])
              /\ Report("C09_SessionCommonAgree", Sess_CommonAgree(p, m), [rep |-> t.rep])
              /\ Report("C09_SessionPublishForward", InstLe(t.prev_pub, t.pub), [prev |-> t.prev_pub, cur |-> t.pub]))
    ELSE IF t.ev = "fetch" THEN
        /\ ((t.same_instant = 1 /\ t.ended = 1) => Report("C09_SessionListedServed", Sess_ListedIs200(t), [rep |-> t.rep, key |-> t.key, status |-> t.status]))
        /\ Report("C09_SessionTimeExact", Sess_TimeExact(t), [rep |-> t.rep, key |-> t.key, tfdt |-> t.tfdt])
        /\ (t.has_prev = 1 => Report("C09_SessionFetchContiguous", Sess_FetchContiguous(t.prev, t, t.skipped),
                                     [rep |-> t.rep, key |-> t.key, prev |-> t.prev]))
    ELSE TRUE
TraceInit == l = 1
TraceNext == l <= Len(TraceLog) /\ Check(TraceLog[l]) /\ l' = l + 1
TraceSpec == TraceInit /\ [][TraceNext]_l
TraceAccepted == \/ TLCGet("stats").diameter - 1 = Len(TraceLog)
                 \/ Print(<<"TRACE_REJECTED", TLCGet("stats").diameter - 1, Len(TraceLog)>>, FALSE)
=============================================================================
