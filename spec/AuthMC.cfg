SPECIFICATION Spec
CONSTANTS
  EMIT = FALSE
  MaxTokens = 2
  MaxRestarts = 1
INVARIANT AtMostOnceOrKnown
INVARIANT Bounded
CONSTRAINT Constraint
CHECK_DEADLOCK FALSE
