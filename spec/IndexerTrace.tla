---------------------------- MODULE IndexerTrace ----------------------------
(* {tid, boxes:[kind..], segs:[{lo,hi}..], onbox, plain}: the segments the real indexer (Representation.load) cut out of a   *)
(* file assembled from real boxes in the order `boxes`; lo / hi are box indices (onbox = 0: a boundary inside a box).        *)
EXTENDS Indexer, TLC, Json, IOUtils
TraceLog == ndJsonDeserialize(IOEnv.TRACE_FILE)
CodeKinds == {"sidx", "moov", "mdat", "free"}
VARIABLE l
Report(c, ok, detail) ==
    IF ok THEN TRUE
    ELSE PrintT(<<"V", ToJson([line |-> l, tid |-> TraceLog[l].tid, clause |-> c, detail |-> detail])>>)
Norm(s) == [k \in 1..Len(s) |-> [lo |-> s[k].lo, hi |-> s[k].hi]]
Check(t) ==
    LET segs == Norm(t.segs) IN
    /\ Report("X03_OnBoxBoundaries", t.onbox = 1, 0)
    /\ (t.onbox = 1 =>
          /\ Report("X03_ScanConforms", segs = Scan(t.boxes), [model |-> Scan(t.boxes), real |-> segs])
          /\ Report("X03_InitSegment", X03_InitSegment(t.boxes, segs), 0)
          /\ Report("X03_OneFragmentPerSegment", X03_OneFragmentPerSegment(t.boxes, segs), 0)
          /\ Report("X03_EveryFragmentIndexed", X03_EveryFragmentIndexed(t.boxes, segs), Len(segs))
          /\ Report("X03_Tiles", X03_Tiles(t.boxes, segs), 0))
\* the builder's variables of Indexer.tla play no part in a trace: they are pinned
TraceInit == l = 1 /\ file = <<>> /\ phase = "trace" /\ nfrag = 0
TraceNext == l <= Len(TraceLog) /\ Check(TraceLog[l]) /\ l' = l + 1 /\ UNCHANGED vars
TraceSpec == TraceInit /\ [][TraceNext]_<<l, vars>>
TraceAccepted == \/ TLCGet("stats").diameter - 1 = Len(TraceLog)
                 \/ Print(<<"TRACE_REJECTED", TLCGet("stats").diameter - 1, Len(TraceLog)>>, FALSE)
=============================================================================
