SPECIFICATION Spec
CONSTANTS
  MaxLoops = 2
  MaxFetch = 2
INVARIANT SomeCleanDone
CHECK_DEADLOCK FALSE
