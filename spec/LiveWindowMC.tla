---------------------------- MODULE LiveWindowMC ----------------------------
(* Small-scope instance of LiveWindow.  Every state is an initial state: the    *)
(* behaviour is a function of (layout, options, elapsed time).  The invariants  *)
(* say that the implementation-shaped model satisfies the property level; Emit  *)
(* prints every state with the model's outputs for the spec -> code replay.     *)
EXTENDS LiveWindow, TLC, Json

CONSTANTS Tier, EMIT

\* ---- layouts (DESIGN.md appendix B): reference is 20 s long ------------------
RefV == [ts |-> 4, mediaDur |-> 80, segDur |-> 16]
RefR == [ts |-> 2, mediaDur |-> 40, segDur |-> 8]
\* a reference whose duration (61/3 s) is not a whole number of microseconds
RefN == [ts |-> 3, mediaDur |-> 61, segDur |-> 12]
Layouts == [
  V  |-> [rep |-> [ts |-> 4,  durs |-> <<16, 16, 16, 16, 16>>, sn |-> 1, segdur |-> 16, st |-> 0], ref |-> RefV],
  A  |-> [rep |-> [ts |-> 10, durs |-> <<39, 41, 39, 41, 39>>, sn |-> 1, segdur |-> 39, st |-> 0], ref |-> RefV],
  A2 |-> [rep |-> [ts |-> 10, durs |-> <<41, 40, 40, 40, 40>>, sn |-> 1, segdur |-> 40, st |-> 0], ref |-> RefV],
  T  |-> [rep |-> [ts |-> 1,  durs |-> <<10, 10>>,             sn |-> 1, segdur |-> 10, st |-> 0], ref |-> RefV],
  V5 |-> [rep |-> [ts |-> 4,  durs |-> <<16, 16, 16, 16, 16>>, sn |-> 5, segdur |-> 16, st |-> 0], ref |-> RefV],
  R  |-> [rep |-> [ts |-> 2,  durs |-> <<7, 9, 8, 8, 8>>,      sn |-> 1, segdur |-> 8,  st |-> 0], ref |-> RefR],
  N  |-> [rep |-> [ts |-> 3,  durs |-> <<12, 12, 12, 12, 13>>, sn |-> 1, segdur |-> 12, st |-> 0], ref |-> RefN],
  NA |-> [rep |-> [ts |-> 7,  durs |-> <<28, 29, 28, 29, 28>>, sn |-> 1, segdur |-> 28, st |-> 0], ref |-> RefN] ]
LayoutNames == DOMAIN Layouts

Depths   == IF Tier = "quick" THEN {5, 30} ELSE {0, 5, 12, 30}
Leeways  == IF Tier = "quick" THEN {16, 0} ELSE {16, 0, 4, 60}
MaxE     == IF Tier = "quick" THEN 26 * Q ELSE 47 * Q

VARIABLES lay, e, o
vars == <<lay, e, o>>

Init ==
    /\ lay \in LayoutNames
    /\ e \in 1..MaxE
    /\ o \in [depth : Depths, leeway : Leeways]
Next == UNCHANGED vars
Spec == Init /\ [][Next]_vars

Rep == Layouts[lay].rep
Ref == Layouts[lay].ref

\* what the manifest exposes for this Representation (projection of the model's output)
Tl == ImplTimelineLive(Rep, Ref, e, o)
Manifest(withTimeline) ==
    [ts |-> Rep.ts, sn |-> Rep.sn, D |-> Rep.segdur, tsbd |-> ImplTsbd(e, o),
     timeline |-> IF withTimeline THEN Tl ELSE <<>>]

Efloor == (e * Rep.ts) \div Q
Eceil  == ((e * Rep.ts) + Q - 1) \div Q

AdvN == AdvertisedNumbers(Manifest(FALSE), Efloor, Eceil)
AdvT == AdvertisedTimes(Manifest(TRUE), Efloor)

ServeN(n) == ImplServeLive(Rep, Ref, e, o, "number", n)
ServeT(t) == ImplServeLive(Rep, Ref, e, o, "time", t)

\* ---- invariants: implementation level satisfies the property level --------------
C01_NumbersRetrievable == \A n \in AdvN : ServeN(n).status = 200
C01_TimesRetrievable   == \A i \in AdvT : ServeT(Tl[i].t).status = 200
C02_TimelineGapless    == C02_Gapless(Tl)
C02_TimeExactAll       ==
    \A i \in 1..Len(Tl) : \/ C02_TimeExact(Tl[i], ServeT(Tl[i].t))
                           \/ Known_C02_DriftDuration(Rep, Ref, Tl[i], ServeT(Tl[i].t))
C02_NumberExactAll     == \A n \in AdvN : C02_NumberExact(Rep, Ref, Manifest(FALSE), n, ServeN(n))
C02_SourceAlignedAll   ==
    /\ \A n \in AdvN : C02_SourceAligned(Rep, Ref, ServeN(n))
    /\ \A i \in 1..Len(Tl) : C02_SourceAligned(Rep, Ref, ServeT(Tl[i].t))
\* the timeline covers the time-shift window: it starts no later than half a segment after
\* the first available time and ends no earlier than the live edge minus one entry
WindowCovered ==
    Len(Tl) > 0 => Tl[1].t <= TdToTc(ImplFta(e, o), Rep.ts) + (MaxOf(Rep.durs, Len(Rep.durs)) \div 2) + 1

\* ---- emission for the replay driver ----------------------------------------------
NumberKeys == (ImplFirst(Rep, e, o) - 2 .. ImplLast(Rep, e) + 1) \cup AdvN
SetToSeq(S) == LET RECURSIVE F(_) F(s) == IF s = {} THEN <<>> ELSE LET x == CHOOSE y \in s : \A z \in s : y <= z IN <<x>> \o F(s \ {x}) IN F(S)

State ==
    [lay |-> lay, e |-> e, o |-> o,
     tsbd |-> ImplTsbd(e, o), fta |-> ImplFta(e, o),
     first |-> ImplFirst(Rep, e, o), last |-> ImplLast(Rep, e),
     timeline |-> Tl,
     nkeys |-> SetToSeq(NumberKeys),
     nserve |-> [i \in 1..Cardinality(NumberKeys) |-> ServeN(SetToSeq(NumberKeys)[i])],
     tserve |-> [i \in 1..Len(Tl) |-> ServeT(Tl[i].t)]]

Emit == EMIT => PrintT(<<"S", ToJson(State)>>)

\* ---- static (vod) mode: C06 ---------------------------------------------------------
\* additional layouts used in static mode only (tracks much shorter / longer than the reference)
ExtraLayouts == [
  T2 |-> [rep |-> [ts |-> 1,  durs |-> <<10, 5>>,              sn |-> 1, segdur |-> 7,  st |-> 0], ref |-> RefV],
  A3 |-> [rep |-> [ts |-> 10, durs |-> <<40, 40, 40, 40, 38>>, sn |-> 3, segdur |-> 39, st |-> 0], ref |-> RefV],
  R2 |-> [rep |-> [ts |-> 2,  durs |-> <<9, 7, 9, 7, 9>>,      sn |-> 1, segdur |-> 8,  st |-> 0], ref |-> RefR] ]
StaticLayouts == [n \in (DOMAIN Layouts) \cup (DOMAIN ExtraLayouts) |->
                    IF n \in DOMAIN Layouts THEN Layouts[n] ELSE ExtraLayouts[n]]

InitStatic == lay \in DOMAIN StaticLayouts /\ e = 1 /\ o = [depth |-> 5, leeway |-> 0]
SpecStatic == InitStatic /\ [][Next]_vars

SRep == StaticLayouts[lay].rep
SRef == StaticLayouts[lay].ref
STl  == ImplTimelineVod(SRep, SRef)
SNums == SRep.sn .. (SRep.sn + NumSegs(SRep) - 1)

\* a track shorter than its reference by a whole segment or more would still be cut short by
\* the reference duration; such layouts are outside the fixtures and outside this instance
C06_TimelineIsStored == C06_TimelineIsStoredTrack(SRep, STl)
C06_NumbersServed ==
    /\ \A n \in SNums : LET r == ImplServeVod(SRep, "number", n) IN
          r.status = 200 /\ r.mod = n - SRep.sn + 1 /\ r.seq = n /\ r.tfdt = StoredTfdt(SRep, r.mod)
    /\ ImplServeVod(SRep, "number", SRep.sn + NumSegs(SRep)).status = 404
    /\ ImplServeVod(SRep, "number", SRep.sn - 1).status = 404
C06_TimesServed ==
    /\ \A i \in 1..Len(STl) : LET r == ImplServeVod(SRep, "time", STl[i].t) IN
          r.status = 200 /\ r.mod = i /\ r.tfdt = STl[i].t /\ r.dur = STl[i].d
    /\ Len(STl) > 0 => ImplServeVod(SRep, "time", STl[Len(STl)].t + STl[Len(STl)].d).status = 404

StaticState == [lay |-> lay, layout |-> StaticLayouts[lay], timeline |-> STl, nums |-> SetToSeq(SNums)]
EmitStatic == EMIT => PrintT(<<"T", ToJson(StaticState)>>)
ASSUME EMIT => PrintT(<<"L", ToJson([layouts |-> Layouts, q |-> Q])>>)
=============================================================================
