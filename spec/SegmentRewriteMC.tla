-------------------------- MODULE SegmentRewriteMC --------------------------
EXTENDS SegmentRewrite, TLC
VARIABLE cfg
Init == cfg \in [n : {1, 3}, tfdt0 : {"absent", "v0", "v1"}, big : BOOLEAN, enc : {"clear", "iv8", "iv16"}, piff : BOOLEAN,
                 explicitBase : BOOLEAN, emsg : {<<>>, <<60>>, <<61, 75>>}, bugSaio : BOOLEAN, P : {100}]
Next == UNCHANGED cfg
Spec == Init /\ [][Next]_cfg
Valid == (cfg.piff => Encrypted(cfg))
ImplSatisfies ==
    Valid =>
        LET o == ImplObs(cfg) IN
        /\ C03_TrunPointsAtPayload(o) /\ C03_SaioPointsAtSenc(o, cfg.bugSaio) /\ C03_WellFormed(o)
        /\ C03_SampleSizesSum(o) /\ C03_PayloadIdentical(o) /\ C03_SencCountEqTrun(o)
\* the permitted deviation is real: with the bug option and a changed layout the offset is stale
BugIsObservable ==
    (Valid /\ cfg.bugSaio /\ Encrypted(cfg) /\ (cfg.piff \/ Len(cfg.emsg) > 0 \/ TfdtSize(cfg) # StoredTfdtSize(cfg)) /\ ~cfg.explicitBase)
        => ImplObs(cfg).saio_target # ImplObs(cfg).senc_first \/ Len(cfg.emsg) > 0
=============================================================================
