----------------------------- MODULE IsoTimeTrace -----------------------------
(* lines:                                                                        *)
(* {ev:"dur", x:{s,u}, kind, text, f:{h,m,s,ms,lex}, parsed:{s,u}, parse_ok}     *)
(* {ev:"dt", inst:{d,s,u}, off, text, f:{y,mo,d,h,mi,s,us,off,lex}, pinst, poff, parse_ok} *)
(* {ev:"tc", tc, ts, dur:{s,u}, back}   timecode -> delta -> timecode             *)
(* {ev:"td", x:{s,u}, ts, tc, dur:{s,u}} delta -> timecode -> delta               *)
(* {ev:"mono", ts, tc1, tc2, d1, d2}                                              *)
(* {ev:"scale", x:{s,u}, num, denom, got, ok, has_prev, prev_got}  scale_timedelta, deltas ascending per (num, denom) *)
EXTENDS IsoTime, TLC, Json, IOUtils
TraceLog == ndJsonDeserialize(IOEnv.TRACE_FILE)
VARIABLE l
Report(c, ok) == IF ok THEN TRUE ELSE PrintT(<<"V", ToJson([line |-> l, tid |-> TraceLog[l].tid, clause |-> c])>>)
CheckDur(t) ==
    /\ Report("C19_LexicalXsDuration", C19_LexicalXsDuration(t.f))
    /\ Report("C19_FieldsBelow60", t.f.lex = 1 => C19_FieldsBelow60(t.f))
    /\ Report("C19_DurationTextValue", t.f.lex = 1 => C19_DurationTextValue(t.x, t.f))
    /\ Report("C19_DurationRoundTrip", t.parse_ok = 1 /\ C19_DurationRoundTrip(t.x, t.parsed))
    /\ Report("DRIFT_duration", t.f.lex = 1 =>
              LET m == ImplDurationFields(t.x) IN m.h = t.f.h /\ m.m = t.f.m /\ m.s = t.f.s /\ m.ms = t.f.ms)
CheckDt(t) ==
    /\ Report("C19_DateTimeTextValue", C19_DateTimeTextValue(t.inst, t.off, t.f))
    /\ Report("C19_DateTimeRoundTrip", t.parse_ok = 1 /\ C19_DateTimeRoundTrip(t.inst, t.off, t.pinst, t.poff))
CheckTc(t) ==
    /\ Report("C19_TimecodeToDelta", C19_TimecodeToDelta(t.tc, t.ts, t.dur))
    /\ Report("C19_TimecodeInverse", C19_TimecodeInverse(t.tc, t.ts, t.back))
CheckTd(t) ==
    /\ Report("C19_DeltaToTimecode", C19_DeltaToTimecode(t.x, t.ts, t.tc))
    /\ Report("C19_TimecodeInverse",
              /\ DurLe(t.dur, t.x)
              /\ t.tc - RefDurToTc(t.dur, t.ts) >= 0
              /\ t.tc - RefDurToTc(t.dur, t.ts) <= 1)
CheckMono(t) == Report("C19_TimecodeMonotone", (t.tc1 <= t.tc2) => C19_TimecodeMonotone(t.d1, t.d2))
CheckScale(t) ==
    /\ Report("C19_ScaleTimedelta", t.ok = 1 /\ C19_ScaleTimedelta(t.x, t.num, t.denom, t.got))
    /\ Report("C19_ScaleMonotone", t.has_prev = 0 \/ C19_ScaleMonotone(t.prev_got, t.got))
Check(t) ==
    IF t.ev = "scale" THEN CheckScale(t) ELSE
    IF t.ev = "dur" THEN CheckDur(t)
    ELSE IF t.ev = "dt" THEN CheckDt(t)
    ELSE IF t.ev = "tc" THEN CheckTc(t)
    ELSE IF t.ev = "td" THEN CheckTd(t)
    ELSE IF t.ev = "mono" THEN CheckMono(t)
    ELSE TRUE
TraceInit == l = 1
TraceNext == l <= Len(TraceLog) /\ Check(TraceLog[l]) /\ l' = l + 1
TraceSpec == TraceInit /\ [][TraceNext]_l
TraceAccepted == \/ TLCGet("stats").diameter - 1 = Len(TraceLog)
                 \/ Print(<<"TRACE_REJECTED", TLCGet("stats").diameter - 1, Len(TraceLog)>>, FALSE)
=============================================================================
