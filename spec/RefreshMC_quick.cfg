SPECIFICATION Spec2
CONSTANTS
  Q = 40
  Tier = "quick"
  EMIT = FALSE
INVARIANT Agree
INVARIANT Forward
CHECK_DEADLOCK FALSE
