SPECIFICATION Spec
CONSTANTS
  DayLo <- DayLoV
  DayHi = 47900
  Drifts <- DriftsV
  MaxClock = 3
  Sweep = TRUE
INVARIANT WeekdayCycles
INVARIANT IsoWeekLaws
INVARIANT CivilRoundTrip
INVARIANT NtpLaws
INVARIANT NtpEpochs
INVARIANT FracLaws
INVARIANT ClientSeesShiftedClock
CHECK_DEADLOCK FALSE
