SPECIFICATION Spec
CONSTANT EMIT = TRUE
INVARIANT Total
INVARIANT SatInside
INVARIANT ImplSatisfies
INVARIANT Emit
CHECK_DEADLOCK FALSE
