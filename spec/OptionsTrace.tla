----------------------------- MODULE OptionsTrace -----------------------------
(* {ev:"fwd", m, names:[..], usage:{name:[types]}, man:{name:value}, med:{name:value}, url_names:[..]}   *)
(* {ev:"xlate", want, got, url, rep, value}   verr/aerr=<code>=<time of day> -> segment number                       *)
(* {ev:"codec", name, v1, v2, ok, given}                                                                          *)
EXTENDS Options, TLC, Json, IOUtils
TraceLog == ndJsonDeserialize(IOEnv.TRACE_FILE)
VARIABLE l
Report(c, ok, detail) ==
    IF ok THEN TRUE
    ELSE PrintT(<<"V", ToJson([line |-> l, tid |-> TraceLog[l].tid, clause |-> c, detail |-> detail])>>)
Check(t) ==
    IF t.ev = "fwd" THEN
        /\ Report("C07_Forwarded", C07_Forwarded(t.m, ToSet(t.names), t.usage, t.man, t.med),
                  Mismatches(t.m, ToSet(t.names), t.usage, t.man, t.med))
        /\ Report("C07_NotForwarded", C07_NotForwarded(t.m, t.url_names, t.usage, ToSet(t.names)),
                  { t.url_names[i] : i \in { j \in 1..Len(t.url_names) : t.url_names[j] \in ToSet(t.names) /\ t.m \notin ToSet(t.usage[t.url_names[j]]) } })
        /\ Report("C07_GivenReachesMedia", C07_GivenReachesMedia(t.m, t.usage, t.given, t.med), GivenMismatches(t.m, t.usage, t.given, t.med))
    ELSE IF t.ev = "codec" THEN
        /\ Report("C07_CodecIdentity", t.ok = 1 /\ C07_CodecIdentity(t.v1, t.v2), [name |-> t.name])
        /\ Report("C07_CodecMeaning", t.ok = 0 \/ C07_CodecMeaning(t.given, t.v1), [name |-> t.name])
    ELSE IF t.ev = "xlate" THEN Report("C07_PositionKeepsMeaning", C07_PositionKeepsMeaning(t.want, t.got), [want |-> t.want, got |-> t.got])
    ELSE TRUE
TraceInit == l = 1
TraceNext == l <= Len(TraceLog) /\ Check(TraceLog[l]) /\ l' = l + 1
TraceSpec == TraceInit /\ [][TraceNext]_l
TraceAccepted == \/ TLCGet("stats").diameter - 1 = Len(TraceLog)
                 \/ Print(<<"TRACE_REJECTED", TLCGet("stats").diameter - 1, Len(TraceLog)>>, FALSE)
=============================================================================
