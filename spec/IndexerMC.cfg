SPECIFICATION Spec
CONSTANTS
  MaxFragments = 3
  ExtendKinds <- CodeKinds
  Loose = FALSE
  EMIT = FALSE
INVARIANT InitOk
INVARIANT OneFragment
INVARIANT AllIndexed
INVARIANT Tiles
CHECK_DEADLOCK FALSE
