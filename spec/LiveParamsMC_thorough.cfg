SPECIFICATION Spec
CONSTANTS
  Tier = "thorough"
  EMIT = FALSE
INVARIANT SingleClauses
INVARIANT Monotone
INVARIANT Stable
CHECK_DEADLOCK FALSE
