-------------------------- MODULE BufferedReaderMC --------------------------
(* Small-scope instance of BufferedReader: every geometry in Geoms, every      *)
(* reachable (pos, cache) state, every operation of the alphabet.  The state is *)
(* (g, pos, fifo) only; the clauses are evaluated for every operation enabled  *)
(* in every state (Refines), so no observation variable inflates the graph.    *)
(* With EMIT = TRUE every outgoing edge of every state is printed once as JSON *)
(* for the spec -> code replay driver.                                          *)
EXTENDS BufferedReader, TLC, Json

CONSTANTS Geoms, EMIT
VARIABLES g, pos, fifo
vars == <<g, pos, fifo>>

Op(name, n, whence) == [name |-> name, n |-> n, whence |-> whence]

OpsFor(gg) ==
    {Op("read", n, 0) : n \in {0, 1, gg.bs - 1, gg.bs, gg.bs + 1, 2 * gg.bs + 1, gg.size + 1, -1}
                               \cap (-1 .. 100)}
    \cup {Op("seek", n, 0) : n \in {0, 1, gg.bs, gg.bs + 1, gg.size - 1, gg.size, gg.size + 3, -1}}
    \cup {Op("seek", n, 1) : n \in {1, -1, gg.bs, -gg.bs, gg.size}}
    \cup {Op("seek", n, 2) : n \in {0, -1, -gg.bs - 1, 2, -gg.size - 2}}
    \cup {Op("tell", 0, 0)}
    \cup {Op("peek", n, 0) : n \in {1, gg.bs, gg.bs + 1, 2 * gg.bs + 1, gg.size + 2}}

Geom(flen, off, size, bs, maxb) == [flen |-> flen, off |-> off, size |-> size, bs |-> bs, maxb |-> maxb]

GeomsQuick == {
    Geom(8, 0, 8, 3, 2),      \* window = whole file, bs does not divide it
    Geom(12, 3, 7, 2, 2),     \* window starts mid-bucket, ends before end of file
    Geom(12, 3, 7, 3, 3),
    Geom(12, 5, 7, 4, 2),     \* window ends at end of file
    Geom(10, 2, 6, 5, 2),     \* bucket larger than most of the window
    Geom(10, 1, 8, 1, 2),     \* one-byte buffers
    Geom(12, 4, 4, 4, 3),     \* window exactly one bucket
    Geom(12, 2, 9, 4, 3),
    Geom(9, 4, 0, 2, 2),      \* empty window
    Geom(12, 1, 1, 3, 2) }    \* one-byte window

GeomsThorough ==
    GeomsQuick \cup
    { Geom(flen, off, size, bs, maxb) :
        flen \in {7, 12}, off \in {0, 1, 3, 5}, size \in {1, 2, 5, 6, 7}, bs \in 2..5, maxb \in {2, 3} }

ValidGeoms == { x \in Geoms : WellFormedGeometry(x) }

Init == g \in ValidGeoms /\ pos = 0 /\ fifo = <<>>

Step(o) ==
    /\ pos'  = ImplPos(g, pos, o)
    /\ fifo' = ImplFifo(g, fifo, pos, o)
    /\ g'    = g

Next == \E o \in OpsFor(g) : Step(o)
Spec == Init /\ [][Next]_vars

\* --- invariants -------------------------------------------------------------
RefinesAll == \A o \in OpsFor(g) : Refines(g, pos, o)
C20_PosInWindow == pos >= 0 /\ pos <= g.size
CacheBounded == Len(fifo) <= g.maxb
\* vacuity guards: evaluated by the driver from the emitted edges (some read crosses a
\* bucket boundary, some eviction happens, some read is truncated by the window end)

Edge(o) == [g |-> g, pos |-> pos, fifo |-> fifo, o |-> o,
            sb |-> SpecBytes(g, pos, o), si |-> SpecInt(g, pos, o), sp |-> SpecPos(g, pos, o),
            ib |-> ImplBytes(g, pos, o), ififo |-> ImplFifo(g, fifo, pos, o)]

Emit == EMIT => \A o \in OpsFor(g) : PrintT(<<"E", ToJson(Edge(o))>>)
=============================================================================
