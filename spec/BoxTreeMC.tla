------------------------------ MODULE BoxTreeMC ------------------------------
(* edit sequences up to depth 4 on a container of <= 4 leaves with payload deltas; after every edit   *)
(* the encoded tree nests exactly.                                                                    *)
EXTENDS BoxTree, TLC
VARIABLES leaves, steps
vars == <<leaves, steps>>
Init == leaves \in {<<4, 8>>, <<0>>, <<16, 4, 4>>} /\ steps = 0
SetField(i, d) == /\ i \in 1..Len(leaves) /\ leaves[i] + d >= 0
                  /\ leaves' = [leaves EXCEPT ![i] = @ + d]
AppendLeaf(l) == Len(leaves) < 4 /\ leaves' = Append(leaves, l)
Insert(i, l) == /\ Len(leaves) < 4 /\ i \in 1..(Len(leaves) + 1)
                /\ leaves' = SubSeq(leaves, 1, i - 1) \o <<l>> \o SubSeq(leaves, i, Len(leaves))
Remove(i) == /\ i \in 1..Len(leaves) /\ leaves' = SubSeq(leaves, 1, i - 1) \o SubSeq(leaves, i + 1, Len(leaves))
Next == /\ steps < 4 /\ steps' = steps + 1
        /\ \/ \E i \in 1..4, d \in {-4, 4, 12} : SetField(i, d)
           \/ \E l \in {0, 20} : AppendLeaf(l)
           \/ \E i \in 1..5, l \in {0, 20} : Insert(i, l)
           \/ \E i \in 1..4 : Remove(i)
Spec == Init /\ [][Next]_vars
EncodedNests == C04_SizesNest(EncodeCont(leaves))
=============================================================================
