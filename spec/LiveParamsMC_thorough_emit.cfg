SPECIFICATION Spec
CONSTANTS
  Tier = "thorough"
  EMIT = TRUE
CHECK_DEADLOCK FALSE
INVARIANT Emit
