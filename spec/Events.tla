------------------------------- MODULE Events -------------------------------
(***************************************************************************)
(* C14 - timed events are delivered exactly once and decode to their       *)
(* schedule.  sch = [start, interval, count, duration, ts, version]        *)
(* (count = 0: unbounded).  A segment is [s, e) in ticks of the            *)
(* Representation's timescale rts.                                         *)
(***************************************************************************)
EXTENDS Integers, Sequences, FiniteSets, Scte35

EvTime(sch, k) == sch.start + k * sch.interval
\* segment bounds at event-timescale resolution (one event tick of tolerance against exact
\* rational containment - the least demanding reading)
Lo(sch, s, rts) == (s * sch.ts) \div rts
Hi(sch, e, rts) == (e * sch.ts) \div rts

\* the events a segment must carry (ids)
Expected(sch, s, e, rts) ==
    { k \in 0..(IF Hi(sch, e, rts) <= sch.start THEN 0 ELSE ((Hi(sch, e, rts) - sch.start) \div sch.interval) + 1) :
        /\ (sch.count = 0 \/ k < sch.count)
        /\ Lo(sch, s, rts) <= EvTime(sch, k) /\ EvTime(sch, k) < Hi(sch, e, rts) }

\* ---- implementation level: RepeatingEventBase.create_emsg_boxes ------------------------
RECURSIVE ImplLoop(_, _, _, _, _)
ImplLoop(sch, segStart, segEnd, id, pt) ==
    IF pt >= segEnd THEN {}
    ELSE IF pt < segStart THEN ImplLoop(sch, segStart, segEnd, id + 1, pt + sch.interval)
    ELSE IF sch.count > 0 /\ id >= sch.count THEN {}                   \* (fix: C14) checked before appending
    ELSE {id} \cup ImplLoop(sch, segStart, segEnd, id + 1, pt + sch.interval)
ImplEmsgIds(sch, s, e, rts) ==
    LET segStart == Lo(sch, s, rts)  segEnd == Hi(sch, e, rts) IN
    IF sch.start >= segEnd THEN {}
    ELSE IF sch.count > 0 /\ sch.start + sch.count * sch.interval < segStart THEN {}
    ELSE LET id0 == IF segStart > sch.start THEN (segStart - sch.start) \div sch.interval ELSE 0
         IN  ImplLoop(sch, segStart, segEnd, id0, sch.start + id0 * sch.interval)

\* ---- property level on an observed segment: boxes = sequence of
\*      [id, version, ts, delta, ptime, duration] ---------------------------------------------
Ids(boxes) == { boxes[i].id : i \in 1..Len(boxes) }
C14_ExactlyOnce(sch, s, e, rts, boxes) ==
    /\ Ids(boxes) = Expected(sch, s, e, rts)
    /\ \A i, j \in 1..Len(boxes) : boxes[i].id = boxes[j].id => i = j
C14_IdAndTimeResolve(sch, s, rts, boxes) ==
    \A i \in 1..Len(boxes) :
        LET b == boxes[i] IN
        /\ b.ts = sch.ts /\ b.duration = sch.duration
        /\ IF b.version = 0 THEN b.delta = EvTime(sch, b.id) - Lo(sch, s, rts)
           ELSE b.ptime = EvTime(sch, b.id)
\* out-of-band: the manifest's EventStream lists events 0..count-1
C14_ManifestListsSchedule(sch, events) ==
    sch.count > 0 =>
        /\ Len(events) = sch.count
        /\ \A i \in 1..Len(events) :
              events[i].id = i - 1 /\ events[i].ptime = EvTime(sch, i - 1) /\ events[i].duration = sch.duration

\* floor(x * m / d) without forming x * m (TLC integers are 32 bit): reduce m/d, split x by the reduced divisor
RECURSIVE Gcd(_, _)
Gcd(a, b) == IF b = 0 THEN a ELSE Gcd(b, a % b)
MulDiv(x, m, d) ==
    LET g == Gcd(m, d)
        a == m \div g
        b == d \div g
    IN  (x \div b) * a + ((x % b) * a) \div b
\* SCTE-35 payload of event k (schedules whose 90 kHz values stay below 2^31)
C14_Scte35Decodes(sch, k, bytes) ==
    /\ WellFormedSpliceInsert(bytes)
    /\ EventId(bytes) = [mid |-> k \div 65536, lo |-> k % 65536]
    /\ Pts(bytes) = Limbs33(MulDiv(EvTime(sch, k), 90000, sch.ts))
    /\ BreakDuration(bytes) = Limbs33(MulDiv(sch.duration, 90000, sch.ts))
=============================================================================
