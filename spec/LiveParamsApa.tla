---------------------------- MODULE LiveParamsApa ----------------------------
(* Unbounded version of the C08 single-observation clauses for Apalache: the instant (any day from 1970-01-02 to 2200, any second,  *)
(* any microsecond), the age of an explicit start and the depth range over integers (SMT) instead of TLC's grid; the       *)
(* period is drawn from a finite set and the reference is the 4 s one (a symbolic divisor makes the problem nonlinear and   *)
(* Z3 does not return), the calendar starts today / month / year stay with TLC.  Inv: the implementation-shaped model      *)
(* satisfies every single-state clause.                                                                                     *)
EXTENDS LiveParams
VARIABLES
    \* @type: { d: Int, s: Int, u: Int };
    now,
    \* @type: Str;
    start,
    \* @type: Int;
    xk,
    \* @type: Int;
    depth,
    \* @type: Int;
    mup,
    \* @type: Int;
    refSegDur,
    \* @type: Int;
    refTs
Starts == {"x", "epoch", "now"}
Init ==
    /\ \E dd \in Int, ss \in Int, uu \in Int :
          \* from 1970-01-02: in the first minute after the epoch itself no `epoch` stream can be a minute old (Apalache finds
          \* now = 1970-01-01T00:00:08.000001 when day 0 is admitted)
          /\ 1 <= dd /\ dd <= 84000 /\ 0 <= ss /\ ss < 86400 /\ 0 <= uu /\ uu < 1000000
          /\ now = [d |-> dd, s |-> ss, u |-> uu]
    /\ start \in Starts
    /\ xk \in Int /\ xk >= 0 /\ xk <= now.d * 86400 + now.s        \* an explicit start is not later than now and not before 1970
    /\ depth \in Int /\ depth >= -100000 /\ depth <= 100000000
    /\ mup \in {Absent, 0, 4}
    /\ refSegDur = 960
    /\ refTs = 240
Next == UNCHANGED <<now, start, xk, depth, mup, refSegDur, refTs>>
Obs == Impl(now, start, xk, depth, mup, refSegDur, refTs)
\* all single-state clauses but C08_PublishQuantised (its `off.s % r.mup` with a symbolic period does not return from Z3 in useful
\* time; it stays with TLC's grid and the traces)
Inv == /\ C08_AstNotFuture(now, Obs)
       /\ C08_PublishInRangeWholeSecond(now, Obs)
       /\ C08_TsbdRange(now, Obs)
       /\ C08_FirstAvailable(now, Obs)
       /\ C08_SymbolicAtLeastOneMinuteOld(now, start, Obs)
       /\ C08_NowFollowsAt60(now, start, Obs)
=============================================================================
