--------------------------- MODULE ValidatorFaults ---------------------------
(***************************************************************************)
(* C18 - a validator session over a stream with at most one injected       *)
(* specification violation.                                                *)
(*                                                                         *)
(* The session protocol is the one of DashValidator's callers              *)
(* (validator/basic.py run(), upstream's check_manifest_url):              *)
(*                                                                         *)
(*   load (fetch manifest)                                                 *)
(*   repeat  validate (fetches init + media segments while it runs)        *)
(*           if not finished: sleep until publishTime+minimumUpdatePeriod, *)
(*                            refresh (fetch manifest or MPD patch)        *)
(*   until finished                                                        *)
(*                                                                         *)
(* Between server and validator sits an adversary that owns one fault      *)
(* (family, target kind of response, occurrence number) and rewrites the   *)
(* nth applicable response of that kind - exactly once.                    *)
(*                                                                         *)
(* `reported' is the ideal validator: it looks at every response it        *)
(* fetches, so a validate step that follows a tainted response reports.    *)
(* The cross-refresh fault (availabilityStartTime) only exists relative    *)
(* to a previous manifest, i.e. for occurrence >= 1.                       *)
(***************************************************************************)
EXTENDS Naturals, Sequences, FiniteSets

CONSTANTS MaxLoops,        \* bound on validate loops of one session
          MaxFetch         \* bound on segment fetches per validate step (model only)

Kinds == {"manifest", "patch", "init", "media"}
Families == {"none", "decode_time", "sequence_number", "trun_offset", "saio_offset",
             "init_box", "timeline_gap", "mpd_attr", "ast_changed", "patch_attr"}

TargetOf(fam) ==
    IF fam \in {"decode_time", "sequence_number", "trun_offset", "saio_offset"} THEN "media"
    ELSE IF fam = "init_box" THEN "init"
    ELSE IF fam \in {"timeline_gap", "mpd_attr", "ast_changed"} THEN "manifest"
    ELSE IF fam = "patch_attr" THEN "patch"     \* a mandatory attribute removed from an MPD patch document (5.15.3.2)
    ELSE "nothing"

(* what a configuration must offer for the family to be applicable at all *)
Applicable(fam, cfg) ==
    /\ (fam = "saio_offset" => cfg.encrypted)
    /\ (fam = "timeline_gap" => cfg.timeline)
    /\ (fam = "ast_changed" => cfg.live)
    /\ (fam = "patch_attr" => cfg.patch)

VARIABLES phase,      \* idle | loading | ready | validated | slept | fetched | done
          cfg,        \* [live, encrypted, timeline, patch : BOOLEAN]
          fault,      \* [family, nth]
          seen,       \* kind -> number of applicable responses served so far
          applied,    \* the fault has been injected
          tainted,    \* a tainted response has been served and not yet looked at
          reported,   \* the (ideal) validator has reported an error
          loops,      \* validate steps so far
          fetches,    \* segment fetches in the current validate step (model bound)
          patchFetched \* an MPD patch has been fetched since the last sleep

vars == <<phase, cfg, fault, seen, applied, tainted, reported, loops, fetches, patchFetched>>

Cfgs == [live : BOOLEAN, encrypted : BOOLEAN, timeline : BOOLEAN, patch : BOOLEAN]

Init ==
    /\ phase = "idle"
    /\ cfg \in Cfgs
    /\ fault \in [family : Families, nth : 0..2]
    /\ Applicable(fault.family, cfg)
    /\ (cfg.patch => cfg.live)
    /\ seen = [k \in Kinds |-> 0]
    /\ applied = FALSE /\ tainted = FALSE /\ reported = FALSE
    /\ loops = 0 /\ fetches = 0 /\ patchFetched = FALSE

(* the adversary's decision for a response of `kind' that offers something to corrupt *)
ShouldFault(kind) ==
    /\ ~applied
    /\ TargetOf(fault.family) = kind
    /\ seen[kind] = fault.nth
    /\ (fault.family = "ast_changed" => seen["manifest"] >= 1)

Serve(kind, offers) ==
    IF offers /\ ShouldFault(kind)
    THEN /\ applied' = TRUE /\ tainted' = TRUE
         /\ seen' = [seen EXCEPT ![kind] = @ + 1]
    ELSE /\ UNCHANGED <<applied, tainted>>
         /\ seen' = IF offers /\ ~applied /\ TargetOf(fault.family) = kind
                    THEN [seen EXCEPT ![kind] = @ + 1] ELSE seen

Begin ==
    /\ phase = "idle" /\ phase' = "loading"
    /\ UNCHANGED <<cfg, fault, seen, applied, tainted, reported, loops, fetches, patchFetched>>

FetchManifest(offers) ==
    /\ phase \in {"loading", "slept"}
    /\ Serve("manifest", offers)
    /\ phase' = IF phase = "loading" THEN "ready" ELSE "fetched"
    /\ UNCHANGED <<cfg, fault, reported, loops, fetches, patchFetched>>

FetchPatch(offers) ==
    /\ phase = "slept" /\ cfg.patch /\ ~patchFetched
    /\ Serve("patch", offers)
    /\ phase' = "slept"       \* a rejected patch is followed by a full manifest fetch
    /\ patchFetched' = TRUE
    /\ UNCHANGED <<cfg, fault, reported, loops, fetches>>

PatchAccepted ==
    /\ phase = "slept" /\ cfg.patch /\ patchFetched /\ phase' = "fetched"
    /\ UNCHANGED <<cfg, fault, seen, applied, tainted, reported, loops, fetches, patchFetched>>

Refresh ==
    /\ phase = "fetched" /\ phase' = "ready"
    /\ UNCHANGED <<cfg, fault, seen, applied, tainted, reported, loops, fetches, patchFetched>>

FetchSegment(kind, offers) ==
    /\ phase \in {"ready", "fetched", "slept"} /\ kind \in {"init", "media"}   \* validating a patch / merging a refreshed manifest may load segments
    /\ fetches < MaxFetch
    /\ Serve(kind, offers)
    /\ fetches' = fetches + 1
    /\ UNCHANGED <<phase, cfg, fault, reported, loops, patchFetched>>

Validated ==
    /\ phase = "ready" /\ phase' = "validated"
    /\ reported' = (reported \/ tainted)
    /\ tainted' = FALSE
    /\ loops' = loops + 1 /\ fetches' = 0
    /\ UNCHANGED <<cfg, fault, seen, applied, patchFetched>>

Sleep ==
    /\ phase = "validated" /\ cfg.live /\ loops < MaxLoops
    /\ phase' = "slept" /\ patchFetched' = FALSE
    /\ UNCHANGED <<cfg, fault, seen, applied, tainted, reported, loops, fetches>>

End ==
    /\ phase = "validated" /\ phase' = "done"
    /\ UNCHANGED <<cfg, fault, seen, applied, tainted, reported, loops, fetches, patchFetched>>

Next ==
    \/ Begin
    \/ \E o \in BOOLEAN : FetchManifest(o) \/ FetchPatch(o)
    \/ \E k \in {"init", "media"}, o \in BOOLEAN : FetchSegment(k, o)
    \/ PatchAccepted \/ Refresh \/ Validated \/ Sleep \/ End
    \/ (phase = "done" /\ UNCHANGED vars)

Spec == Init /\ [][Next]_vars /\ WF_vars(Next)

(* ---- design properties ------------------------------------------------- *)
TypeOK ==
    /\ phase \in {"idle", "loading", "ready", "validated", "slept", "fetched", "done"}
    /\ applied \in BOOLEAN /\ tainted \in BOOLEAN /\ reported \in BOOLEAN
    /\ loops \in 0..(MaxLoops + 1)

(* the adversary corrupts at most one response: once applied, nothing more is tainted *)
SingleFault == [][applied => (applied' /\ (tainted' => tainted))]_vars

(* nothing is reported unless something was injected, and everything injected is reported
   by the end of the session *)
C18_NoFalsePositive == reported => applied
C18_Detects == (phase = "done" /\ applied) => reported
NoFaultNoTaint == (fault.family = "none") => (~applied /\ ~tainted /\ ~reported)
TaintImpliesApplied == tainted => applied

(* a VOD session is a single validate step *)
VodSingleLoop == (~cfg.live) => loops <= 1

(* sessions end (MaxLoops bounds the live loop as every caller of the validator does) *)
Terminates == <>(phase = "done")

(* ---- the verdict for one observed session (used by the trace spec) ----- *)
(* e: one reported error, projected by the harness:                          *)
(*   at_elt  - its location is the corrupted element (or, for a segment, the *)
(*             Representation/AdaptationSet that owns the segment)           *)
(*   at_url  - its message quotes the corrupted response's URL / file name   *)
(*             (for a media segment: the segment's own name)                 *)
(*   names   - its message names the corrupted box / attribute               *)
\* A media segment is an element of its own (every MediaSegment error is prefixed with the segment's name).  When the
\* validator has already checked an earlier segment of the same Representation in this session (pred = 1) it has what it
\* needs to pin the corruption on the segment itself, and an error about a neighbour does not locate it.  For the first
\* segment of a Representation, for init segments and for manifests the weakest reading applies.
LocatedError(e, target, pred) ==
    IF target = "media" /\ pred = 1 THEN e.at_url = 1
    ELSE e.at_elt = 1 \/ e.at_url = 1 \/ e.names = 1

SessionTerminates(r) == r.finished = 1 /\ r.crash = 0
SessionNoFalsePositive(r) == (r.applied = 0) => (r.nerr = 0)
SessionDetects(r) == (r.applied = 1) => (r.nerr > 0)
SessionLocated(r) == (r.applied = 1 /\ r.nerr > 0) => \E i \in 1..Len(r.errors) : LocatedError(r.errors[i], r.target, r.pred)
=============================================================================
