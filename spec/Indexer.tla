------------------------------- MODULE Indexer -------------------------------
(***************************************************************************)
(* How the service cuts a stored fragmented MP4 file into segments          *)
(* (dashlive/mpeg/dash/representation.py, Representation.load): the index   *)
(* every manifest, media request and byte range is computed from.           *)
(*                                                                         *)
(* A file is a sequence of top-level boxes; only their kinds matter here    *)
(* (positions are box indices).  The scan walks the boxes once:             *)
(*   ftyp            opens the initialization segment                       *)
(*   moof            opens a media segment                                  *)
(*   an "extending" kind (the code: sidx, moov, mdat, free) stretches the   *)
(*                   last open segment up to and including this box -       *)
(*                   together with every ignored box in between             *)
(*   any other kind  is ignored (styp, emsg, skip, unknown boxes)           *)
(* so the styp + sidx pair a packager writes in front of fragment n+1 ends  *)
(* up at the tail of segment n.                                             *)
(*                                                                         *)
(* Files are built by a small grammar (what packagers write):               *)
(*   [free] ftyp [free] moov [free]  ( [styp] [sidx] [emsg] moof mdat [free] )+   *)
(* Plain: every fragment that has a styp or an emsg in front of its moof    *)
(* also has a sidx after the styp and no emsg (the shape of all bundled     *)
(* fixtures).  Loose: any combination.                                      *)
(***************************************************************************)
EXTENDS Naturals, Sequences, FiniteSets

CONSTANTS MaxFragments,     \* fragments per file (small scope)
          ExtendKinds,      \* kinds that stretch the last segment
          Loose             \* TRUE: styp without sidx and emsg before moof are generated too

Kinds == {"ftyp", "moov", "styp", "sidx", "emsg", "moof", "mdat", "free"}

(* ---- the scan, as a fold over the box sequence ---------------------------------------- *)
RECURSIVE ScanFrom(_, _, _)
ScanFrom(file, i, segs) ==
    IF i > Len(file) THEN segs
    ELSE LET k == file[i] IN
         IF k = "ftyp" \/ k = "moof" THEN ScanFrom(file, i + 1, Append(segs, [lo |-> i, hi |-> i]))
         ELSE IF k \in ExtendKinds /\ Len(segs) > 0
              THEN ScanFrom(file, i + 1, [segs EXCEPT ![Len(segs)].hi = i])
              ELSE ScanFrom(file, i + 1, segs)
Scan(file) == ScanFrom(file, 1, <<>>)

CountIn(file, seg, kind) == Cardinality({ i \in seg.lo..seg.hi : file[i] = kind })
FirstOf(file, kind) == CHOOSE i \in 1..Len(file) : file[i] = kind /\ \A j \in 1..(i - 1) : file[j] # kind

(* ---- what the rest of the service relies on ------------------------------------------- *)
\* the first segment is the initialization segment: it starts on ftyp, holds the moov and no movie fragment
X03_InitSegment(file, segs) ==
    Len(segs) > 0 /\ segs[1].lo = FirstOf(file, "ftyp") /\ CountIn(file, segs[1], "moov") = 1 /\ CountIn(file, segs[1], "moof") = 0
\* every later segment holds exactly one movie fragment with its media data
X03_OneFragmentPerSegment(file, segs) ==
    \A k \in 2..Len(segs) : CountIn(file, segs[k], "moof") = 1 /\ CountIn(file, segs[k], "mdat") = 1 /\ file[segs[k].lo] = "moof"
\* one segment per movie fragment of the file, in file order
X03_EveryFragmentIndexed(file, segs) ==
    Len(segs) = 1 + Cardinality({ i \in 1..Len(file) : file[i] = "moof" })
\* segments follow each other without gaps or overlaps from ftyp to the end of the file (what C06's byte ranges need)
X03_Tiles(file, segs) ==
    /\ \A k \in 1..(Len(segs) - 1) : segs[k + 1].lo = segs[k].hi + 1
    /\ Len(segs) > 0 => segs[Len(segs)].hi = Len(file)

(* ---- the file builder ----------------------------------------------------------------- *)
VARIABLES file, phase, nfrag
vars == <<file, phase, nfrag>>
Put(k) == file' = Append(file, k)

Init == file = <<>> /\ phase = "start" /\ nfrag = 0
LeadFree == phase = "start" /\ Put("free") /\ phase' = "ftyp" /\ UNCHANGED nfrag
Ftyp == phase \in {"start", "ftyp"} /\ Put("ftyp") /\ phase' = "moov" /\ UNCHANGED nfrag
FreeBeforeMoov == phase = "moov" /\ Put("free") /\ phase' = "moov2" /\ UNCHANGED nfrag
Moov == phase \in {"moov", "moov2"} /\ Put("moov") /\ phase' = "frag" /\ UNCHANGED nfrag
FreeAfterMoov == phase = "frag" /\ nfrag = 0 /\ Len(file) > 0 /\ file[Len(file)] = "moov" /\ Put("free") /\ UNCHANGED <<phase, nfrag>>
\* a fragment is written in one step: its optional head, moof, mdat, optional free
FragHead(styp, sidx, emsg) == (IF styp THEN <<"styp">> ELSE <<>>) \o (IF sidx THEN <<"sidx">> ELSE <<>>) \o (IF emsg THEN <<"emsg">> ELSE <<>>)
PlainHead(styp, sidx, emsg) == ~emsg /\ (styp => sidx)
Fragment ==
    /\ phase = "frag" /\ nfrag < MaxFragments
    /\ \E styp, sidx, emsg, tail \in BOOLEAN :
          /\ Loose \/ PlainHead(styp, sidx, emsg)
          /\ file' = file \o FragHead(styp, sidx, emsg) \o <<"moof", "mdat">> \o (IF tail THEN <<"free">> ELSE <<>>)
    /\ nfrag' = nfrag + 1 /\ UNCHANGED phase
Next == LeadFree \/ Ftyp \/ FreeBeforeMoov \/ Moov \/ FreeAfterMoov \/ Fragment
Spec == Init /\ [][Next]_vars

Complete == phase = "frag" /\ nfrag > 0
InitOk == Complete => X03_InitSegment(file, Scan(file))
OneFragment == Complete => X03_OneFragmentPerSegment(file, Scan(file))
AllIndexed == Complete => X03_EveryFragmentIndexed(file, Scan(file))
Tiles == Complete => X03_Tiles(file, Scan(file))
=============================================================================
