SPECIFICATION Spec2
CONSTANTS
  Q = 40
  Tier = "thorough"
  EMIT = FALSE
INVARIANT Agree
INVARIANT Forward
CHECK_DEADLOCK FALSE
