SPECIFICATION Spec
CONSTANTS
  Q = 40
  Tier = "thorough"
  EMIT = FALSE
INVARIANT C01_NumbersRetrievable
INVARIANT C01_TimesRetrievable
INVARIANT C02_TimelineGapless
INVARIANT C02_TimeExactAll
INVARIANT C02_NumberExactAll
INVARIANT C02_SourceAlignedAll
INVARIANT WindowCovered
CHECK_DEADLOCK FALSE
