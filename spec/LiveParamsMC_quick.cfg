SPECIFICATION Spec
CONSTANTS
  Tier = "quick"
  EMIT = FALSE
INVARIANT SingleClauses
INVARIANT Monotone
INVARIANT Stable
CHECK_DEADLOCK FALSE
