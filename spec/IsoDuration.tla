----------------------------- MODULE IsoDuration -----------------------------
(* Duration part of C19 (see IsoTime.tla): durations are [s, u], rendered fields [h, m, s, ms].   *)
(* Kept free of Prelude so that Apalache can check it over unbounded integers (IsoDurationApa).   *)
EXTENDS Integers
\* @typeAlias: dur = { s: Int, u: Int };
\* @typeAlias: fields = { h: Int, m: Int, s: Int, ms: Int };
IsoDuration_aliases == TRUE

\* ---- reference: round half up to milliseconds with carry --------------------
\* @type: ($dur) => Int;
RefMillis(x) == x.s * 1000 + ((x.u + 500) \div 1000)        \* only for x.s < 2 000 000
\* @type: ($dur) => $fields;
RefFields(x) ==
    LET ms0 == (x.u + 500) \div 1000
        s1  == IF ms0 >= 1000 THEN x.s + 1 ELSE x.s
        ms  == IF ms0 >= 1000 THEN ms0 - 1000 ELSE ms0
    IN  [h |-> s1 \div 3600, m |-> (s1 % 3600) \div 60, s |-> s1 % 60, ms |-> ms]

\* value of tokenised fields as [s, u]
\* @type: ($fields) => $dur;
FieldsValue(f) == [s |-> f.h * 3600 + f.m * 60 + f.s, u |-> f.ms * 1000]

\* |a - b| <= 500 us for durations [s, u]
\* @type: ($dur, $dur) => Bool;
Within500(a, b) ==
    LET ds == a.s - b.s IN
    /\ ds >= -1 /\ ds <= 1
    /\ LET diff == ds * 1000000 + (a.u - b.u) IN diff >= -500 /\ diff <= 500

\* ---- implementation level: toIsoDuration as written (after the carry fix) -------
\* @type: ($dur) => $fields;
ImplDurationFields(x) ==
    LET ms0 == (x.u + 500) \div 1000          \* int(frac * 1000 + 0.5)
        s1  == IF ms0 >= 1000 THEN x.s + 1 ELSE x.s
        ms  == IF ms0 >= 1000 THEN ms0 - 1000 ELSE ms0
    IN  [h |-> s1 \div 3600, m |-> (s1 % 3600) \div 60, s |-> s1 % 60, ms |-> ms]

\* ---- property level -------------------------------------------------------------
\* @type: ($dur, $dur) => Bool;
C19_DurationRoundTrip(x, parsed) == Within500(parsed, x)
\* @type: ($dur, $fields) => Bool;
C19_DurationTextValue(x, f) == Within500(FieldsValue(f), x)
\* @type: ($fields) => Bool;
C19_FieldsBelow60(f) == f.m >= 0 /\ f.m < 60 /\ f.s >= 0 /\ f.s < 60 /\ f.ms >= 0 /\ f.ms < 1000 /\ f.h >= 0
\* @type: ({ lex: Int }) => Bool;
C19_LexicalXsDuration(f) == f.lex = 1
=============================================================================
