----------------------------- MODULE BoxTreeTrace -----------------------------
(* {ev:"rt", file, atom, mode, eq}  {ev:"lazyeq", file, atom, eq}  {ev:"json", file, atom, eq, err}                      *)
(* {ev:"memsize", file, lazy, ops, ok, pairs:[[size attribute after the edits, encoded length]]}                          *)
(* {ev:"edit", file, ops, tops:[tree], total, reparse_eq, fields_ok}  {ev:"field", box, field, value_class, eq}           *)
EXTENDS BoxTree, TLC, Json, IOUtils
TraceLog == ndJsonDeserialize(IOEnv.TRACE_FILE)
VARIABLE l
Report(c, ok, detail) ==
    IF ok THEN TRUE
    ELSE PrintT(<<"V", ToJson([line |-> l, tid |-> TraceLog[l].tid, clause |-> c, detail |-> detail])>>)
Check(t) ==
    IF t.ev = "rt" THEN Report("C04_RoundTrip", t.eq = 1, [atom |-> t.atom, mode |-> t.mode])
    ELSE IF t.ev = "lazyeq" THEN Report("C04_LazyEqEager", t.eq = 1, [atom |-> t.atom])
    ELSE IF t.ev = "json" THEN Report("C04_JsonRoundTrip", t.eq = 1, [atom |-> t.atom])
    ELSE IF t.ev = "edit" THEN
        /\ Report("C04_SizesNest", C04_TopLevelTiles(t.tops, t.total), [ops |-> t.ops])
        /\ Report("C04_EditedTreeReparses", t.reparse_eq = 1 /\ t.fields_ok = 1, [ops |-> t.ops])
    ELSE IF t.ev = "memsize" THEN
        \* after insert / append / remove / move of boxes that have a size (parsed or encoded once), before any encode:
        \* the size every box object holds equals the length it encodes to
        Report("C04_SizeFieldEqEncodedLength", t.ok = 1 /\ \A i \in 1..Len(t.pairs) : t.pairs[i][1] = t.pairs[i][2],
               [ops |-> t.ops, bad |-> { t.pairs[i] : i \in { j \in 1..Len(t.pairs) : t.pairs[j][1] # t.pairs[j][2] } }])
    ELSE IF t.ev = "field" THEN Report("C04_FieldBoundaryRoundTrip", t.eq = 1, [box |-> t.box, field |-> t.field, vc |-> t.value_class])
    ELSE TRUE
TraceInit == l = 1
TraceNext == l <= Len(TraceLog) /\ Check(TraceLog[l]) /\ l' = l + 1
TraceSpec == TraceInit /\ [][TraceNext]_l
TraceAccepted == \/ TLCGet("stats").diameter - 1 = Len(TraceLog)
                 \/ Print(<<"TRACE_REJECTED", TLCGet("stats").diameter - 1, Len(TraceLog)>>, FALSE)
=============================================================================
