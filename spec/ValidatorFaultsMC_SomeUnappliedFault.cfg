SPECIFICATION Spec
CONSTANTS
  MaxLoops = 2
  MaxFetch = 2
INVARIANT SomeUnappliedFault
CHECK_DEADLOCK FALSE
