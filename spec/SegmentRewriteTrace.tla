------------------------- MODULE SegmentRewriteTrace -------------------------
(* {ev:"media", bug_saio, obs:{wf,trun_target,payload_start,sizes_ok,payload_ok,has_senc,saio_target,senc_first,senc_n_ok,       *)
(*   has_sidx, nemsg, piff_expected, has_piff}}                                                                                    *)
(* {ev:"init_refused", url, status, rep, mode}                                                                                     *)
(* {ev:"init", mode, encrypted, want_pssh:[system ids as strings], obs:{wf, same_except, pssh:[..], mehd_removed, had_mehd}}        *)
EXTENDS SegmentRewrite, TLC, Json, IOUtils, FiniteSets
TraceLog == ndJsonDeserialize(IOEnv.TRACE_FILE)
VARIABLE l
Report(c, ok, detail) ==
    IF ok THEN TRUE
    ELSE PrintT(<<"V", ToJson([line |-> l, tid |-> TraceLog[l].tid, clause |-> c, detail |-> detail])>>)
ToSet(s) == { s[i] : i \in 1..Len(s) }
CheckMedia(t) ==
    LET o == t.obs IN
    /\ Report("C03_WellFormed", C03_WellFormed(o), 0)
    /\ Report("C03_TrunPointsAtPayload", C03_TrunPointsAtPayload(o), [target |-> o.trun_target, payload |-> o.payload_start])
    /\ Report("C03_SampleSizesSum", C03_SampleSizesSum(o), 0)
    /\ Report("C03_PayloadIdentical", C03_PayloadIdentical(o), 0)
    /\ Report("C03_SaioPointsAtSenc", C03_SaioPointsAtSenc(o, t.bug_saio = 1), [target |-> o.saio_target, senc |-> o.senc_first])
    /\ Report("C03_SencCountEqTrun", C03_SencCountEqTrun(o), 0)
    /\ Report("C03_SidxRemoved", o.has_sidx = 0, 0)
    /\ Report("C03_PiffAsRequested", o.has_piff = t.piff_expected, [has |-> o.has_piff, want |-> t.piff_expected])
\* C10: the init segment differs from the stored one only by appended pssh boxes (one per selected
\* system that defines init data and has `moov` among its locations) and the removal of mehd (live)
CheckInit(t) ==
    LET o == t.obs IN
    /\ Report("C10_WellFormed", o.wf = 1, 0)
    /\ Report("C10_OnlyPsshAndMehdDiffer", o.same_except = 1, o.diff)
    /\ Report("C10_PsshSystems", ToSet(o.pssh) = ToSet(t.want_pssh) /\ Len(o.pssh) = Cardinality(ToSet(o.pssh)),
              [got |-> o.pssh, want |-> t.want_pssh])
    /\ Report("C10_PsshKidsAndPayload", o.pssh_ok = 1, 0)
    /\ Report("C10_MehdRemovedInLiveOnly", o.mehd_removed = (IF t.mode = "live" /\ o.had_mehd = 1 THEN 1 ELSE 0),
              [mode |-> t.mode, removed |-> o.mehd_removed, had |-> o.had_mehd])
    /\ Report("C10_ClearUntouched", (t.encrypted = 0) => Len(o.pssh) = 0, 0)
\* an initialization segment of a stored representation, requested with a DRM selection the service accepts, is answered
Check(t) == IF t.ev = "media" THEN CheckMedia(t) ELSE IF t.ev = "init" THEN CheckInit(t)
            ELSE IF t.ev = "init_refused" THEN Report("C10_InitServed", FALSE, [status |-> t.status])
            \* a stored segment, requested by its own number / decode time with options the service accepts, is answered with a
            \* segment: a server error in its place is not a well-formed box stream
            ELSE IF t.ev = "refused" /\ t.status >= 500 THEN Report("C03_WellFormed", FALSE, [status |-> t.status, served |-> "error page"])
            ELSE TRUE
TraceInit == l = 1
TraceNext == l <= Len(TraceLog) /\ Check(TraceLog[l]) /\ l' = l + 1
TraceSpec == TraceInit /\ [][TraceNext]_l
TraceAccepted == \/ TLCGet("stats").diameter - 1 = Len(TraceLog)
                 \/ Print(<<"TRACE_REJECTED", TLCGet("stats").diameter - 1, Len(TraceLog)>>, FALSE)
=============================================================================
