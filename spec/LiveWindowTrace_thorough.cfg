SPECIFICATION TraceSpec
CONSTANTS
  Q = 40
  Tier = "thorough"
  EMIT = FALSE
POSTCONDITION TraceAccepted
CHECK_DEADLOCK FALSE
