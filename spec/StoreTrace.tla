----------------------------- MODULE StoreTrace -----------------------------
(* One line per management operation on the real service (tid = history):        *)
(*  {tid, step, op, arg, status, applied, state:{streams,files,blobs,keys,links,  *)
(*   mps,periods,adps} (arrays), serve:[{kind,name,status}], back_ok}             *)
(* The state of the previous line of the same history is the pre-state.           *)
EXTENDS Store, TLC, Json, IOUtils
TraceLog == ndJsonDeserialize(IOEnv.TRACE_FILE)
VARIABLE l
Report(c, ok, detail) ==
    IF ok THEN TRUE
    ELSE PrintT(<<"V", ToJson([line |-> l, tid |-> TraceLog[l].tid, clause |-> c, detail |-> detail])>>)
ToSet(s) == { s[i] : i \in 1..Len(s) }
St(t) == [streams |-> ToSet(t.state.streams), files |-> ToSet(t.state.files), blobs |-> ToSet(t.state.blobs),
          keys |-> ToSet(t.state.keys), links |-> ToSet(t.state.links), mps |-> ToSet(t.state.mps),
          periods |-> ToSet(t.state.periods), adps |-> ToSet(t.state.adps), errors |-> ToSet(t.state.errors)]
Check(t) ==
    LET b == St(t) IN
    /\ Report("C17_FileHasStreamAndBlob", C17_FileHasStreamAndBlob(b), t.op)
    /\ Report("C17_KeyLinksExist", C17_KeyLinksExist(b), t.op)
    /\ Report("C17_PeriodsPointAtRows", C17_PeriodsPointAtRows(b), t.op)
    /\ Report("C17_AdaptationSetsPointAtRows", C17_AdaptationSetsPointAtRows(b), t.op)
    /\ Report("C17_TimingReferenceExists", C17_TimingReferenceExists(b), t.op)
    /\ Report("C17_NamesUnique", C17_NamesUnique(b), t.op)
    /\ \A i \in 1..Len(t.serve) :
         Report("C17_ListedServesOr4xx", t.serve[i].status < 500, t.serve[i])
    /\ Report("C17_UploadedServedBack", t.back_ok # 0, t.op)
    /\ (l > 1 /\ TraceLog[l - 1].tid = t.tid) =>
         Report("C17_DeleteRemovesExactlyOwned", C17_DeleteDoesNotCrash(St(TraceLog[l - 1]), t.op, t.pk, t.status),
                [op |-> t.op, status |-> t.status, kind |-> "deletion of an existing object answered 5xx"])
    \* editing a multi-period stream (its name in particular): names stay unique because a name in use is *refused*, not
    \* because the database's constraint turns the commit into a server error; an edit removes no rows
    /\ (l > 1 /\ TraceLog[l - 1].tid = t.tid /\ t.op = "rename_mps") =>
         LET a == St(TraceLog[l - 1]) IN
         /\ Report("C17_NamesUnique", t.status < 500,
                   [op |-> t.op, from |-> t.a, to |-> t.b, status |-> t.status, kind |-> "edit of a multi-period stream answered 5xx"])
         /\ Report("C17_NamesUnique",
                   (t.applied = 1 /\ t.a # t.b) => (\A m \in a.mps : m.name # t.b) /\ (\E m \in b.mps : m.name = t.b /\ m.pk = t.pk),
                   [op |-> t.op, from |-> t.a, to |-> t.b, kind |-> "accepted rename to a name in use / not carried out"])
         /\ Report("C17_DeleteRemovesExactlyOwned",
                   Pks(a.mps) = Pks(b.mps) /\ a.periods = b.periods /\ a.streams = b.streams /\ a.files = b.files /\ a.blobs = b.blobs,
                   [op |-> t.op, kind |-> "an edit removed or created rows"])
    \* creating a stream under a directory that is already in use creates nothing and removes nothing (names stay unique;
    \* no operation but a deletion removes rows): whatever the answer, streams, files and blobs are as before
    /\ (l > 1 /\ TraceLog[l - 1].tid = t.tid /\ t.op = "add_stream") =>
         LET a == St(TraceLog[l - 1]) IN
         (\E x \in a.streams : x.dir = t.a) =>
             Report("C17_DeleteRemovesExactlyOwned", a.streams = b.streams /\ a.files = b.files /\ a.blobs = b.blobs,
                    [op |-> t.op, kind |-> "create with a directory in use changed existing rows", status |-> t.status])
    /\ (l > 1 /\ TraceLog[l - 1].tid = t.tid /\ t.applied = 1) =>
         LET a == St(TraceLog[l - 1]) IN
         /\ (t.op = "delete_stream" => Report("C17_DeleteRemovesExactlyOwned", C17_DeleteStreamExact(a, b, t.pk), t.op))
         /\ (t.op = "delete_media" => Report("C17_DeleteRemovesExactlyOwned", C17_DeleteMediaExact(a, b, t.pk), t.op))
         /\ (t.op = "delete_key" => Report("C17_DeleteRemovesExactlyOwned", C17_DeleteKeyExact(a, b, t.pk), t.op))
         /\ (t.op = "delete_mps" => Report("C17_DeleteRemovesExactlyOwned", C17_DeleteMpsExact(a, b, t.pk), t.op))
         /\ (t.op \in {"upload", "upload_raw", "add_stream"} =>
                Report("C17_DeleteRemovesExactlyOwned", C17_UploadTouchesOnlyItsStream(a, b, t.pk), t.op))
TraceInit == l = 1
TraceNext == l <= Len(TraceLog) /\ Check(TraceLog[l]) /\ l' = l + 1
TraceSpec == TraceInit /\ [][TraceNext]_l
TraceAccepted == \/ TLCGet("stats").diameter - 1 = Len(TraceLog)
                 \/ Print(<<"TRACE_REJECTED", TLCGet("stats").diameter - 1, Len(TraceLog)>>, FALSE)
=============================================================================
