SPECIFICATION Spec
CONSTANTS
  Q = 40
  Tier = "thorough"
  EMIT = TRUE
INVARIANT Emit
CHECK_DEADLOCK FALSE
