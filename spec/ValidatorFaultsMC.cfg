SPECIFICATION Spec
CONSTANTS
  MaxLoops = 3
  MaxFetch = 3
INVARIANT TypeOK
INVARIANT C18_NoFalsePositive
INVARIANT C18_Detects
INVARIANT NoFaultNoTaint
INVARIANT TaintImpliesApplied
INVARIANT VodSingleLoop
PROPERTY SingleFault
PROPERTY Terminates
CHECK_DEADLOCK FALSE
