SPECIFICATION Spec
CONSTANTS
  Q = 40
  Tier = "quick"
INVARIANT MediaOk
INVARIANT VodOk
INVARIANT LiveOk
CHECK_DEADLOCK FALSE
