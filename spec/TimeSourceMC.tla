----------------------------- MODULE TimeSourceMC -----------------------------
(* Design level: (1) the week-date and NTP operators of TimeSource against their defining laws, day by day over     *)
(* 1969..2101; (2) a client session - manifest with (method, drift), then syncs against the advertised source at    *)
(* later instants: its idea of the time is always the service's clock minus the drift it asked for, whatever the    *)
(* interleaving of ticks, other clients' requests and re-syncs.                                                     *)
EXTENDS TimeSource, TLC

CONSTANTS DayLo, DayHi, Drifts, MaxClock,
          Sweep        \* TRUE: only the day sweep (1); FALSE: only the session (2)

VARIABLES day,        \* sweep over day numbers (1)
          clock,      \* (2) the service's clock, seconds
          client      \* (2) [c -> [method, drift, est, synced]]
vars == <<day, clock, client>>
DayLoV == 0 - 366
DriftsV == {0, 10, 0 - 3}
Clients == {"a", "b"}

Init == /\ day = DayLo /\ clock = 0
        /\ client = [c \in Clients |-> [method |-> "none", drift |-> 0, est |-> 0, synced |-> FALSE]]
NextDay == day < DayHi /\ day' = day + 1 /\ UNCHANGED <<clock, client>>
Tick == clock < MaxClock /\ clock' = clock + 1 /\ UNCHANGED <<day, client>>
\* the manifest names the source and (for direct) is itself a sync
GetManifest(c, m, d) ==
    /\ client' = [client EXCEPT ![c] = [method |-> m, drift |-> d,
                                         est |-> IF m = "direct" THEN clock - d ELSE @.est,
                                         synced |-> (m = "direct")]]
    /\ UNCHANGED <<day, clock>>
\* following the advertised URL: it carries the drift of the manifest it came from
Sync(c) ==
    /\ client[c].method \in HttpMethods
    /\ client' = [client EXCEPT ![c].est = clock - client[c].drift, ![c].synced = TRUE]
    /\ UNCHANGED <<day, clock>>
\* a synced client's own clock runs with the service's
ClientTick == /\ clock < MaxClock /\ clock' = clock + 1
              /\ client' = [k \in Clients |-> IF client[k].synced THEN [client[k] EXCEPT !.est = @ + 1] ELSE client[k]]
              /\ UNCHANGED day
Next == IF Sweep THEN NextDay ELSE
        \/ ClientTick
        \/ (\E c \in Clients, m \in HttpMethods \cup {"direct"}, d \in Drifts : GetManifest(c, m, d))
        \/ (\E c \in Clients : Sync(c))
Spec == Init /\ [][Next]_vars

\* (1) laws of the operators
WeekdayCycles == Weekday(day + 1) = (Weekday(day) % 7) + 1
IsoWeekLaws ==
    LET w == IsoWeek(day)
        cv == CivilFromDays(day)
        n == IsoWeek(day + 1)
    IN  /\ w.ww \in 1..53 /\ w.wd \in 1..7
        /\ w.wy \in {cv.y - 1, cv.y, cv.y + 1}
        /\ (cv.m = 1 /\ cv.d = 4) => (w.ww = 1 /\ w.wy = cv.y)             \* 4 January is always in week 1
        /\ (cv.m = 12 /\ cv.d = 28) => (w.ww \in {52, 53} /\ w.wy = cv.y)   \* 28 December is always in the last week
        /\ \/ (n.wy = w.wy /\ n.ww = w.ww /\ n.wd = w.wd + 1)            \* the next day is the next week-day ...
           \/ (n.wy = w.wy /\ n.ww = w.ww + 1 /\ w.wd = 7 /\ n.wd = 1)  \* ... or Monday of the next week ...
           \/ (n.wy = w.wy + 1 /\ n.ww = 1 /\ w.wd = 7 /\ n.wd = 1 /\ w.ww \in {52, 53})   \* ... or of week 1 of the next year
CivilRoundTrip == LET cv == CivilFromDays(day) IN DaysFromCivil(cv.y, cv.m, cv.d) = day
NtpLaws ==
    LET a == NtpSeconds(Inst(day, 86399, 0))
        b == NtpSeconds(Inst(day + 1, 0, 0))
    IN  /\ a.hi \in 0..65535 /\ a.lo \in 0..65535
        /\ \/ (b.hi = a.hi /\ b.lo = a.lo + 1)
           \/ (b.lo = 0 /\ a.lo = 65535 /\ b.hi = (a.hi + 1) % 65536)
NtpEpochs ==
    /\ NtpSeconds(Inst(0, 0, 0)) = [hi |-> 33706, lo |-> 32384]    \* 1970-01-01 = 2 208 988 800 = 33706 * 65536 + 32384
    /\ NtpSeconds(Inst(DaysFromCivil(2036, 2, 7), 6 * 3600 + 28 * 60 + 16, 0)) = [hi |-> 0, lo |-> 0]   \* era roll-over
FracLaws == /\ NtpFracHi(0) = 0 /\ NtpFracHi(500000) = 32768 /\ NtpFracHi(999999) = 65535 /\ NtpFracHi(250000) = 16384
\* (2) the session
ClientSeesShiftedClock == \A c \in Clients : client[c].synced => client[c].est = clock - client[c].drift
=============================================================================
