------------------------------- MODULE Scte35 -------------------------------
(***************************************************************************)
(* Independent reader of the splice_info_section layout produced for        *)
(* splice_insert commands (ANSI/SCTE 35 9.6, 9.7.3) on a byte sequence,    *)
(* and CRC-32/MPEG-2 (poly 0x04C11DB7, init 0xFFFFFFFF, no reflection, no  *)
(* final xor) computed on 16-bit limbs - TLC integers are 32 bits wide.    *)
(* 33-bit fields are returned as [hi, mid, lo] = [bit 32, bits 31..16,     *)
(* bits 15..0].                                                            *)
(***************************************************************************)
EXTENDS Integers, Sequences, Bitwise

\* ---- CRC-32/MPEG-2 on a pair of 16-bit limbs [h, l] ---------------------------
PolyH == 1217        \* 0x04C1
PolyL == 7607        \* 0x1DB7
Shl1(c) == [h |-> ((c.h * 2) % 65536) + (c.l \div 32768), l |-> (c.l * 2) % 65536]
CrcStep(c) ==        \* one bit: if the top bit is set shift and xor the polynomial, else shift
    IF c.h >= 32768
    THEN LET s == Shl1(c) IN [h |-> s.h ^^ PolyH, l |-> s.l ^^ PolyL]
    ELSE Shl1(c)
RECURSIVE CrcBits(_, _)
CrcBits(c, n) == IF n = 0 THEN c ELSE CrcBits(CrcStep(c), n - 1)
CrcByte(c, b) == CrcBits([h |-> c.h ^^ (b * 256), l |-> c.l], 8)
RECURSIVE CrcFrom(_, _, _)
CrcFrom(bytes, i, c) == IF i > Len(bytes) THEN c ELSE CrcFrom(bytes, i + 1, CrcByte(c, bytes[i]))
Crc32Mpeg2(bytes) == CrcFrom(bytes, 1, [h |-> 65535, l |-> 65535])
\* a section is valid iff the CRC over the whole section (including its CRC_32 field) is zero
CrcValid(bytes) == Crc32Mpeg2(bytes) = [h |-> 0, l |-> 0]

\* ---- fields (1-based byte indices; b(i) is byte i-1 of the section) --------------------
B(s, i) == s[i + 1]
U16(s, i) == B(s, i) * 256 + B(s, i + 1)
U33(s, i) == [hi |-> B(s, i) % 2, mid |-> U16(s, i + 1), lo |-> U16(s, i + 3)]
TableId(s) == B(s, 0)
SectionLength(s) == (B(s, 1) % 16) * 256 + B(s, 2)
CommandType(s) == B(s, 13)
\* splice_insert() starts at byte 14
EventId(s) == [mid |-> U16(s, 14), lo |-> U16(s, 16)]
CancelIndicator(s) == B(s, 18) \div 128
OutOfNetwork(s) == B(s, 19) \div 128
ProgramSpliceFlag(s) == (B(s, 19) \div 64) % 2
DurationFlag(s) == (B(s, 19) \div 32) % 2
ImmediateFlag(s) == (B(s, 19) \div 16) % 2
TimeSpecified(s) == B(s, 20) \div 128
Pts(s) == U33(s, 20)
AutoReturn(s) == B(s, 25) \div 128
BreakDuration(s) == U33(s, 25)
UniqueProgramId(s) == U16(s, 30)
AvailNum(s) == B(s, 32)
AvailsExpected(s) == B(s, 33)

WellFormedSpliceInsert(s) ==
    /\ Len(s) >= 40
    /\ TableId(s) = 252
    /\ SectionLength(s) = Len(s) - 3
    /\ CommandType(s) = 5
    /\ CancelIndicator(s) = 0 /\ ProgramSpliceFlag(s) = 1 /\ DurationFlag(s) = 1 /\ ImmediateFlag(s) = 0
    /\ TimeSpecified(s) = 1
    /\ CrcValid(s)

Limbs33(v) == [hi |-> 0, mid |-> v \div 65536, lo |-> v % 65536]      \* for 0 <= v < 2^31
=============================================================================
