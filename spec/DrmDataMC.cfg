SPECIFICATION Spec
INVARIANT ClearKeyOk
INVARIANT CpOk
INVARIANT GuidInvolution
CHECK_DEADLOCK FALSE
