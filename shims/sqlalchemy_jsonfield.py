"""Stand-in for sqlalchemy-jsonfield (absent in this sandbox): a Text column holding JSON.
Same observable behaviour as the real package for dict / list / None values."""
import json as _json

from sqlalchemy.types import TypeDecorator, Text


class JSONField(TypeDecorator):
    impl = Text
    cache_ok = True

    def __init__(self, enforce_string=False, enforce_unicode=False, json=_json, json_type=None,
                 **kwargs):
        super().__init__()
        self._json = json
        self._enforce_unicode = enforce_unicode

    def process_bind_param(self, value, dialect):
        if value is None:
            return None
        return self._json.dumps(value, ensure_ascii=not self._enforce_unicode)

    def process_result_value(self, value, dialect):
        if value is None:
            return None
        if isinstance(value, (dict, list)):
            return value
        return self._json.loads(value)
