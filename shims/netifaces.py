"""Stand-in for netifaces (absent in this sandbox). Only used by create_app(wss=True) in
debug mode to compute CORS origins; the harness never starts the websocket server."""
AF_INET = 2


def interfaces() -> list:
    return []


def ifaddresses(name) -> dict:
    return {}
