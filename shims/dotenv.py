"""Stand-in for python-dotenv (absent in this sandbox). The harness always passes an
explicit config to create_app(), so load_dotenv is never relied on."""


def load_dotenv(*args, **kwargs) -> bool:
    return False
