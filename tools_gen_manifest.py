#!/usr/bin/env python3
"""Regenerates MANIFEST.json from the table below (single place to edit)."""
import json
from pathlib import Path

HERE = Path(__file__).resolve().parent

LW_NOTE = ('Trusted: TLC; /verif/shims for four absent third-party modules; patched datetime clock (upstream mock_time technique); '
           'independent ISO-BMFF walker and lxml MPD projection; rebasing of >31-bit numbers by the projection. Small scope: 6 layouts '
           'over a 20 s reference on a 1/40 s clock grid; HTTP level: bbb fixture stream, seeded (template, options, clock) vectors.')

CHECKS = {
    'C01': dict(
        technique='TLA+ spec LiveWindow.tla: TLC over every (layout, options, clock) state of the implementation-shaped model; every '
                  'state replayed on the real timing layer; real manifests + all advertised segments fetched over HTTP; TLC trace validation',
        text='TLC checks exhaustively in small scope that everything a manifest advertises (DASH 5.3.9.5.3 window computed from manifest '
             'attributes only) is served by the implementation-shaped model; each model state is replayed on the real DashTiming/'
             'Representation/LiveMedia code and validated by TLC (LiveWindowTrace, incl. model-vs-code drift); at real scale every '
             'advertised init/media URL of real manifests is fetched at the same clock and judged by TLC (LiveWindowHttpTrace).',
        note=LW_NOTE, design='4 C01'),
    'C02': dict(
        technique='TLA+ spec LiveWindow.tla (C02 clauses): TLC design-level check + pure-layer replay + HTTP responses projected by an '
                  'independent MP4 walker, validated by TLC',
        text='Same pipeline as C01; clauses C02_TimeExact, C02_NumberExact, C02_Gapless, C02_SourceAligned are evaluated by TLC on every '
             'served segment (tfdt, mfhd sequence number, summed sample durations, payload identity, position modulo the reference duration).',
        note=LW_NOTE + ' Known finding C02-drift-duration is matched by a narrow signature (known_findings.json).', design='4 C02'),
    'C03': dict(
        technique='TLA+ spec SegmentRewrite.tla (box layout + pointer fix-ups of the two-pass encoder): TLC over all edit subsets x layouts; '
                  'real segments for DRM/PIFF/events/bugs/addressing vectors walked independently and judged by TLC',
        text='TLC checks for every combination of tfdt insertion / 64-bit flip, emsg insertion, PIFF insertion, explicit base offset, IV size and '
             'the saio bug option that trun.data_offset and saio.offset resolve to the payload / first senc entry after the encoder\'s '
             'fix-ups; every fixture representation is then requested with DRM system x location subsets, PlayReady version/PIFF, event '
             'schedules, bugs=saio, by number, by time and in live mode 54 years after the epoch, and TLC evaluates well-formedness, pointer, '
             'sample-size, senc-count and payload-identity clauses on the independent projection of every response.',
        note='Trusted: TLC, the independent ISO-BMFF walker and stored-file scan, the PlayReady object reader. Stored segment kinds are those of the fixture media; other layouts (no tfdt, explicit base offset, 16-byte IV) are covered at design level only.', design='4 C03'),
    'C04': dict(
        technique='TLA+ spec BoxTree.tla (recursive size nesting; edit machine): TLC on edit sequences; every fixture tree parsed eagerly / lazily / '
                  'read-only and re-encoded, JSON round trips, seeded edit sequences and boundary values; results walked independently and judged by TLC',
        text='TLC checks that after every edit sequence (width-changing field assignment, append, insert, remove; depth 4) the encoded tree nests '
             'exactly; all fixture files (as whole trees and as per-fragment windows) are parsed in three modes and re-encoded byte for byte, '
             'eager and lazy field values and JSON round trips are compared, real trees are edited through the public API and the encoded '
             'result is walked by the independent reader whose tree TLC checks recursively (sizes nest, top level tiles the buffer), and '
             'boundary values of mfhd, tfdt, emsg and pssh are round-tripped; legal byte values are written into stored leaf boxes, an '
             'empty box is inserted as first / last child of every container of every stored moov, and every header form (compact, '
             'size 0, largesize, uuid) is round-tripped.',
        note='Trusted: TLC, the independent walker. This property is the least natural for TLA+: the spec decides structure and sizes; byte '
             'equality is computed by the harness. Box classes without a fixture are listed in the evidence (box_classes_not_in_fixtures). Known findings: the encoder normalises '
             'size-0 and largesize headers to the compact form.',
        design='4 C04'),
    'C05': dict(
        technique='TLA+ spec MpdRules.tla (structural MPD rules over a projected tree): rules checked by TLC against a catalogue of broken '
                  'trees (vacuity) and on the projection of every real manifest / patch; hostile-string skeleton comparison',
        text='Every template x supported mode x single/multi-period x option vector is requested, parsed strictly with lxml and projected to a '
             'tree (attribute kinds, lexical validity and template identifiers decided by the projection); TLC evaluates required attributes, '
             'lexical/non-negative values, id uniqueness, non-empty AdaptationSets and template identifiers, and for hostile strings injected '
             'through stored titles, licence URLs and query values it compares the element skeleton with that of the benign document.',
        note='Trusted: TLC, lxml, the XSD lexical regular expressions of the projection. Each rule is shown to reject a deliberately broken tree.',
        design='4 C05'),
    'C06': dict(
        technique='TLA+ spec LiveWindow.tla static mode: TLC over all layouts (C06 invariants) + pure-layer replay + every static '
                  'manifest walked end to end over HTTP (numbers, timeline entries, SegmentList ranges, one past the end), TLC trace validation',
        text='TLC checks the static-mode model (timeline = stored track, every number/time served, next refused) for every layout; '
             'the same layouts run on the real code; for every vod/odvod template and option vector the real manifest is walked end '
             'to end, every enumerated segment and byte range fetched and compared with an independent scan of the stored file, and '
             'TLC evaluates the C06 clauses on each walk.',
        note=LW_NOTE + ' N is read as the stored segment count; fixture streams bbb and tears.', design='4 C06'),
    'C07': dict(
        technique='TLA+ spec Options.tla (forwarding and non-forwarding clauses over a registry generated from the code): TLC on the forwarding '
                  'rule; real manifests whose init/media URL queries are re-parsed by the media endpoint\'s own parser; codec round trips; TLC trace validation',
        text='The option registry (55 options today) is discovered at check time; every option x value class singly, plus seeded subsets, is '
             'given to the manifest endpoint; for every AdaptationSet the initialization and media URL templates are re-parsed in a request '
             'context of the media route and TLC compares, per influencing option and media type, the value the manifest resolved with the '
             'value the media endpoint obtains, checks that no option outside a media type\'s usage mask appears in its URLs, and checks '
             'from_string(to_string(v)) = v for every option and value class.',
        note='Trusted: TLC, lxml; both sides are parsed with the server\'s own option parser (the property is agreement between the two '
             'endpoints). Options without value classes in checks/c07.py are listed in the evidence (options_without_value_classes).',
        design='4 C07'),
    'C08': dict(
        technique='TLA+ spec LiveParams.tla (integer civil calendar): TLC over a calendar grid x start x depth x mup; every state '
                  'replayed on the real DashTiming and through rendered manifests; TLC trace validation incl. relational clauses',
        text='TLC checks every C08 clause on the implementation-shaped model of calculate_live_params over instants around day, month, '
             'year, leap-day and century boundaries (+-1 us) for every start kind, depth and update period; each state runs on the real '
             'DashTiming, a sample through real manifests, and TLC validates the recorded outputs (single-state and successive-instant clauses).',
        note='Trusted: TLC, shims, patched clock, lxml projection of MPD attributes. Explicit starts are whole seconds; epoch is combined '
             'only with instants before 2038. Known finding C08-publish-regress matched by signature.', design='4 C08'),
    'C09': dict(
        technique='TLA+ spec Refresh.tla over LiveWindow: TLC on timelines at e and e+delta; pure-layer pairs and real manifest/patch '
                  'documents (patch applied by an independent XML-patch applier) validated by TLC; system-level PlayerSession.tla '
                  '(ideal server + player, TLC safety and liveness) with real player sessions validated by PlayerSessionTrace',
        text='TLC checks on the implementation-shaped timeline model that manifests at e and e+delta agree on common segments and that '
             'the window only moves forward for every layout, option set and delta of the grid; the same clauses (plus publishTime / '
             'availabilityStartTime monotonicity) are evaluated on pairs from the real timing layer and from real manifests, and for '
             'patches the T1 document is patched with the response to its PatchLocation at T2 and compared with the full T2 manifest. '
             'A player model (refresh / fetch in order / skip, weak fairness) is checked by TLC against an ideal server, and real player '
             'sessions over the HTTP layer (seeded waits, SegmentTimeline templates) are validated line by line: gapless timelines, '
             'window and publishTime only forward, common segments agree, listed ended segments served, served time exact.',
        note='Trusted: TLC, lxml, the minimal replace-only XML-patch applier. Known finding C09-patch-symbolic-start-rollover.', design='4 C09'),
    'C10': dict(
        technique='TLA+ trace spec SegmentRewriteTrace.tla (C10 clauses) + decision of expected pssh systems from the DRM selection; real init '
                  'segments diffed box by box against the stored init segment',
        text='For every fixture representation x DRM selection (every subset of systems x locations, all, none) x PlayReady version x '
             'live/vod x single- and multi-period init route the response is rebuilt without the appended pssh boxes and compared byte by '
             'byte with the stored init segment (minus mehd in live mode); TLC checks that exactly the expected systems appended a pssh, that '
             'ClearKey pssh key ids / the PlayReady object name the track KID, that mehd is removed in live mode only and clear tracks are untouched.',
        note='Trusted: TLC, the independent ISO-BMFF walker and stored-file scan, the PlayReady object reader. Stored segment kinds are those of the fixture media; other layouts (no tfdt, explicit base offset, 16-byte IV) are covered at design level only.', design='4 C10'),
    'C11': dict(
        technique='TLA+ spec DrmData.tla: GUID permutation, PlayReady key-seed derivation and WRMHEADER checksum written in TLA+ with SHA-256 / '
                  'AES-128 as IOExec oracles; ClearKey and ContentProtection decision tables model-checked; real helpers, /clearkey endpoint '
                  'and manifests validated by TLC',
        text='TLC checks the ClearKey response rule and the ContentProtection decision table exhaustively in small scope; the real GUID / '
             'content-key / PlayReady-object generators are run on one-hot and random key ids, seeds of 30..64 bytes, WRMHEADER 4.0-4.3 and '
             'licence URLs with reserved characters, the real /clearkey endpoint on mixes of known/unknown/duplicate ids, and every DRM '
             'selection through real manifests and init segments; TLC recomputes keys and checksums from the spec\'s own derivation and '
             'compares kid / LA_URL / checksum read back by an independent PlayReady-object reader, default_KID and manifest-vs-init pssh identity.',
        note='Trusted: TLC, hashlib SHA-256 and a pure-Python AES-128 (FIPS-197 self-test) as primitives, the PRO reader, base64.', design='4 C11'),
    'C12': dict(
        technique='TLA+ spec MultiPeriod.tla over LiveWindow: TLC on period tiling (vod, live loop) and period-relative segment mapping; real '
                  'multi-period manifests and /mps media responses compared with stored files, validated by TLC',
        text='TLC checks for every source offset, period list, clock and depth of the grid that listed Periods are contiguous, cover the '
             'time-shift window, have unique ids, and that number n maps to the n-th source segment from the one nearest the Period offset with '
             'decode times from zero and 404 beyond the source; three multi-period definitions over the fixture streams are then requested '
             '(vod, live at several clocks), every admitted number, one past the source end and the init segments fetched, and TLC judges '
             'the projections (payload identity by the independent walker).',
        note='Trusted: TLC, lxml, walker/stored scan. $Number$ addressing only (as the property states); period offsets outside the last half of the last source segment.',
        design='4 C12'),
    'C13': dict(
        technique='TLA+ spec HttpRange.tla (RFC 7233 single-range semantics): TLC exhaustive small scope + Apalache over unbounded integers; emitted table replayed on the '
                  'real get_http_range; real range requests on every range-capable URL kind; TLC trace validation',
        text='TLC enumerates every header shape with every integer 0..8 in every position against lengths 1..6, checks totality of the '
             'RFC outcome classes and that the implementation-shaped model satisfies every clause; the table (plus large-length boundary '
             'rows) runs on the real get_http_range, and real media-segment / on-demand URLs are requested with header families around '
             '0, L/2, L-1, L, L+1, 2L and malformed strings; TLC judges every response (status, Content-Range, body = slice).',
        note='Trusted: TLC; the RFC 7233 grammar classifier (regex) and the body/slice comparison in the projection. Init segments are out of scope.',
        design='4 C13'),
    'C19': dict(
        technique='TLA+ spec IsoTime.tla / IsoDuration.tla (integer reference for ms rounding with carry, civil calendar, long-division timecode reference; the rounding also checked over unbounded integers with Apalache): '
                  'TLC over every fraction in scope; real rendering/parsing results tokenised and validated by TLC',
        text='TLC checks that the integer reference (and the implementation-shaped model) keeps every rendered duration within 500 us with '
             'fields below 60 for every ms boundary +-1 us (all 10^6 fractions in thorough); the real toIsoDuration / from_isodatetime / '
             'to_iso_datetime / timecode helpers are run on the same grid (timedelta, float and str inputs, offsets -12:00..+14:00, '
             'timescales 1..10^7) and TLC evaluates round-trip, field-range, text-value, inverse and monotonicity clauses on every result.',
        note='Trusted: TLC; regex tokenisation and lexical xs:duration/xs:dateTime classification in the projection. Durations >= 0.',
        design='4 C19'),
    'C15': dict(
        technique='TLA+ spec Auth.tla: TLC exhaustive CSRF life-cycle machine (issue/use/reuse/cross-service/cross-cookie/tamper/restart); '
                  'graph walks replayed on the real app incl. real restarts; full route x method x role sweep with state digests; TLC trace validation',
        text='TLC explores every interleaving of CSRF issue/present/tamper/restart in small scope; scripted and seeded walks through that '
             'graph run on the real application (two cookie jars, real endpoints, create_app over the same SQLite file for Restart) with '
             'acceptance observed through the csrf_check hook; every route of the live routing table is requested with every method, role '
             'and parameter variant while the SHA-256 of all tables and the blob listing is compared; TLC evaluates '
             'C15_ChangeImpliesAuthorised and the four CSRF clauses on every line.',
        note='Trusted: TLC; flask_login stand-in (session protocol only); the role oracle in spec/Auth.tla; sqlite3 digests. The vacuity '
             'guard lists which mutating routes were shown to change state for an authorised role (evidence: sweep_effective_route_methods).',
        design='4 C15'),
    'C16': dict(
        technique='TLA+ spec Injection.tla: TLC exhaustive session-counter machine; injection walks with two cookie jars replayed on the real '
                  'service; generated robustness grid (route class x registered option x value class x stream class, MP4 mutations) judged by TLC',
        text='TLC explores every request sequence (depth 6, 2 clients, 3 positions, 6 injection specifications, failure count absent/1/2) of '
             'the implementation-shaped counter machine against the property-level clauses; the same specifications are driven through '
             'real video/audio/text/manifest requests and validated (clauses + model drift); a grid generated from the live option registry '
             'and broken streams / mutated MP4 input (top-level and nested size edits, dense truncations, bit flips, size-0 last box; parser '
             'in lazy and eager mode and the upload / index / inspect endpoints) is sent with exception propagation off under a wall-clock cap '
             'and TLC judges every status.',
        note='Trusted: TLC, shims, the SIGALRM wall-clock cap. The open-ended half of the property is exploration over a generated grid, not '
             'a proof (level_note in DESIGN.md section 7). Remaining 500s are listed one by one in known_findings.json by exception type and call site.',
        design='4 C16'),
    'C17': dict(
        technique='TLA+ spec Store.tla/StoreMC.tla: TLC over all management histories to depth 7 on the implementation-shaped abstract store; '
                  'scripted + seeded histories through the real HTTP management API with the SQLite rows projected after every step; TLC trace validation',
        text='TLC explores every history of add/delete stream, upload(+index), delete media, set timing reference, add/delete key, add/delete '
             'multi-period stream over 2 directories x 2 names; the same alphabet (plus non-existing objects and an encrypted file) is driven '
             'through the real API as the media user; after every operation the tables and blob folder are projected to the abstract store, '
             'all listed streams / multi-period streams have their manifests fetched, indexed files are read back, and TLC evaluates referential '
             'integrity, name uniqueness, exact deletion and serve-or-4xx on every step.',
        note='Trusted: TLC, sqlite3 projection, shims. Histories replayed on the code are scripted/random over the model alphabet (not '
             'model-emitted). Known findings are matched by clause + history pattern.', design='4 C17'),
    'C14': dict(
        technique='TLA+ specs Events.tla + Scte35.tla (bit layout + CRC-32/MPEG-2 on 16-bit limbs): TLC over a schedule x segment grid; real '
                  'emsg generation (pure and HTTP) and SCTE-35 sections decoded and judged by TLC',
        text='TLC checks that the implementation-shaped emsg loop delivers exactly the expected event ids for every schedule of the grid and '
             'every segment; the real create_emsg_boxes runs on the same grid, real vod/live segments and out-of-band manifests are fetched, '
             'emsg boxes are read by the independent walker and every SCTE-35 section (in-band, in manifests, and round-trip boundary values) '
             'is decoded in TLA+ (splice_insert field offsets, 33-bit fields as limbs, CRC) and compared with the schedule.',
        note='Trusted: TLC, the ISO-BMFF walker, base64 decoding of manifest payloads. Schedules below 2^31; interval > 0.', design='4 C14'),
    'C18': dict(
        level='fault_enumeration',
        technique='TLA+ spec ValidatorFaults.tla: TLC exhaustive session protocol with a one-shot adversary (single fault, reported <=> applied, '
                  'termination under fairness) that also emits the abstract session grid; every case run as a real DashValidator session through an '
                  'in-process HTTP adapter that rewrites one response; TLC trace validation of every session (ValidatorFaultsTrace)',
        text='TLC model-checks the load / validate / sleep / refresh protocol with an adversary that rewrites the nth applicable response of one '
             'kind, and emits the grid configuration class (live, encrypted, timeline, patch) x 9 fault families (the eight of the statement plus a mandatory attribute removed from an MPD *patch* response) x occurrence. The harness '
             'instantiates each case with a concrete template, option vector, clock and byte/text patcher (29 patchers, harness/faults.py), '
             'adds pristine sessions over the option vectors the template registry declares, and runs the bundled validator against the real '
             'application (virtual sleep, inline worker pool). Every fetch / validate / sleep / refresh step is replayed by TLC through the '
             'model\'s actions: the adversary schedule and the protocol order must agree, and C18_Terminates, C18_NoFalsePositive, C18_Detects '
             'and C18_Located are evaluated on the observed outcome.',
        note='Trusted: TLC, the patchers (own walker / regular expressions), the weakest reading of "located" (line range of the owning '
             'AdaptationSet / the element or its parent, or URL / file name, or box / attribute name in the message). Not covered: multi-period '
             'streams, validator options other than duration/encrypted, the save-to-disk paths, faults outside the 9 families.',
        design='4 C18'),
    'C20': dict(
        technique='TLA+ spec BufferedReader.tla: TLC exhaustive refinement check (implementation-shaped cache model vs '
                  'in-memory stream) + every model edge replayed on the real class + TLC trace validation of recorded calls',
        text='TLC explores every reachable (position, cache) state of the implementation-shaped model for every geometry in '
             'scope and every operation, checking it refines the property level; every edge of that graph is then executed on '
             'the real BufferedReader and the recorded observations (plus seeded long random call sequences at real buffer '
             'sizes) are validated by TLC against the property-level clauses.',
        note='Trusted: TLC, the trace projection (bytes located in the test file by bytes.find), io.BytesIO as the underlying '
             'file. Small scope: files <= 12 bytes, buffer size 1..5, cache limit 2..3. Only explicit window sizes (as the property states).',
        design='4 C20'),
}

# stages added while the checks were strengthened against seeded changes (DESIGN.md 0.6); appended to the level text
EXTRA = {
    'C01': ' An exception out of the segment lookup is the 500 the handler would answer. Streams beside the bbb fixture: a text track without tfdt boxes, an audio file as timing reference, fragments numbered '
           '1, 3, 5, ...; explicit starts with UTC offsets and fractional seconds; field-width boundary instants (2^31..2^33 ticks). Event schedules that begin inside the window, off the segment grid.',
    'C02': ' Streams beside the bbb fixture: a text track without tfdt boxes, an audio file as timing reference (non-integral loop '
           'length in the other tracks\' ticks), fragments numbered 1, 3, 5, ...; field-width boundary instants.',
    'C03': ' The walker also reports boxes whose syntax (version / flags) needs more bytes than the box has. A server error in place of a stored segment requested by its own number / time is a violation (large segments included).',
    'C05': ' Young streams at sub-second instants, a multi-period stream with a clear-only subtitle track under DRM selections, two dubs '
           'on one track id, hostile strings with "$"; the document with the hostile strings is itself validated.',
    'C06': ' A stream stored with top-level free padding (after moov, between fragments, at the end of the file). The padded stream also has a free box before ftyp. A stream stored without sidx boxes (styp + moof + mdat per fragment; one known finding, see X03 in DESIGN.md). A stream whose last mdat is written with size 0 (to the end of the file); a legal file the indexer refuses is a violation.',
    'C07': ' Where the text given has a reading of its own (integer literals) that reading must reach the media endpoint; time-of-day '
           'error positions must name the segment that contains the instant; text-valued options round-trip starting from the value. A second stream with option defaults of its own (spec/OptionLayers.tla): values left out, equal to the global default, equal to the stream default, other.',
    'C08': ' The timing reference varies per option group (incl. durations whose double is not a whole number of seconds); thorough: '
           'Apalache checks the single-state clauses over unbounded integers.',
    'C10': ' A refused init request for a stored file is a violation; manifests of every mode with DRM selections are requested before '
           'and between the init requests (history independence); every system with every subset of locations. A stream whose key row was deleted after indexing (two known findings describe the unchanged behaviour there).',
    'C11': ' The {cfgs} field of the parsed-back licence URL must name every key by its little-endian GUID; ClearKey ids of other '
           'lengths and keys whose base64 uses "+" and "/". The same PlayReady Object asked for again after the key of a key id was replaced.',
    'C09': ' Patch sessions on a stream with option defaults of its own, spelling out values equal to the global defaults.',
    'C12': ' Fractional Period durations; multi-period manifests with DRM selections (fallback to clear files of the Period\'s own stream).',
    'C14': ' Round trips for all 256 segmentation types with and without duration / delivery restrictions.',
    'C15': ' The second client\'s CSRF cookie is a near-copy of the first one\'s; used tokens return in equivalent percent-encodings; HEAD '
           'requests carry GET\'s parameter variants. An account created on the primary key of a deleted media account is swept as a lesser role.',
    'C16': ' Every /time/<method> route and the ends of the accepted integer range in the grid; failure count 0.',
    'C17': ' Key ids written in several spellings (rows identified by the 128-bit value). Edits of a multi-period stream\'s name (free, own, in use): never 5xx, accepted only for a free name, no rows removed.',
    'C19': ' A sweep of the microsecond field of date-times, scale_timedelta over deltas up to 400 days, the template filters.',
}

NOT_APPLICABLE = {
}


def main():
    props = [json.loads(l)['id'] for l in (HERE / 'properties.jsonl').open()]
    checks = []
    for pid in props:
        c = CHECKS.get(pid)
        if not c:
            continue
        checks.append({
            'property_id': pid,
            'quick_cmd': f'./check {pid} --tier quick',
            'thorough_cmd': f'./check {pid} --tier thorough',
            'evidence_file': f'/verif/evidence/{pid}.json',
            'replay_cmd_template': f'./check {pid} --replay {{path}}',
            'engine': 'tlc-trace',
            'level_claimed': {'category': c.get('level', 'model_checking'), 'text': c['text'] + EXTRA.get(pid, ''),
                              'design_ref': 'DESIGN.md section ' + c['design']},
            'level_note': c['note'],
            'technique': c['technique'],
        })
    na = []
    for pid in props:
        if pid not in CHECKS:
            na.append({'property_id': pid,
                       'reason': NOT_APPLICABLE.get(pid, 'check not built yet in this round (planned in DESIGN.md section 4); not claimed')})
    man = {
        'version': 1,
        'setup_cmd': './check setup',
        'hooks': {
            'guard': 'DASHLIVE_VERIF_TRACE',
            'enable': 'checks export DASHLIVE_VERIF_TRACE=1 and import /repo directly (pure Python, no build step); '
                      'PYTHONPATH additionally carries /verif/shims for four absent third-party modules',
            'baseline_off_cmd': 'cd /repo && env -u DASHLIVE_VERIF_TRACE /venv/bin/python -m pytest -ra -q -p no:cacheprovider '
                                '--timeout=900 --continue-on-collection-errors',
            'source_commits': ['56fa05b3ed3704f8bf808239e0f55733a2e31ee9'],
            'add_only': True,
        },
        'engines': [
            {'name': 'tlc-trace', 'path': '/verif/harness', 'serves_properties': sorted(CHECKS),
             'kind_free_text': 'TLA+ specifications in /verif/spec checked with TLC (design level), behaviours/edges emitted by '
                               'TLC replayed on the real code, and NDJSON traces recorded from the real code validated by TLC '
                               'against *Trace.tla modules'},
        ],
        'checks': checks,
        'not_applicable': na,
        'notes': 'exit 0 = held; exit 1 + VIOLATION line = property-level clause false on behaviour observed from the real code; '
                 'exit 2 = machinery failure. Known findings: /verif/known_findings.json.',
    }
    (HERE / 'MANIFEST.json').write_text(json.dumps(man, indent=1) + '\n')


if __name__ == '__main__':
    main()
