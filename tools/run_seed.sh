#!/bin/bash
# run_seed.sh <seed dir> <check id>... : apply a seeded change to /repo, run the checks' quick tier (VERIF_TIER overrides), undo.
set -u
dir=$1; shift
if [ -n "$(git -C /repo status --porcelain)" ]; then echo "/repo is dirty - refusing"; exit 2; fi
git -C /repo apply "$dir/patch.diff" || { echo "patch does not apply"; exit 2; }
trap 'git -C /repo checkout -- . ; git -C /repo clean -fdq' EXIT
tier=${VERIF_TIER:-quick}
for c in "$@"; do
  out=$(cd /verif && ./check "$c" --tier "$tier" 2>&1); rc=$?
  echo "seed=$(basename "$dir") check=$c tier=$tier exit=$rc"
  echo "$out" | grep -E "^(VIOLATION|MACHINERY|  clause=)" | cut -c1-500
done
