#!/bin/sh
# tools/mutate.sh <file-in-repo> <python-regex> <replacement> <check...>   (scratch use only)
# applies a one-line mutation to /repo, runs the checks, restores /repo.
f="$1"; pat="$2"; rep="$3"; shift 3
cd /repo || exit 2
if [ -n "$(git status --porcelain)" ]; then echo "REFUSING: /repo has uncommitted changes"; exit 4; fi
/venv/bin/python - "$f" "$pat" "$rep" <<'PY'
import re,sys
f,pat,rep=sys.argv[1:4]
s=open(f).read()
n=len(re.findall(pat,s,flags=re.M))
if n!=1:
    print(f'MUTATION pattern matched {n} times'); sys.exit(3)
open(f,'w').write(re.sub(pat,rep,s,count=1,flags=re.M))
PY
[ $? -eq 0 ] || { git -C /repo checkout -- .; exit 3; }
git -C /repo diff --stat | tail -1
cd /verif
for c in "$@"; do
  ./check "$c" > /tmp/mut.$c.out 2>&1; echo "check $c exit=$?"; grep -E "^VIOLATION|MACHINERY" /tmp/mut.$c.out | head -3
done
git -C /repo checkout -- .
