#!/bin/bash
# confirm_seed.sh <dir with patch.diff demo.py meta.json>: confirms in a scratch worktree of /repo's HEAD that
#  - demo.py says HOLDS (exit 0) on the unchanged tree,
#  - the patch applies, the pinned suite still gives 87 passed / 32 errors,
#  - demo.py says BROKEN (exit 1) on the changed tree.
set -u
dir=$(cd "$1" && pwd)
wt=$(mktemp -d /tmp/confirm-XXXXXX)
rmdir "$wt"
git -C /repo worktree add --detach "$wt" HEAD >/dev/null 2>&1 || { echo "CONFIRM-FAIL worktree"; exit 2; }
cleanup() { git -C /repo worktree remove --force "$wt" >/dev/null 2>&1; rm -rf "$wt"; }
trap cleanup EXIT
cd "$wt"
out0=$(env -u DASHLIVE_VERIF_TRACE /venv/bin/python "$dir/demo.py" 2>&1); rc0=$?
git apply "$dir/patch.diff" || { echo "CONFIRM-FAIL patch does not apply"; exit 1; }
tests=$(env -u DASHLIVE_VERIF_TRACE /venv/bin/python -m pytest -ra -q -p no:cacheprovider --timeout=900 --continue-on-collection-errors 2>&1 | tail -1)
out1=$(env -u DASHLIVE_VERIF_TRACE /venv/bin/python "$dir/demo.py" 2>&1); rc1=$?
echo "clean: rc=$rc0 $(echo "$out0" | grep -m1 -E '^(HOLDS|BROKEN)' | cut -c1-200)"
echo "tests: $tests"
echo "patched: rc=$rc1 $(echo "$out1" | grep -m1 -E '^(HOLDS|BROKEN)' | cut -c1-300)"
if [ $rc0 -eq 0 ] && [ $rc1 -eq 1 ] && echo "$tests" | grep -q "87 passed" && echo "$tests" | grep -q "32 errors"; then
  echo "CONFIRMED"; exit 0
fi
echo "CONFIRM-FAIL"; exit 1
