#!/bin/bash
# usage: batch.sh <seed> <outdir>
seed=$1; out=$2; mkdir -p $out
cd /verif
run() { id=$1; s=$(date +%s); VERIF_SEED=$seed ./check $id --tier quick > $out/$id.out 2>&1; rc=$?; e=$(date +%s); echo "$id exit=$rc $((e-s))s known=$(grep -c '^KNOWN-FINDING' $out/$id.out)" >> $out/summary.log; }
export -f run; export seed out
: > $out/summary.log
for id in C01 C02 C03 C04 C05 C06 C07 C08 C09 C10 C11 C12 C13 C14 C15 C16 C17 C18 C19 C20 X01 X02 X03; do echo $id; done | xargs -P 4 -I{} bash -c "run {}"
