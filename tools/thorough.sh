#!/bin/bash
# usage: thorough.sh <outdir> [ids...]  - thorough tier of every check (3 at a time), summary in <outdir>/summary.log
out=$1; shift; mkdir -p $out
ids=${@:-C18 C01 C02 C09 C16 C04 C05 C03 C06 C07 C08 C10 C11 C12 C13 C14 C15 C17 C19 C20 X01 X02 X03}
cd /verif
run() { id=$1; s=$(date +%s); ./check $id --tier thorough > $out/$id.out 2>&1; rc=$?; e=$(date +%s); echo "$id exit=$rc $((e-s))s known=$(grep -c '^KNOWN-FINDING' $out/$id.out)" >> $out/summary.log; }
export -f run; export out
: > $out/summary.log
for id in $ids; do echo $id; done | xargs -P 3 -I{} bash -c "run {}"
