#!/bin/bash
# seed_campaign.sh [ids...]: for every seeded change under /verif/seeded/<id>/ build a scratch worktree of /repo's HEAD with
# the patch applied and run the owning check's quick tier (VERIF_TIER overrides) against it (DASHLIVE_REPO), evidence redirected.
# Prints one line per seed: caught (exit 1 + VIOLATION) / missed (exit 0) / machinery (exit 2).
set -u
cd /verif
ids=${@:-$(ls seeded)}
tier=${VERIF_TIER:-quick}
par=${PAR:-5}
run_one() {
  id=$1; tier=$2
  prop=$(python3 -c "import json;print(json.load(open('/verif/seeded/$id/meta.json'))['property'])")
  wt=/tmp/seedwt-$id
  git -C /repo worktree remove --force $wt >/dev/null 2>&1; rm -rf $wt $wt.ev
  git -C /repo worktree add --detach $wt HEAD >/dev/null 2>&1 || { echo "$id worktree failed"; return; }
  if ! git -C $wt apply /verif/seeded/$id/patch.diff; then echo "$id patch does not apply"; git -C /repo worktree remove --force $wt; return; fi
  mkdir -p $wt.ev
  out=$(DASHLIVE_REPO=$wt VERIF_EVIDENCE_DIR=$wt.ev ./check $prop --tier $tier 2>&1); rc=$?
  v=$(echo "$out" | grep -E "^  clause=" | sed -E 's/^  clause=([A-Za-z0-9_]+) cases=([0-9]+).*/\1(\2)/' | tr '\n' ' ')
  m=$(echo "$out" | grep -E "^MACHINERY" | cut -c1-300)
  case $rc in 0) verdict=MISSED;; 1) verdict=CAUGHT;; *) verdict=MACHINERY;; esac
  echo "seed=$id check=$prop tier=$tier exit=$rc $verdict $v $m"
  echo "$out" > /tmp/seedwt-$id.log
  git -C /repo worktree remove --force $wt >/dev/null 2>&1; rm -rf $wt $wt.ev
}
export -f run_one
echo $ids | tr ' ' '\n' | xargs -P $par -I{} bash -c "run_one {} $tier"
